"""C13 - Parsing and filter building are independent of what happened before.

H1 inventory and writers of process-shared mutable state, H2 reset coverage
of the parser's own state, H3 registry reset, H4 factory never reads the
registry.
"""
import ast

from sa.model import AnalysisError, walk_no_nested, norm, call_name, stmt_of, mangle
from sa.util import const_value, bound_arg, attr_writes
from sa.consteval import TOP, Evaluator
from .proles import ParserRoles
from .c07 import tag_bindings, bound_arg_fn

MUTATORS = {"append", "extend", "insert", "remove", "pop", "clear", "sort", "reverse", "update", "add", "discard",
            "setdefault", "popitem"}


def is_mutable_ctor(e):
    if isinstance(e, (ast.List, ast.Dict, ast.Set, ast.ListComp, ast.DictComp, ast.SetComp)):
        return True
    if isinstance(e, ast.Call) and isinstance(e.func, ast.Name) and e.func.id in ("list", "dict", "set", "bytearray", "defaultdict", "OrderedDict"):
        return True
    return False


def shared_objects(program):
    """[(kind, owner module, qualified name, node)] for module-level and
    class-level bindings of mutable objects."""
    out = []
    for m in program.modules.values():
        for st in m.tree.body:
            tgt = val = None
            if isinstance(st, ast.Assign) and len(st.targets) == 1 and isinstance(st.targets[0], ast.Name):
                tgt, val = st.targets[0].id, st.value
            elif isinstance(st, ast.AnnAssign) and isinstance(st.target, ast.Name) and st.value is not None:
                tgt, val = st.target.id, st.value
            if tgt and is_mutable_ctor(val):
                out.append(("module", m, tgt, st))
        for c in m.classes.values():
            for st in c.node.body:
                tgt = val = None
                if isinstance(st, ast.Assign) and len(st.targets) == 1 and isinstance(st.targets[0], ast.Name):
                    tgt, val = st.targets[0].id, st.value
                elif isinstance(st, ast.AnnAssign) and isinstance(st.target, ast.Name) and st.value is not None:
                    tgt, val = st.target.id, st.value
                if tgt and is_mutable_ctor(val):
                    out.append(("class", m, "%s.%s" % (c.name, tgt), st))
    return out


def run(ctx):
    R = ParserRoles(ctx, "H")
    prog = ctx.program
    ctx.explanation = (
        "An effect analysis: (H1) inventory of every module-level and class-level mutable object of the package and of "
        "every statement that may write it after import (rebinding through the class or module, in-place mutators, "
        "subscript stores, one level of aliasing): the only writable shared state is the extension registry (writers: "
        "the parser's reset and RequireCommand.complete_cb) and the command namespace (add_commands, configuration); "
        "token tables, command tables and shared slot dictionaries have no writer; (H2) every Parser attribute that a "
        "token handler writes is re-initialised by the reset, the reset dominates the token loop, the lexer "
        "re-initialises position and text at the start of scan; (H3) the reset empties the registry before the first "
        "lookup of a parse; (H4) no call from factory.py can read the registry: each call into the lookup or the "
        "argument interpreter disables the check or is statically extension-free.")
    ctx.not_decided = "nothing of the statement beyond Python-level state outside the package (locale, environment)."

    h1(ctx, R)
    h2(ctx, R)
    h3(ctx, R)
    # every way into the token loop passes the reset: parse_file hands its bytes to parse() and returns its verdict (X12 of C02)
    from .c02 import x12
    x12(ctx, R)

    # ---- H4 ----------------------------------------------------------------------
    ctx.rule("H4", "factory isolation: no call from factory.py can read the registry")
    h4(ctx, R)


def h1(ctx, R, only=None):
    prog = ctx.program
    # ---- H1 ----------------------------------------------------------------------
    ctx.rule("H1", "process-shared mutable objects and their writers")
    objs = shared_objects(prog)
    ctx.need("H1", "shared mutable objects", len(objs), 30)
    short = {}
    for kind, m, q, st in objs:
        short.setdefault(q.split(".")[-1], []).append((kind, m, q))
    allowed = {
        "RequireCommand.loaded_extensions": {"Parser.__reset_parser", "RequireCommand.complete_cb"},
    }
    allowed["RequireCommand.loaded_extensions"] = {R.reset.qualname, "RequireCommand.complete_cb"}
    writes = []  # (object qualified name, func, stmt, how)
    param_alias = {}  # id(func node) -> {param: shared object}
    funcs_by_name = {}
    for f in prog.all_funcs():
        funcs_by_name.setdefault(f.name, []).append(f)
    for _round in range(3):
        for f in prog.all_funcs():
            al = dict(param_alias.get(id(f.node), {}))
            for n in walk_no_nested(f.node):
                if isinstance(n, (ast.Assign, ast.For)):
                    src = n.value if isinstance(n, ast.Assign) else n.iter
                    tg = n.targets[0] if isinstance(n, ast.Assign) else n.target
                    base = src
                    while isinstance(base, ast.Subscript):
                        base = base.value
                    nm = base.attr if isinstance(base, ast.Attribute) else (base.id if isinstance(base, ast.Name) else None)
                    if isinstance(tg, ast.Name) and nm in ("args_definition", "must_follow", "lrules"):
                        al[tg.id] = nm
                    elif isinstance(tg, ast.Name) and isinstance(base, ast.Name) and base.id in al:
                        al[tg.id] = al[base.id]
            for c in walk_no_nested(f.node):
                if isinstance(c, ast.Call) and call_name(c) in funcs_by_name:
                    for g in funcs_by_name[call_name(c)]:
                        params = g.params[1:] if g.cls is not None else g.params
                        for i, a in enumerate(c.args):
                            if isinstance(a, ast.Name) and a.id in al and i < len(params):
                                param_alias.setdefault(id(g.node), {})[params[i]] = al[a.id]
    for f in prog.all_funcs():
        aliases = dict(param_alias.get(id(f.node), {}))  # local name -> shared object it may alias
        for n in walk_no_nested(f.node):
            if isinstance(n, (ast.Assign, ast.For)):
                src = n.value if isinstance(n, ast.Assign) else n.iter
                tg = n.targets[0] if isinstance(n, ast.Assign) else n.target
                base = src
                while isinstance(base, ast.Subscript):
                    base = base.value
                nm = base.attr if isinstance(base, ast.Attribute) else (base.id if isinstance(base, ast.Name) else None)
                if nm in short and isinstance(tg, ast.Name) and (isinstance(src, ast.Subscript) or isinstance(n, ast.For) or src is base):
                    if nm in ("args_definition", "must_follow", "lrules", "loaded_extensions") or (
                            isinstance(base, ast.Name) and any(k == "module" and mm is f.module for k, mm, _ in short[nm])):
                        aliases[tg.id] = nm
        for _pass in range(2):
            # an element reached through an alias is still part of the shared object
            for n in walk_no_nested(f.node):
                if isinstance(n, (ast.Assign, ast.For)):
                    src = n.value if isinstance(n, ast.Assign) else n.iter
                    tg = n.targets[0] if isinstance(n, ast.Assign) else n.target
                    base = src
                    if isinstance(base, ast.Call) and isinstance(base.func, ast.Attribute) and base.func.attr == "get":
                        base = base.func.value
                    while isinstance(base, ast.Subscript):
                        base = base.value
                    if isinstance(tg, ast.Name) and isinstance(base, ast.Name) and base.id in aliases and tg.id not in aliases \
                            and (isinstance(src, (ast.Subscript, ast.Call)) or isinstance(n, ast.For)):
                        aliases[tg.id] = aliases[base.id]
        for n in walk_no_nested(f.node):
            target = None
            how = None
            if isinstance(n, (ast.Attribute, ast.Name)) and isinstance(getattr(n, "ctx", None), (ast.Store, ast.Del)):
                nm = n.attr if isinstance(n, ast.Attribute) else n.id
                if nm in short:
                    if isinstance(n, ast.Attribute) and isinstance(n.value, ast.Name) and n.value.id in ("self", "cls") \
                            and not any(k == "class" for k, _, _ in short[nm]):
                        continue
                    if isinstance(n, ast.Name) and not any(isinstance(g, ast.Global) and nm in g.names for g in ast.walk(f.node)):
                        continue  # a local of the same name
                    if isinstance(n, ast.Attribute) and isinstance(n.value, ast.Name) and n.value.id == "self" and nm in (
                            "filters", "requires", "result", "hash_comments"):
                        continue
                    target, how = nm, "rebinding"
                elif isinstance(n, ast.Attribute) and isinstance(n.value, ast.Name) and prog.cls(n.value.id) is not None \
                        and prog.cls(n.value.id).module.name in ("commands", "parser", "factory", "managesieve"):
                    # <Class>.<attr> = ... : a class attribute is one object for the whole process, whatever its first value was
                    target, how = "%s.%s" % (n.value.id, nm), "class attribute bound from a method"
            elif isinstance(n, ast.Subscript) and isinstance(n.ctx, (ast.Store, ast.Del)):
                base = n.value
                while isinstance(base, ast.Subscript):
                    base = base.value
                nm = base.attr if isinstance(base, ast.Attribute) else (base.id if isinstance(base, ast.Name) else None)
                if nm in aliases:
                    target, how = aliases[nm], "store through alias %s" % nm
                elif nm in short and _refers_shared(f, base, nm, short):
                    target, how = nm, "subscript store"
                elif isinstance(base, ast.Call) and call_name(base) == "globals":
                    target, how = "<module namespace>", "globals()[...] store"
            elif isinstance(n, ast.Call) and isinstance(n.func, ast.Attribute) and n.func.attr in MUTATORS:
                base = n.func.value
                while isinstance(base, ast.Subscript):
                    base = base.value
                nm = base.attr if isinstance(base, ast.Attribute) else (base.id if isinstance(base, ast.Name) else None)
                if nm in aliases:
                    target, how = aliases[nm], ".%s() through alias %s" % (n.func.attr, nm)
                elif nm in short and _refers_shared(f, base, nm, short):
                    target, how = nm, ".%s()" % n.func.attr
            elif isinstance(n, ast.AugAssign):
                base = n.target
                while isinstance(base, ast.Subscript):
                    base = base.value
                nm = base.attr if isinstance(base, ast.Attribute) else (base.id if isinstance(base, ast.Name) else None)
                if nm in aliases:
                    target, how = aliases[nm], "augmented assignment through alias %s" % nm
                elif nm in short and _refers_shared(f, base, nm, short):
                    target, how = nm, "augmented assignment"
            if target:
                writes.append((target, f, stmt_of(n) or n, how))
    seen = set()
    for target, f, st, how in writes:
        key = (target, f.qualname, norm(st))
        if key in seen:
            continue
        seen.add(key)
        if only is not None and target not in only:
            continue
        if target == "loaded_extensions" and f.qualname in allowed["RequireCommand.loaded_extensions"]:
            ctx.holds("H1", "registry writer %s: %s" % (f.qualname, norm(st)[:60]))
        elif target == "<module namespace>" and f is R.add_commands:
            ctx.holds("H1", "command namespace written by %s (configuration, C20)" % f.qualname)
        elif f is R.add_commands and R.command_namespace() == ("registry", target) and how == "subscript store":
            ctx.holds("H1", "command registry %s written by %s (configuration, C20)" % (target, f.qualname))
        elif how == "subscript store" and _class_keyed_memo(prog, f, st, target):
            ctx.holds("H1", "%s in %s: a memo keyed by the class of the object, of values computed from class-level attributes only" % (target, f.qualname))
        elif f is R.add_commands and _of_registered_object(f, st):
            ctx.holds("H1", "%s sets %s on the class being registered (configuration, C20; rule Y4 keeps the definition as written)" % (f.qualname, target))
        else:
            ctx.violation("H1", f, "shared-write:%s" % target, "process-shared object %s is modified in %s (%s): %s" % (
                target, f.qualname, how, norm(st)[:70]), node=st,
                witness="the outcome of a later parse / filter construction depends on whether this code ran before")
    nwritable = len({t for t, _, _, _ in writes})
    ctx.holds("H1", "%d shared mutable objects inventoried (%d token/command tables, slot dictionaries, constant lists have no writer)"
              % (len(objs), len(objs) - min(nwritable, len(objs))))
    ctx.extra["shared_objects"] = sorted(q for _, _, q, _ in objs)



def _class_keyed_memo(prog, f, st, target):
    """st is `TABLE[type(p)] = V` (p a parameter) where V is computed from class-level attributes of p only: every instance of a class gets
    the same entry, whatever was computed before - the table is a cache of pure facts about classes, not state."""
    if not (isinstance(st, ast.Assign) and len(st.targets) == 1 and isinstance(st.targets[0], ast.Subscript)
            and isinstance(st.targets[0].value, ast.Name) and st.targets[0].value.id == target):
        return False
    k = st.targets[0].slice
    if isinstance(k, ast.Call) and isinstance(k.func, ast.Name) and k.func.id == "type" and len(k.args) == 1 and isinstance(k.args[0], ast.Name):
        pn = k.args[0].id
    elif isinstance(k, ast.Attribute) and k.attr == "__class__" and isinstance(k.value, ast.Name):
        pn = k.value.id
    else:
        return False
    if pn not in f.params:
        return False
    # backward slice of the stored value
    need = {n.id for n in ast.walk(st.value) if isinstance(n, ast.Name)}
    stmts = []
    grew = True
    while grew:
        grew = False
        for n in walk_no_nested(f.node):
            tg = None
            if isinstance(n, ast.Assign):
                tg = {x.id for t in n.targets for x in ast.walk(t) if isinstance(x, ast.Name) and isinstance(x.ctx, ast.Store)}
                src = [n.value]
            elif isinstance(n, ast.AugAssign) and isinstance(n.target, ast.Name):
                tg, src = {n.target.id}, [n.value]
            elif isinstance(n, ast.For):
                tg = {x.id for x in ast.walk(n.target) if isinstance(x, ast.Name)}
                src = [n.iter]
            elif isinstance(n, ast.Expr) and isinstance(n.value, ast.Call) and isinstance(n.value.func, ast.Attribute) \
                    and isinstance(n.value.func.value, ast.Name) and n.value.func.attr in MUTATORS:
                tg, src = {n.value.func.value.id}, list(n.value.args)
            if tg and tg & need and n not in stmts and n is not st:
                stmts.append(n)
                new = {x.id for e_ in src for x in ast.walk(e_) if isinstance(x, ast.Name)} - need
                if new:
                    need |= new
                    grew = True
                else:
                    grew = True if len(stmts) and False else grew
    reads = set()
    for n in stmts + [st]:
        exprs = [n.iter] if isinstance(n, ast.For) else [n]
        for e_ in exprs:
            for x in ast.walk(e_):
                if isinstance(x, ast.Name) and x.id == pn and isinstance(x.ctx, ast.Load):
                    par = getattr(x, "_parent", None)
                    if isinstance(par, ast.Attribute) and par.value is x and isinstance(par.ctx, ast.Load):
                        if not (isinstance(getattr(par, "_parent", None), ast.Call) and par._parent.func is par):
                            reads.add(par.attr)
                            continue
                    if isinstance(par, ast.Call) and isinstance(par.func, ast.Name) and par.func.id == "type":
                        continue
                    return False  # the object itself (or a method of it) takes part in the value
    if not reads:
        return False
    for a in reads:
        if a == "__class__":
            continue
        cls_level = any(a in c.attrs for c in prog.all_classes())
        inst = [w for w in attr_writes(prog, a) if w[0].cls is not None and w[0].params and isinstance(w[1], ast.Attribute)
                and isinstance(w[1].value, ast.Name) and w[1].value.id == w[0].params[0] and "classmethod" not in w[0].decorators]
        if not cls_level or inst:
            return False
    return True


def _of_registered_object(f, st):
    """st assigns an attribute of the object add_commands is registering (its parameter, or the variable of a loop over it)."""
    if not isinstance(st, ast.Assign) or len(st.targets) != 1 or not isinstance(st.targets[0], ast.Attribute) \
            or not isinstance(st.targets[0].value, ast.Name):
        return False
    v = st.targets[0].value.id
    params = set(f.params)
    if v in params:
        return True
    for lp in walk_no_nested(f.node):
        if isinstance(lp, ast.For) and isinstance(lp.target, ast.Name) and lp.target.id == v and isinstance(lp.iter, ast.Name) and lp.iter.id in params:
            return True
    return False


def _cannot_raise(st):
    """a statement that only binds a local to a constant, a name or an empty container"""
    if isinstance(st, ast.Pass):
        return True
    if isinstance(st, (ast.Assign, ast.AnnAssign)):
        tg = st.targets if isinstance(st, ast.Assign) else [st.target]
        v = st.value
        simple = v is None or isinstance(v, (ast.Constant, ast.Name)) or (isinstance(v, (ast.List, ast.Tuple, ast.Dict)) and not any(
            True for _ in ast.walk(v) if isinstance(_, (ast.Call, ast.Subscript, ast.Attribute, ast.BinOp))))
        return simple and all(isinstance(t, ast.Name) for t in tg)
    return False


def scoped_flags(ctx, R):
    """Parser attributes that mark "a parse is running": assigned a constant in __init__, the other constant at the start of parse() and the
    first one again in a `finally` clause of parse().  -> {attr: "scoped" | (<acquiring store>, <why the flag can stay set>)}
    The pairing rule: between the acquiring store and the `try` whose finally clause releases the flag nothing may raise."""
    if hasattr(ctx, "_scoped_flags"):
        return ctx._scoped_flags
    out = {}
    ctx._scoped_flags = out
    prog = ctx.program
    init = R.Parser.methods.get("__init__")
    pf = R.parse
    if init is None:
        return out
    sn = pf.params[0]
    start = {}
    for a in walk_no_nested(init.node):
        if isinstance(a, (ast.Assign, ast.AnnAssign)) and a.value is not None:
            for t in (a.targets if isinstance(a, ast.Assign) else [a.target]):
                if isinstance(t, ast.Attribute) and isinstance(t.value, ast.Name) and t.value.id == init.params[0]:
                    v = const_value(prog, init, a.value)
                    if isinstance(v, bool) or v is None:
                        start[t.attr] = v
    for attr, v0 in start.items():
        stores = []
        foreign = False
        for f in R.Parser.methods.values():
            if f is init:
                continue
            for a in walk_no_nested(f.node):
                if isinstance(a, ast.Assign) and any(isinstance(t, ast.Attribute) and t.attr == attr and isinstance(t.value, ast.Name)
                                                     and t.value.id == f.params[0] for t in a.targets):
                    if f is not pf:
                        foreign = True
                    stores.append(a)
        if foreign or not stores:
            continue
        acquire = [a for a in stores if const_value(prog, pf, a.value) not in (v0, TOP)]
        release = [a for a in stores if const_value(prog, pf, a.value) == v0 and type(const_value(prog, pf, a.value)) is type(v0)]
        if not acquire or len(acquire) + len(release) != len(stores):
            continue
        verdict = "scoped"
        # the statements of parse() in order, the bodies of inlined helpers in place of their calls
        body = []

        def flat(sts):
            for s_ in sts:
                if type(s_).__name__ == "InlineBlock":
                    flat(s_.body)
                else:
                    body.append(s_)
        flat(pf.node.body)
        for a in acquire:
            if not any(s_ is a for s_ in body):
                verdict = (a, "it is set inside a nested statement")
                break
            rest = body[[i_ for i_, s_ in enumerate(body) if s_ is a][0] + 1:]
            k = 0
            while k < len(rest) and not isinstance(rest[k], ast.Try):
                k += 1
            if k == len(rest):
                verdict = (a, "no try/finally follows the store")
                break
            tr = rest[k]
            fin = []

            def flat2(sts):
                for s_ in sts:
                    if type(s_).__name__ == "InlineBlock":
                        flat2(s_.body)
                    else:
                        fin.append(s_)
            flat2(tr.finalbody)
            if not any(r_ is s_ for r_ in release for s_ in fin):
                verdict = (a, "the finally clause of the following try does not clear it unconditionally")
                break
            risky = [s_ for s_ in rest[:k] if not _cannot_raise(s_)]
            if risky:
                verdict = (a, "`%s` runs between the store and the try: when it raises, the flag stays set" % norm(risky[0])[:60])
                break
        out[attr] = verdict
    return out


def h2(ctx, R):
    prog = ctx.program
    from .shared_default import shared_defaults
    shared_defaults(ctx, {"parser", "commands", "factory", "tools"})
    # ---- H2 ----------------------------------------------------------------------
    ctx.rule("H2", "reset coverage: every Parser attribute written by a token handler is re-initialised by the reset; reset dominates the loop")
    running_ = {id(g.node) for g in R.reachable()}
    # (a public method that parse() never runs - a configuration call made between parses - sets up the parser, it is not per-script state)
    handlers = [f for f in R.Parser.methods.values() if f not in (R.reset, R.parse) and f.name not in ("__init__", "parse_file", "dump")
                and (f.name.startswith("_") or id(f.node) in running_)]
    written = {}
    # the failure report (error, error_pos, ...): attributes stored only in parse()'s exception handlers and read nowhere else in the
    # parser describe the outcome of the last call; they are results, not state that a later parse could start from
    report = {"error", "error_pos"}
    in_handler, elsewhere = set(), set()
    for f in R.Parser.methods.values():
        selfn = f.params[0] if f.params else "self"
        for n in walk_no_nested(f.node):
            if isinstance(n, ast.Attribute) and isinstance(n.value, ast.Name) and n.value.id == selfn:
                p_ = n
                inh = False
                while p_ is not None and p_ is not f.node:
                    if isinstance(p_, ast.ExceptHandler) and f is R.parse:
                        inh = True
                    p_ = getattr(p_, "_parent", None)
                if inh:
                    in_handler.add(n.attr)
                elif not (f.name == "__init__" and isinstance(n.ctx, ast.Store)) and f.name not in ("dump",):
                    elsewhere.add(n.attr)
    report |= {a for a in in_handler - elsewhere if not a.startswith("_")}
    for f in handlers + [R.parse]:
        selfn = f.params[0]
        for n in walk_no_nested(f.node):
            a = None
            if isinstance(n, ast.Attribute) and isinstance(n.value, ast.Name) and n.value.id == selfn:
                p = n._parent
                if isinstance(n.ctx, (ast.Store, ast.Del)):
                    a = n.attr
                elif isinstance(p, ast.Attribute) and p.attr in MUTATORS and isinstance(p._parent, ast.Call):
                    a = n.attr
                elif isinstance(p, ast.Subscript) and isinstance(p.ctx, (ast.Store, ast.Del)):
                    a = n.attr
                elif isinstance(p, ast.AugAssign) and p.target is n:
                    a = n.attr
            if a and a not in report:
                written.setdefault(a, f)
    inits = set()
    for n in walk_no_nested(R.reset.node):
        if isinstance(n, ast.Attribute) and isinstance(n.ctx, ast.Store) and isinstance(n.value, ast.Name) and n.value.id == R.reset.params[0]:
            inits.add(n.attr)
    ctx.need("H2", "parser attributes written by handlers", len(written), 6)
    scoped = scoped_flags(ctx, R)
    for a, f in sorted(written.items()):
        if a in inits:
            ctx.holds("H2", "Parser.%s (written in %s) is re-initialised by the reset" % (a, f.qualname))
        elif scoped.get(a) == "scoped":
            ctx.holds("H2", "Parser.%s marks a running parse: set at the start of %s, cleared in its finally clause, nothing between the store "
                      "and the try can raise" % (a, R.parse.qualname))
        elif a in scoped:
            st_, why = scoped[a]
            ctx.violation("H2", R.parse, "flag-not-released:%s" % a, "Parser.%s marks a running parse but can stay set after parse() has ended: %s"
                          % (a, why), node=st_, witness="after one call that raises at that point every later parse() on the object is refused (or "
                          "starts from the state the flag guards)")
        else:
            ctx.violation("H2", R.reset, "not-reset:%s" % a, "Parser attribute %s is written by %s but not re-initialised by %s" % (
                a, f.qualname, R.reset.qualname), node=R.reset.node,
                witness="a script that fails in the middle of a construct changes the verdict of the next parse() on the same object")
    # fresh values: the reset assigns new empty containers / None
    for n in walk_no_nested(R.reset.node):
        if isinstance(n, ast.Assign) and any(isinstance(t, ast.Attribute) and t.attr in written for t in n.targets):
            v = n.value
            ok = (isinstance(v, ast.Constant) and v.value in (None, b"", "", 0, False)) or (
                isinstance(v, ast.Dict) and all(isinstance(x, ast.Constant) for x in list(v.keys) + list(v.values))) or (
                isinstance(v, (ast.List, ast.Dict, ast.Tuple)) and not getattr(v, "elts", getattr(v, "keys", []))) or (
                isinstance(v, ast.Call) and isinstance(v.func, ast.Name) and v.func.id in ("list", "dict", "set", "tuple", "bytes", "str", "bytearray")
                and not v.args and not v.keywords)
            if not ok:
                ctx.violation("H2", R.reset, "reset-value:%s" % norm(n.targets[0]), "the reset initialises %s with %s (not an empty/None value)"
                              % (norm(n.targets[0]), norm(v)), node=n)
    cfgp = ctx.cfg(R.parse)
    rcalls = [c for c in walk_no_nested(R.parse.node) if isinstance(c, ast.Call) and isinstance(c.func, ast.Attribute) and c.func.attr == R.reset.name]
    loops = [x for x in walk_no_nested(R.parse.node) if isinstance(x, ast.For) and "scan" in norm(x.iter)]
    if not rcalls or not loops:
        raise AnalysisError("H2", "parse(): reset call or token loop not found")
    rn = [x for c in rcalls for x in cfgp.node_containing(c)]
    ln = [x for lp in loops for x in cfgp.nodes_for(lp)]
    # every verdict is about THIS input: no normal exit of parse() is reachable without the reset
    for r in walk_no_nested(R.parse.node):
        if isinstance(r, ast.Return):
            if all(cfgp.dominates(rn, x, exc=False) for x in cfgp.nodes_for(r)):
                continue
            ctx.violation("H2", R.parse, "exit-before-reset", "parse() can return (%s) without having reset the parser: result, comments and "
                          "loaded extensions of the previous script stay in place" % norm(r)[:30], node=r,
                          witness="parse(script) then parse(b'') on the same object: result still holds the first script's commands")
    if all(cfgp.dominates(rn, x, exc=False) for x in ln):
        ctx.holds("H2", "the reset call dominates the token loop in %s" % R.parse.qualname)
    else:
        ctx.violation("H2", R.parse, "reset-not-dominating", "the token loop can be entered without the parser state having been reset", node=loops[0],
                      witness="a second parse() starts in the state the first one ended in")
    # lexer: pos and text (re)initialised at the start of scan
    cfgs = ctx.cfg(R.scan)
    sloops = [x for x in walk_no_nested(R.scan.node) if isinstance(x, ast.While)]
    for attr, val in (("pos", 0), ("text", None)):
        sts = [x for x in cfgs.stmt_nodes() if isinstance(x.ast, ast.Assign) and any(isinstance(t, ast.Attribute) and t.attr == attr for t in x.ast.targets)
               and not any(contains_node(lp, x.ast) for lp in sloops)]
        good = [x for x in sts if val is None or const_value(prog, R.scan, x.ast.value) == val]
        heads = [x for lp in sloops for x in cfgs.nodes_for(lp) if x.kind == "join"]
        if good and all(cfgs.dominates(good, h, exc=False) for h in heads):
            ctx.holds("H2", "Lexer.%s is initialised before the scan loop" % attr)
        else:
            ctx.violation("H2", R.scan, "lexer-not-reset:%s" % attr, "Lexer.%s is not (re)initialised at the start of scan" % attr, node=R.scan.node,
                          witness="a reused Parser starts lexing the new text at the old position")
    # any other state a Lexer method keeps on the object (caches of line offsets, counters) is per input as well
    init_l = R.Lexer.methods.get("__init__")
    sheads = [x for lp in sloops for x in cfgs.nodes_for(lp) if x.kind == "join"]
    scan_sets = {t.attr for x in cfgs.stmt_nodes() if isinstance(x.ast, (ast.Assign, ast.AnnAssign)) and not any(contains_node(lp, x.ast) for lp in sloops)
                 and all(cfgs.dominates([x], h, exc=False) for h in sheads)  # before the first token is produced, on every path
                 for t in (x.ast.targets if isinstance(x.ast, ast.Assign) else [x.ast.target]) if isinstance(t, ast.Attribute)}
    kept = {}
    for g in R.Lexer.methods.values():
        if g is init_l:
            continue
        sn = g.params[0] if g.params else "self"
        for n in walk_no_nested(g.node):
            if isinstance(n, ast.Attribute) and isinstance(n.value, ast.Name) and n.value.id == sn:
                p_ = n._parent
                if isinstance(n.ctx, (ast.Store, ast.Del)) or (isinstance(p_, ast.Attribute) and p_.attr in MUTATORS and isinstance(p_._parent, ast.Call)) \
                        or (isinstance(p_, ast.Subscript) and isinstance(p_.ctx, (ast.Store, ast.Del))) or (isinstance(p_, ast.AugAssign) and p_.target is n):
                    kept.setdefault(n.attr, g)
    for a, g in sorted(kept.items()):
        if a in scan_sets:
            ctx.holds("H2", "Lexer.%s (written in %s) is initialised at the start of scan" % (a, g.qualname))
        else:
            ctx.violation("H2", R.scan, "lexer-not-reset:%s" % a, "Lexer attribute %s is written by %s but not re-initialised by scan(): it carries "
                          "over to the next input" % (a, g.qualname), node=R.scan.node,
                          witness="a reused Parser reports error positions of the second script with the line layout of the first")



def h3(ctx, R):
    prog = ctx.program
    # ---- H3 ----------------------------------------------------------------------
    ctx.rule("H3", "the reset empties the extension registry before the first lookup of a parse")
    regw = [n for n in walk_no_nested(R.reset.node) if isinstance(n, ast.Assign) and any(
        isinstance(t, ast.Attribute) and t.attr == "loaded_extensions" for t in n.targets)]
    clears = [n for n in walk_no_nested(R.reset.node) if isinstance(n, ast.Call) and isinstance(n.func, ast.Attribute) and n.func.attr == "clear"
              and "loaded_extensions" in norm(n.func.value)]
    ok = any(R.fresh_start_value(n.value) is not None for n in regw) or bool(clears)
    # unconditional inside the reset
    cfgr = ctx.cfg(R.reset)
    nodes = [x for n in regw for x in cfgr.nodes_for(n)] + [x for n in clears for x in cfgr.node_containing(n)]
    if ok and nodes and cfgr.dominates(nodes, cfgr.exit, exc=False):
        ctx.holds("H3", "%s empties RequireCommand.loaded_extensions on every path" % R.reset.qualname)
    else:
        ctx.violation("H3", R.reset, "registry-not-reset", "the parser reset does not empty the extension registry", node=R.reset.node,
                      witness="parse('require \"fileinto\"; ...') then parse('fileinto \"x\";') on any Parser: the second script is accepted")
    # class attribute, not instance attribute: the reset must assign through the class
    for n in regw:
        for t in n.targets:
            if isinstance(t, ast.Attribute) and isinstance(t.value, ast.Name) and t.value.id == R.reset.params[0]:
                ctx.violation("H3", R.reset, "registry-shadowed", "the reset assigns loaded_extensions on the parser instance, not on RequireCommand",
                              node=n)



def contains_node(root, node):
    for n in ast.walk(root):
        if n is node:
            return True
    return False


def _refers_shared(f, base, nm, short):
    """Does expression `base` (Name or Attribute named nm) denote the shared
    object rather than an instance attribute or local of the same name?"""
    kinds = short[nm]
    if isinstance(base, ast.Name):
        if not any(k == "module" and m is f.module for k, m, _ in kinds):
            return False
        # a local rebinding of the same name shadows the module object
        for n in walk_no_nested(f.node):
            if isinstance(n, ast.Name) and n.id == nm and isinstance(n.ctx, ast.Store):
                return False
        return nm not in f.params
    if isinstance(base, ast.Attribute):
        if any(k == "class" for k, _, _ in kinds):
            return True  # self.<classattr>.append(...) mutates the shared object
        if isinstance(base.value, ast.Name) and any(k == "module" and m.name == base.value.id for k, m, _ in kinds):
            return True
    return False


def h4(ctx, R):
    prog = ctx.program
    fmod = prog.module("factory")
    allowed = gate_functions(ctx, R)
    # calls made inside `with <scope that suspends the checks>:` (rule E7 of C07) do not consult the registry
    from .c07 import scoped_switches
    switches = scoped_switches(ctx, R)
    suspenders = set()
    for g in R.cmod.all_funcs():
        if any(isinstance(x, ast.Global) and set(x.names) & switches for x in ast.walk(g.node)) and any(
                "contextmanager" in d for d in g.decorators):
            suspenders.add(g.name)

    always_suspended = set()

    def suspended(call):
        p_ = getattr(call, "_parent", None)
        while p_ is not None:
            if isinstance(p_, ast.With) and any(isinstance(it.context_expr, ast.Call) and call_name(it.context_expr) in suspenders for it in p_.items):
                return True
            if isinstance(p_, ast.FunctionDef) and p_.name in always_suspended:
                return True
            p_ = getattr(p_, "_parent", None)
        return False
    # a private method all of whose call sites are suspended runs suspended itself
    if suspenders:
        grew = True
        while grew:
            grew = False
            for g in fmod.all_funcs():
                if g.name in always_suspended or not g.name.startswith("_") or g.name.startswith("__init"):
                    continue
                sites = [c for f in fmod.all_funcs() for c in walk_no_nested(f.node) if isinstance(c, ast.Call) and call_name(c) == g.name and f is not g]
                if sites and all(suspended(c) for c in sites):
                    always_suspended.add(g.name)
                    grew = True
    registry_readers(ctx, R, allowed)
    table = R.table()
    by_name = {e["name"]: e for e in table.values() if not e["abstract"]}
    lk, cna = R.lookup, R.check_next_arg
    bypass = [p for p in lk.params if "check" in p.lower()]
    ce = [p for p in cna.params if "extension" in p.lower()]
    n = 0
    for f in fmod.all_funcs():
        # receiver typing: local name -> command name(s) it may hold
        holds = {}
        for st in walk_no_nested(f.node):
            if isinstance(st, ast.Assign) and isinstance(st.value, ast.Call) and call_name(st.value) == lk.name and isinstance(st.targets[0], ast.Name):
                a0 = st.value.args[0] if st.value.args else None
                v = const_value(prog, f, a0) if a0 is not None else TOP
                holds.setdefault(st.targets[0].id, set()).add(v if isinstance(v, str) else None)
            elif isinstance(st, ast.Assign) and isinstance(st.value, ast.Call) and isinstance(st.targets[0], ast.Name) \
                    and isinstance(st.value.func, ast.Attribute) and "build_condition" in st.value.func.attr:
                holds.setdefault(st.targets[0].id, set()).add("header")
        for c in walk_no_nested(f.node):
            if not isinstance(c, ast.Call):
                continue
            cn = call_name(c)
            if cn == lk.name:
                n += 1
                label = "%s: %s" % (f.qualname, norm(c)[:70])
                a = bound_arg_fn(c, lk, bypass[0]) if bypass else None
                if a is not None and const_value(prog, f, a) is False:
                    ctx.holds("H4", label, "check disabled")
                    continue
                if suspended(c):
                    ctx.holds("H4", label, "inside a scope that suspends the checks")
                    continue
                a0 = c.args[0] if c.args else None
                v = const_value(prog, f, a0) if a0 is not None else TOP
                names = None
                if isinstance(v, str):
                    names = [v]
                else:
                    names = bounded_names(prog, f, c, a0)
                if names is not None and all(nm in by_name and not by_name[nm].get("extension") for nm in names):
                    ctx.holds("H4", label, "command(s) %s need no extension" % names)
                else:
                    ctx.violation("H4", f, "registry-read:lookup:%s" % norm(a0), "the factory looks up %s with the extension check enabled: the result "
                                  "depends on what an earlier parse required" % norm(a0), node=c,
                                  witness="the same addfilter() call raises ExtensionNotLoaded in a fresh process and succeeds after another script was parsed")
            elif cn == "check_next_arg":
                n += 1
                label = "%s: %s" % (f.qualname, norm(c)[:70])
                a = bound_arg(c, cna, ce[0]) if ce else None
                if a is not None and const_value(prog, f, a) is False:
                    ctx.holds("H4", label, "check disabled")
                    continue
                if suspended(c):
                    ctx.holds("H4", label, "inside a scope that suspends the checks")
                    continue
                atype = const_value(prog, f, c.args[0]) if c.args else TOP
                if atype is not TOP and atype != "tag":
                    ctx.holds("H4", label, "a %s value never reaches an extension-bound slot" % atype)
                    continue
                recv = c.func.value if isinstance(c.func, ast.Attribute) else None
                cmds = holds.get(recv.id) if isinstance(recv, ast.Name) else None
                if isinstance(recv, ast.Name):
                    near = reaching_command(prog, f, c, recv.id, lk.name)
                    if near is not None:
                        cmds = near
                if cmds and None not in cmds and all(cm in by_name and not tag_bindings(by_name[cm]) for cm in cmds):
                    ctx.holds("H4", label, "command(s) %s have no extension-bound tag" % sorted(cmds))
                    continue
                if cmds and None not in cmds and atype == "tag":
                    tv = const_value(prog, f, c.args[1]) if len(c.args) > 1 else TOP
                    if isinstance(tv, str) and all(tv not in tag_bindings(by_name[cm]) for cm in cmds if cm in by_name):
                        ctx.holds("H4", label, "constant tag %s is not extension-bound" % tv)
                        continue
                ctx.violation("H4", f, "registry-read:%s:%s" % ("/".join(sorted(x or "?" for x in cmds)) if cmds else "?", norm(c)[:60]), "a user-supplied tag is checked against the process-global extension "
                              "registry (%s)" % norm(c)[:60], node=c,
                              witness="addfilter(..., [(\"Subject\", \":regex\", \"x\")], ...) raises ExtensionNotLoaded in a fresh process and "
                                      "succeeds after any parser has required \"regex\"")
    ctx.need("H4", "factory calls into the gates", n, 30)


def reaching_command(prog, f, call, var, lookup_name):
    """The command name bound to `var` by the nearest preceding assignment in
    the enclosing blocks of `call` (flow-sensitive along the block structure)."""
    st = stmt_of(call)
    cur = st
    while cur is not None and cur is not f.node:
        par = getattr(cur, "_parent", None)
        for fld in ("body", "orelse", "finalbody"):
            blk = getattr(par, fld, None)
            if isinstance(blk, list) and cur in blk:
                for prev in reversed(blk[:blk.index(cur)]):
                    if isinstance(prev, ast.Assign) and any(isinstance(t, ast.Name) and t.id == var for t in prev.targets):
                        v = prev.value
                        if isinstance(v, ast.Call) and call_name(v) == lookup_name and v.args:
                            cv = const_value(prog, f, v.args[0])
                            return {cv} if isinstance(cv, str) else None
                        if isinstance(v, ast.Call) and isinstance(v.func, ast.Attribute) and "build_condition" in v.func.attr:
                            return {"header"}
                        return None
                    if var in {n.id for n in ast.walk(prev) if isinstance(n, ast.Name) and isinstance(n.ctx, ast.Store)}:
                        return None
        cur = par
    return None


def bounded_names(prog, f, call, a0):
    """Possible constant values of a non-constant command name: a dominating
    membership test against a constant tuple, or the documented domain of the
    public `matchtype` parameter."""
    if isinstance(a0, ast.Name) and a0.id == "matchtype":
        return ["anyof", "allof"]  # documented: ':param matchtype: "anyof" or "allof"'
    # `if cname in ("true", "false"): get_command_instance(c[0], ...)`
    p = call
    while p is not None:
        par = getattr(p, "_parent", None)
        if isinstance(par, ast.If) and p in par.body:
            t = par.test
            if isinstance(t, ast.Compare) and len(t.ops) == 1 and isinstance(t.ops[0], ast.In):
                v = const_value(prog, f, t.comparators[0])
                if v is not TOP and all(isinstance(x, str) for x in v):
                    return list(v)
        p = par
    # dict dispatch: f is the handler stored under constant keys in a table {"size": self.__build_size, ...}; the dispatcher is
    # called as self.<table method>(K)(ARG, ...) with K = ARG[0], and inside f the name looked up is <first parameter>[0]
    if f.cls is not None and isinstance(a0, ast.Subscript) and isinstance(a0.value, ast.Name) and const_value(prog, f, a0.slice) == 0:
        own = [q for q in f.params[1:]]
        if own and a0.value.id == own[0]:
            for g in f.cls.methods.values():
                for d in walk_no_nested(g.node):
                    if not isinstance(d, ast.Dict):
                        continue
                    keys = [const_value(prog, g, k) for k, v in zip(d.keys, d.values)
                            if k is not None and isinstance(v, ast.Attribute) and v.attr == f.name]
                    if not keys or not all(isinstance(k, str) for k in keys):
                        continue
                    # f must not also be the fallback of the lookup
                    fallback = any(isinstance(c, ast.Call) and call_name(c) == "get" and len(c.args) == 2 and isinstance(c.args[1], ast.Attribute)
                                   and c.args[1].attr == f.name for c in walk_no_nested(g.node))
                    gparams = g.params[1:]
                    if fallback or len(gparams) != 1:
                        continue
                    ok_sites = 0
                    bad_sites = 0
                    for h in f.cls.methods.values():
                        for c in walk_no_nested(h.node):
                            if isinstance(c, ast.Call) and isinstance(c.func, ast.Call) and call_name(c.func) == g.name and c.func.args and c.args:
                                k_, arg0 = c.func.args[0], c.args[0]
                                kds = [k_]
                                if isinstance(k_, ast.Name):
                                    kds = [a.value for a in walk_no_nested(h.node) if isinstance(a, ast.Assign)
                                           and any(isinstance(t, ast.Name) and t.id == k_.id for t in a.targets)]

                                def from_first(e):
                                    # ARG[0] itself or a string method applied to it (the `not` prefix removed)
                                    while isinstance(e, ast.Call) and isinstance(e.func, ast.Attribute):
                                        e = e.func.value
                                    return isinstance(e, ast.Subscript) and norm(e.value) == norm(arg0) and const_value(prog, h, e.slice) == 0
                                if kds and all(from_first(e) for e in kds):
                                    ok_sites += 1
                                else:
                                    bad_sites += 1
                    if ok_sites and not bad_sites:
                        return list(keys)
    return None


def gate_functions(ctx, R):
    """who-may-read the registry: the three gates, RequireCommand.complete_cb, and the helpers of commands.py that only they call"""
    prog = ctx.program
    allowed = {R.lookup.qualname, R.check_next_arg.qualname, R.valid_value.qualname if R.valid_value else "", "RequireCommand.complete_cb"}
    grew = True
    while grew:
        grew = False
        for g in R.cmod.all_funcs():
            if g.qualname in allowed:
                continue
            callers = [f for f in prog.all_funcs() for c in walk_no_nested(f.node) if isinstance(c, ast.Call) and call_name(c) == g.name and f is not g]
            copied = g.qualname in (ctx.normalisation.get("helpers") or {})  # every call site holds a copy of its body
            if (callers and all(f.qualname in allowed for f in callers)) or (not callers and copied):
                allowed.add(g.qualname)
                grew = True
    return allowed


def _only_returns(f):
    """an accessor: apart from its docstring the function only returns a value (no store, no call statement, no branch with effects)"""
    body = [st for st in f.node.body if not (isinstance(st, ast.Expr) and isinstance(st.value, ast.Constant))]
    return bool(body) and all(isinstance(st, ast.Return) for st in body)


def registry_readers(ctx, R, allowed=None):
    """Who reads the process-global extension registry (shared with C11: what a loader returns must come from the parser it was given)."""
    prog = ctx.program
    if allowed is None:
        allowed = gate_functions(ctx, R)
    nread = 0
    for f in prog.all_funcs():
        for n_ in walk_no_nested(f.node):
            if isinstance(n_, ast.Attribute) and n_.attr == "loaded_extensions" and isinstance(n_.ctx, ast.Load):
                base = n_.value
                base_name = base.attr if isinstance(base, ast.Attribute) else (base.id if isinstance(base, ast.Name) else None)
                bc = prog.cls(base_name) if base_name else None
                if bc is None and not (isinstance(base, ast.Name) and base.id in ("cls",)):
                    # an attribute of some object that happens to carry the name: is it the registry?  Only when the object's
                    # class gives it that meaning (a property returning the registry is judged where it is defined).  When no other
                    # class of the package defines an attribute of that name, the object can only be a RequireCommand: reading the
                    # class attribute through an instance is reading the registry
                    others = [k for k in prog.all_classes() if k.name != "RequireCommand" and (
                        "loaded_extensions" in k.methods or "loaded_extensions" in k.attrs or any(
                            isinstance(x, ast.Attribute) and x.attr == "loaded_extensions" and isinstance(x.ctx, ast.Store) and isinstance(x.value, ast.Name)
                            and x.value.id == "self" for m_ in k.methods.values() for x in ast.walk(m_.node)))]
                    if others:
                        continue
                nread += 1
                if f.qualname in allowed or f is R.reset:
                    continue
                # a public accessor that nothing in the package uses (an inspection aid for callers): it cannot influence a parse, a
                # loader or the factory
                if not f.name.startswith("_") and f.cls is not None and _only_returns(f) and not any(
                        (isinstance(x, ast.Attribute) and x.attr == f.name and not (isinstance(x.value, ast.Name) and (
                            prog.cls(x.value.id) is not None or x.value.id == "cls")) and not (
                            isinstance(x.value, ast.Attribute) and prog.cls(x.value.attr) is not None))
                        for g in prog.all_funcs() if g is not f for x in ast.walk(g.node)):
                    ctx.notice("H4", "%s exposes the registry to callers; nothing in the package reads it" % f.qualname)
                    continue
                ctx.violation("H4", f, "registry-read:%s" % f.qualname, "%s reads the process-global extension registry: its result depends on which "
                              "script was parsed last, not on its own input" % f.qualname, node=n_,
                              witness="from_parser_result(P1) called after another parse returns the other script's requires")
    if nread:
        ctx.holds("H4", "registry read at %d places, all in the gates / complete_cb" % nread)
