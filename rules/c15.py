"""C15 - The client's view of the server stays correct over whole sessions.

Thin: only the request/reply *alternation* is shape.  K1 one reply read per
command sent, K2 one command per operation path, K3 socket/buffer ownership
(= M1 + M2 + W1), K4 a line is removed from the buffer before it is
interpreted.
"""
import ast

from sa import fd
from sa.model import AnalysisError, walk_no_nested, norm, mangle
from sa.util import self_calls, raise_name
from .roles import ClientRoles
from .c05 import m1, m2
from .c08 import w1
from .c10 import status_paths, connect_method, tls_method
from ref import ms_spec


def run(ctx):
    R = ClientRoles(ctx, "K")
    ctx.explanation = (
        "Request/reply alternation only: (K1) in the command sender every normal path performs its socket writes and "
        "then exactly one call of the response assembler, and the assembler is otherwise called only by the greeting / "
        "capability reader, itself called only from connect and the TLS upgrade; (K2) every public operation issues at "
        "most one command per path (the emulated rename and the SASL exchanges are sequences of complete exchanges); "
        "(K3) no other code touches the socket or the read buffer (M1, M2, W1); (K4) the line reader removes a line "
        "from the buffer before interpreting it, so an exception raised for that line leaves no half-consumed line. "
        "Together these exclude requests and replies getting out of step for every operation sequence.")
    ctx.not_decided = ("agreement of the reported state with a reference server's state, reply decoding (C17), anything that depends on "
                       "the server's behaviour over a history.")
    snd, asm, lin = R.sender, R.assembler, R.line_reader
    G = R.graph
    # what the client reports comes from this session only (A9 of C10): no container shared by all Client objects / all calls
    from .c10 import a9
    a9(ctx, R)

    # ---- K1 ---------------------------------------------------------------------
    ctx.rule("K1", "sender: writes, then exactly one assembler call on every normal path; assembler otherwise only via the capability reader")
    cfg = ctx.cfg(snd)
    acalls = self_calls(snd, asm.name)
    if len(acalls) != 1:
        ctx.violation("K1", snd, "assembler-calls:%d" % len(acalls), "the sender reads %d replies per command" % len(acalls), node=snd.node,
                      witness="every later reply is attributed to the wrong command")
    else:
        an = cfg.node_containing(acalls[0])
        if not an:
            raise AnalysisError("K1", "assembler call not in CFG")
        an = an[0]
        if not cfg.dominates([an], cfg.exit, exc=False):
            ctx.violation("K1", snd, "reply-not-read", "the sender has a normal path that returns without reading the reply", node=snd.node,
                          witness="the unread reply is taken as the answer to the next command")
        elif cfg.in_cycle(an, exc=False):
            ctx.violation("K1", snd, "reply-read-in-loop", "the sender may read more than one reply per command", node=acalls[0])
        else:
            ctx.holds("K1", "%s: exactly one reply read on every normal path" % snd.qualname)
        sends = [x for c in R.send_sites.get(snd.name, []) for x in cfg.node_containing(c)]
        if any(cfg.path_exists(an, s_, exc=False) for s_ in sends):
            ctx.violation("K1", snd, "send-after-read", "the sender can write to the socket after having read the reply", node=acalls[0])
        elif not sends or not all(cfg.path_exists(s_, an, exc=False) for s_ in sends):
            ctx.violation("K1", snd, "read-not-after-send", "a socket write of the sender is not followed by the reply read", node=acalls[0])
        else:
            ctx.holds("K1", "%s: all %d writes precede the reply read" % (snd.qualname, len(sends)))
    callers = G.callers(asm.name) - {asm.name}
    conn = connect_method(R, "K1")
    tls = tls_method(R, "K1")
    capreaders = callers - {snd.name}
    for c in sorted(capreaders):
        cc = G.callers(c)
        if cc and cc <= {conn.name, tls.name} and c.startswith("__") and len(self_calls(R.methods[c], asm.name)) == 1:
            ctx.holds("K1", "assembler also called by %s (greeting/capability reader, used only by %s)" % (c, sorted(cc)))
        else:
            ctx.violation("K1", R.methods[c], "stray-reply-read", "%s reads a reply without having sent a command (callers: %s)"
                          % (c, sorted(cc)), node=R.methods[c].node, witness="the reply of the next command is consumed here")
    # readers are called only by the assembler / error parser
    for rd in (lin, R.block_reader):
        allowed = {asm.name} | ({R.error_parser.name} if R.error_parser else set()) | {lin.name}
        # a private helper called only from there is part of the same reading step
        grew_ = True
        while grew_:
            grew_ = False
            for c_ in G.callers(rd.name) - allowed:
                cc_ = G.callers(c_) - {c_}
                if c_.startswith("_") and cc_ and cc_ <= allowed:
                    allowed.add(c_)
                    grew_ = True
        extra = G.callers(rd.name) - allowed
        if extra:
            for c in sorted(extra):
                ctx.violation("K1", R.methods[c], "reader-called-directly:%s" % rd.name, "%s reads from the connection outside a reply"
                              % c, node=R.methods[c].node)
        else:
            ctx.holds("K1", "%s called only from %s" % (rd.name, sorted(G.callers(rd.name))))

    # ---- K2 ---------------------------------------------------------------------
    ctx.rule("K2", "each public operation: at most one command per path")
    n = 0
    for op in ms_spec.OPERATION_VERB:
        f = R.methods.get(op)
        if f is None:
            continue
        n += 1
        try:
            paths = status_paths(ctx, R, f)
        except fd.TooManyPaths:
            raise AnalysisError("K2", "path explosion in %s" % f.qualname)
        mx = max((len(p["codes"]) for p in paths), default=0)
        if mx > 1:
            ctx.violation("K2", f, "several-commands", "%s can send %d commands in one call" % (f.qualname, mx), node=f.node)
        else:
            ctx.holds("K2", "%s: <= 1 command on each of %d paths" % (f.qualname, len(paths)))
    ctx.need("K2", "public operations", n, 9)

    # ---- K3 ---------------------------------------------------------------------
    ctx.rule("M1", "who-may-call recv = the two readers")
    ctx.rule("M2", "who-may-touch the read buffer = the two readers (+ resets where the socket is replaced)")
    ctx.rule("W1", "who-may-call sendall = the sender")
    # "the server in turn only ever receives well-formed commands": the encoding rules of C08 (W1-W4, W6, W7), without its verb table
    from .c08 import wire_rules
    wire_rules(ctx, R, verbs=False)

    # the reply readers, the reply decoders and the status/error parser are this property's mechanism too ("reply reader and buffer",
    # "listing / script / capability decoding"): a desynchronisation introduced there shows up only later in a session
    from .c05 import reader_rules
    from .c17 import decoder_rules
    from .c09 import q34
    for rid, txt in (("M3", "block reader reads exactly the announced size"), ("M4", "line reader: delimiter discipline"),
                     ("M5", "literal sizes unchanged"), ("M6", "recv chunks used only segmentation-independently")):
        ctx.rule(rid, txt)
    reader_rules(ctx, R)
    decoder_rules(ctx, R)
    q34(ctx, R)
    # the emulated rename is a sequence of exchanges whose outcome must equal the server's state (no overwrite, no loss)
    from .c14 import rename_rules
    rename_rules(ctx, R)
    # a new connection starts in step: nothing of the previous one is left in the buffer or the capability table (A8 of C10)
    from .c10 import a8
    a8(ctx, R)

    # ---- K4 ---------------------------------------------------------------------
    ctx.rule("K4", "line reader: every raise that interprets a line is dominated by the removal of that line from the buffer")
    if getattr(ctx, "_m7_ok", False):
        # replies delivered back to back were read in step under every segmentation (M7): a line interpreted twice would show there
        prev_k4 = ctx.demote(("K4",), "the evaluation of the readers over back-to-back replies (M7)")
        try:
            _k4(ctx, R, lin)
        except AnalysisError as e:
            ctx.notice("K4", "idiom not recognised (%s); decided by M7" % e.why)
        finally:
            ctx.restore(prev_k4)
        return
    _k4(ctx, R, lin)


def _k4(ctx, R, lin):
    cfgl = ctx.cfg(lin)

    def is_buf(e):
        return isinstance(e, ast.Attribute) and mangle(R.cls.name, e.attr) == R.buffer_attr

    def is_consume(st):
        if isinstance(st, ast.Delete):  # del buffer[:n]
            return any(isinstance(t, ast.Subscript) and is_buf(t.value) and isinstance(t.slice, ast.Slice) and t.slice.lower is None
                       and t.slice.upper is not None for t in st.targets)
        if part is not None and isinstance(st, ast.Assign) and any(is_buf(t) for t in st.targets) and isinstance(st.value, ast.Name) \
                and st.value.id == part[3]:
            return True  # head, sep, rest = buffer.partition(CRLF) ... buffer = rest
        return isinstance(st, ast.Assign) and any(is_buf(t) for t in st.targets) and any(is_buf(x) for x in ast.walk(st.value))

    from .c05 import partition_idiom
    part = partition_idiom(ctx, R, lin)

    # the variable the protocol patterns are applied to
    interp = set()
    by_kind = {}
    for c in walk_no_nested(lin.node):
        if isinstance(c, ast.Call) and isinstance(c.func, ast.Attribute) and c.func.attr in ("match", "search") \
                and R.pattern_of(c.func.value, lin) and c.args and isinstance(c.args[0], ast.Name):
            from .c09 import proto_kind
            kind = proto_kind(R.pattern_of(c.func.value, lin)[1])
            if kind in ("size", "status"):
                interp.add(c.args[0].id)  # the line itself (the tail of a NO reply, decoded in place, is a part of it)
                by_kind.setdefault(kind, set()).add(c.args[0].id)
    if len(interp) != 1 and len(by_kind.get("status", ())) == 1:
        # the size pattern is also applied to a named part of the status text: the line is what the status pattern reads
        interp = set(by_kind["status"])
    if len(interp) != 1:
        raise AnalysisError("K4", "line reader: interpreted variable not identified (%s)" % sorted(interp))
    v = next(iter(interp))
    # the line may reach that variable through plain copies (`ret = line`): the copies' sources are interpreted variables too
    vs = {v}
    grew = True
    while grew:
        grew = False
        for st in walk_no_nested(lin.node):
            if isinstance(st, ast.Assign) and isinstance(st.value, ast.Name) and st.value.id not in vs \
                    and any(isinstance(t, ast.Name) and t.id in vs for t in st.targets):
                vs.add(st.value.id)
                grew = True
    k = 0
    for st in walk_no_nested(lin.node):
        if isinstance(st, ast.Assign) and any(isinstance(t, ast.Name) and t.id in vs for t in st.targets):
            if isinstance(st.value, ast.Name) and st.value.id in vs and not (part is not None and st.value.id == part[1]):
                continue  # a copy
            k += 1
            if isinstance(st.value, ast.Constant) and st.value.value in (b"", "", None):
                ctx.holds("K4", "%s: %s (nothing to interpret)" % (lin.qualname, norm(st)))
                continue
            if not any(is_buf(x) for x in ast.walk(st.value)) and not (part is not None and isinstance(st.value, ast.Name) and st.value.id == part[1]):
                ctx.violation("K4", lin, "line-not-from-buffer", "the interpreted line is not taken from the read buffer: %s" % norm(st), node=st)
                continue
            blk = st._parent
            body = None
            for fld in ("body", "orelse", "finalbody"):
                b = getattr(blk, fld, None)
                if isinstance(b, list) and st in b:
                    body = b
            rest = body[body.index(st) + 1:] if body else []
            ok = False
            for nx in rest:
                if is_consume(nx):
                    ok = True
                    break
                if isinstance(nx, (ast.Return, ast.Raise, ast.Break, ast.Continue, ast.If, ast.While, ast.For, ast.Try)):
                    break
            if ok:
                ctx.holds("K4", "%s: %s is followed by the removal of the line from the buffer" % (lin.qualname, norm(st)))
            else:
                ctx.violation("K4", lin, "interpreted-before-consumed", "a line is taken from the buffer for interpretation without being "
                              "removed from it: the same line is read again by the next command", node=st)
    ctx.need("K4", "definitions of the interpreted line", k, 2)
