"""C08 - Each client call puts exactly one well-formed command on the wire.

W1 sendall ownership, W2 escaping in the quoting branch, W3 literal exemption
by provenance, W4 literal template, W5 verb table / one command per call /
numbers unquoted, W6 CR LF NUL never inside a quoted string.
"""
import ast

from sa import fd
from sa.model import AnalysisError, walk_no_nested, norm, mangle, call_name, stmt_of
from sa.util import (self_calls, attr_calls, fact_atom, const_value, bound_arg, cmp_parts, contains)
from sa.consteval import TOP
from .roles import ClientRoles
from .c10 import sender_sites, mechanisms, status_paths
from ref import ms_spec


def run(ctx):
    R = ClientRoles(ctx, "W")
    ctx.explanation = (
        "(W1) sendall is called only by the command sender; (W2) in the argument formatter every branch that wraps a "
        "bytes value in double quotes first escapes backslash, then double quote; (W3) a value is emitted unquoted as "
        "a literal only under an isinstance test against a marker type that only the literal builder constructs - "
        "never because its text matches a pattern; (W4) the literal template announces len() of the very bytes object "
        "that follows, in non-synchronising form, separated by CRLF; (W5) each public operation sends exactly the "
        "RFC 5804 verb assigned to it, as a constant, at most once per path, names reach the formatter as "
        "`.encode('utf-8')` bytes and numbers as int (emitted unquoted); raw channels (verb, extra lines) carry only "
        "constants or base64 material; (W6) the quoting branch is reached only after CR, LF and NUL were excluded "
        "(such values take the literal branch or are refused).")
    ctx.not_decided = "that a strict server-side parser decodes the bytes to the caller's values for all unicode inputs (behavioural)."
    wire_rules(ctx, R)


def wire_rules(ctx, R, verbs=True):
    """W1-W7.  With verbs=False the per-operation verb table (W5) is left out: C14 / C15 share the encoding rules (what reaches the server
    is what the caller passed), not the operation table."""
    # ---- W8: nothing on the formatting path answers from a cache keyed by value equality --------------------------------
    ctx.rule("W8", "the wire form of an argument is computed from the argument each time (no memoisation keyed by ==)")
    memo = []
    for f in R.module.all_funcs():
        decs = " ".join(f.decorators)
        if "lru_cache" in decs or "functools.cache" in decs or decs.strip() in ("cache",):
            memo.append(f)
    for f in memo:
        marker = [c for c in walk_no_nested(f.node) if isinstance(c, ast.Call) and call_name(c) == "isinstance" and len(c.args) == 2
                  and any(isinstance(x, ast.Name) and ctx.program.cls(x.id) is not None for x in ast.walk(c.args[1]))]
        if marker:
            ctx.violation("W8", f, "memoised-by-equality", "%s is memoised (%s) but its result depends on the TYPE of its argument (%s): a prepared "
                          "literal and a plain name made of the same bytes compare equal and share one cache entry" % (
                              f.qualname, ", ".join(f.decorators), norm(marker[0])[:50]), node=f.node,
                          witness="checkscript('abc') then deletescript('{3+}\\r\\nabc') sends DELETESCRIPT {3+}<CRLF>abc: the server deletes `abc`")
        else:
            ctx.notice("W8", "%s is memoised; its result depends on the value of its arguments only" % f.qualname)
    if not memo:
        ctx.holds("W8", "no memoised function in %s" % R.module.relpath)
    # what one call (one client) sends must not depend on the calls before it: no mutable default shared by all calls (SD1)
    from .shared_default import shared_defaults
    shared_defaults(ctx, {"managesieve", "digest_md5"})
    fmt = R.formatter
    if fmt is None:
        raise AnalysisError("W", "argument formatter not identified (method called by the sender that loops over the arguments)")
    snd = R.sender

    args_param = w1(ctx, R)

    # ---- formatter anatomy -------------------------------------------------------
    cfg = ctx.cfg(fmt)
    loops = [x for x in walk_no_nested(fmt.node) if isinstance(x, ast.For)]
    if len(loops) != 1 or not isinstance(loops[0].target, ast.Name):
        raise AnalysisError("W2", "formatter loop shape not recognised")
    var = loops[0].target.id
    ctx.rule("W7", "the formatter iterates the caller's argument list itself and emits exactly one element per argument")
    own_f = fmt.params if "staticmethod" in fmt.decorators else fmt.params[1:]
    fparam = own_f[0] if own_f else None
    if isinstance(loops[0].iter, ast.Name) and loops[0].iter.id == fparam and not any(
            isinstance(a, (ast.Assign, ast.AugAssign)) and fparam in {norm(t) for t in (a.targets if isinstance(a, ast.Assign) else [a.target])}
            for a in walk_no_nested(fmt.node)):
        ctx.holds("W7", "%s iterates `%s` directly" % (fmt.qualname, fparam))
    else:
        ctx.violation("W7", fmt, "args-filtered", "the formatter does not iterate the caller's argument list itself but %s: arguments can be "
                      "dropped, reordered or duplicated" % norm(loops[0].iter), node=loops[0],
                      witness='setactive("") sends `SETACTIVE` without its (empty) argument; havespace(name, 0) loses the size')
    emits = []  # (stmt, element expr)
    for st in walk_no_nested(loops[0]):
        if isinstance(st, ast.AugAssign) and isinstance(st.op, ast.Add) and isinstance(st.value, ast.List):
            for el in st.value.elts:
                emits.append((st, el))
        elif isinstance(st, ast.Expr) and isinstance(st.value, ast.Call) and isinstance(st.value.func, ast.Attribute) \
                and st.value.func.attr == "append" and st.value.args:
            emits.append((st, st.value.args[0]))
    # an element emitted through a local that each branch sets (`item = <form>` ... `ret.append(item)`): one emission per definition,
    # judged where the definition stands
    expanded = []
    sinks = []
    direct = []
    for st, el in emits:
        if isinstance(el, ast.Name) and el.id != var:
            defs = [d for d in walk_no_nested(loops[0]) if isinstance(d, ast.Assign) and len(d.targets) == 1 and isinstance(d.targets[0], ast.Name)
                    and d.targets[0].id == el.id]
            if defs:
                expanded.extend((d, d.value) for d in defs)
                sinks.append(st)
                continue
        expanded.append((st, el))
        direct.append(st)
    emits = expanded
    if len(emits) < 3:
        raise AnalysisError("W2", "formatter: fewer than 3 emission sites recognised")

    def reaching_value(st):
        """If `var` was re-bound in the same block just before st (a = escape(a)), return that expression chain."""
        chain = []
        blk = st._parent
        body = getattr(blk, "body", [])
        for fld in ("body", "orelse"):
            b = getattr(blk, fld, [])
            if st in b:
                body = b
        i = body.index(st) if st in body else 0
        for prev in reversed(body[:i]):
            if isinstance(prev, ast.Assign) and any(isinstance(t, ast.Name) and t.id == var for t in prev.targets):
                chain.append(prev.value)
        return chain

    where = {}  # id(inner expr) -> (function it belongs to, name of the value in that function)

    def classify(el, st, func=None, v=None, depth=0):
        """raw / quoted(inner) / literal / number / other"""
        func = func or fmt
        v = v or var
        if isinstance(el, ast.Name) and el.id == v:
            return ("raw", None)
        # b'"' + X + b'"'
        parts = flatten_add(el)
        if len(parts) == 3 and is_const(ctx, func, parts[0], b'"') and is_const(ctx, func, parts[2], b'"'):
            where[id(parts[1])] = (func, v)
            return ("quoted", parts[1])
        # a quoting helper: f(<value>) whose body is `return <expression of its parameter>`
        if isinstance(el, ast.Call) and len(el.args) == 1 and not el.keywords and isinstance(el.args[0], ast.Name) and el.args[0].id == v and depth < 2:
            g = resolve_helper(ctx, func, el)
            if g is not None:
                gp = [x for x in g.params if not (g.cls is not None and x == g.params[0])]
                rets_ = [r for r in walk_no_nested(g.node) if isinstance(r, ast.Return) and r.value is not None]
                if len(gp) >= 1 and len(rets_) == 1:
                    return classify(rets_[0].value, rets_[0], g, gp[0], depth + 1)
        if isinstance(el, ast.Call) and isinstance(el.func, ast.Name) and ctx.program.cls(el.func.id) is not None and len(el.args) == 1 \
                and not el.keywords and "bytes" in ctx.program.cls(el.func.id).base_names:
            # the marker type built around an inline literal: judged as the literal it wraps (rule W4)
            return classify(el.args[0], st, func, v, depth + 1)
        if isinstance(el, ast.BinOp) and isinstance(el.op, ast.Mod) and isinstance(el.left, ast.Constant) \
                and isinstance(el.left.value, bytes):
            if el.left.value == b'"%s"':
                where[id(el.right)] = (func, v)
                return ("quoted", el.right)
            if el.left.value.startswith(b"{"):
                return ("literal", el)
        if any(isinstance(x, ast.Call) and call_name(x) == "str" for x in ast.walk(el)):
            return ("number", el)
        return ("other", el)

    # ---- W10: the formatter over sample values, read back as a server reads them
    ctx.rule("W10", "what a server reads from each formatted argument is the argument (quotes, backslashes, CR/LF/NUL, numbers)")
    fev = format_eval(ctx, R)
    if fev is not None and fev[0] == "bad":
        ctx.violation("W10", fmt, "model:formatter", fev[1], node=fmt.node,
                      witness="the server executes the command on another name than the caller's, or reads two commands")
    elif fev is not None:
        ctx.holds("W10", "%s: %d sample values are read back unchanged from their wire form" % (fmt.qualname, fev[1]))
    else:
        ctx.notice("W10", "the interpreter cannot follow %s on the sample values; W2 / W6 decide by the shape of the branches" % fmt.qualname)
    _prev_w = ctx.demote(["W2", "W6"], "the evaluation of the formatter (W10)") if fev is not None and fev[0] == "ok" else None
    # ---- W2 / W3 / W6 -------------------------------------------------------------
    ctx.rule("W2", "every quoting branch escapes backslash first, then double quote")
    ctx.rule("W3", "unquoted pass-through only under isinstance(<marker type built only by the literal builder>)")
    ctx.rule("W6", "the quoting branch excludes CR, LF and NUL (literal or refusal instead)")
    nq = 0
    for st, el in emits:
        kind, inner = classify(el, st)
        nodes = cfg.nodes_for(st)
        if kind == "quoted":
            nq += 1
            ifunc, ivar = where.get(id(inner), (fmt, var))
            if ifunc is fmt and isinstance(inner, ast.Name) and inner.id != var:
                # the escaped value sits in a local of its own (`escaped = a.replace(...)`; `b'"' + escaped + b'"'`)
                from .c06 import _local_def
                d_ = _local_def(st, inner.id)
                if d_ is not None:
                    inner = d_
            exprs = [inner] + (reaching_value(st) if ifunc is fmt and isinstance(inner, ast.Name) and inner.id == var else [])
            esc = escaper_order(ctx, ifunc, exprs, ivar)
            if esc is True:
                ctx.holds("W2", "%s: %s" % (fmt.qualname, norm(el)))
            else:
                ctx.violation("W2", fmt, "quoted-unescaped", "a bytes argument is wrapped in double quotes %s" % esc, node=st,
                              witness='deletescript(\'a"b\') writes DELETESCRIPT "a"b" - not a well-formed command')
            # W6
            missing = []
            for ch, nm in ((b"\r", "CR"), (b"\n", "LF"), (b"\0", "NUL")):
                def absent(fact, ch=ch):
                    e, pol = fact_atom(fact)
                    cp = cmp_parts(e)
                    if cp and cp[1] in ("In", "NotIn") and isinstance(cp[2], ast.Name) and cp[2].id == var:
                        v = const_value(ctx.program, fmt, cp[0])
                        if v == ch:
                            return pol is (cp[1] == "NotIn")
                    # set forms: <constant set of byte values>.isdisjoint(value) (a bytes value is a sequence of ints: only a set
                    # holding the byte's NUMBER says anything about it)
                    if isinstance(e, ast.Call) and isinstance(e.func, ast.Attribute) and e.func.attr == "isdisjoint" and len(e.args) == 1 \
                            and isinstance(e.args[0], ast.Name) and e.args[0].id == var:
                        sv = const_value(ctx.program, fmt, e.func.value)
                        if isinstance(sv, (set, frozenset, bytes, tuple, list)) and ch[0] in (sv if not isinstance(sv, bytes) else list(sv)):
                            return pol is True
                    # regex / any() forms
                    if isinstance(e, ast.Call) and call_name(e) in ("search", "match", "findall"):
                        pats = list(e.args)
                        rc = e.func.value if isinstance(e.func, ast.Attribute) else None
                        if isinstance(rc, ast.Call) and call_name(rc) == "compile" and rc.args:
                            pats.append(rc.args[0])  # a pattern compiled in place (module constants are put back where they are read)
                        for a_ in pats:
                            v = const_value(ctx.program, fmt, a_)
                            if isinstance(v, bytes) and ch.decode("latin-1") in rx_chars(v) and call_name(e) == "search":
                                return pol is False
                    return False
                if not all(cfg.guarded(nd, absent) for nd in nodes):
                    missing.append(nm)
            if missing:
                ctx.violation("W6", fmt, "quoted-with-control-chars", "the quoting branch can be reached with a value containing %s"
                              % "/".join(missing), node=st,
                              witness="deletescript('a\\r\\nLOGOUT') writes two commands")
            else:
                ctx.holds("W6", "%s: quoting branch excludes CR, LF, NUL" % fmt.qualname)
        elif kind == "raw":
            def marker(fact):
                e, pol = fact_atom(fact)
                if pol is True and isinstance(e, ast.Call) and call_name(e) == "isinstance" and len(e.args) == 2 \
                        and isinstance(e.args[0], ast.Name) and e.args[0].id == var:
                    t = e.args[1]
                    names = [x.id for x in (t.elts if isinstance(t, ast.Tuple) else [t]) if isinstance(x, ast.Name)]
                    return bool(names) and all(ctx.program.cls(nm) is not None for nm in names)
                return False
            if all(cfg.guarded(nd, marker) for nd in nodes):
                # who constructs the marker type
                mk = set()
                for nd in nodes:
                    pass
                types = set()
                for fct in cfg.facts(marker):
                    e, _ = fact_atom(fct)
                    t = e.args[1]
                    types |= {x.id for x in (t.elts if isinstance(t, ast.Tuple) else [t]) if isinstance(x, ast.Name)}
                bad = []
                for tname in types:
                    for g in ctx.program.all_funcs():
                        for c in walk_no_nested(g.node):
                            if isinstance(c, ast.Call) and call_name(c) == tname:
                                if R.literal_builder is None or g is not R.literal_builder:
                                    # elsewhere: fine as long as what is wrapped is itself a well-formed literal {len(X)+} CRLF X
                                    shape_ok = len(c.args) == 1 and isinstance(c.args[0], ast.BinOp) and isinstance(c.args[0].op, ast.Mod) \
                                        and isinstance(c.args[0].right, ast.Tuple) and len(c.args[0].right.elts) == 3 \
                                        and isinstance(c.args[0].right.elts[2], ast.Name) \
                                        and literal_template_ok(ctx, g, c.args[0], want_var=c.args[0].right.elts[2].id) is True
                                    if not shape_ok:
                                        bad.append((g, c))
                if bad:
                    g, c = bad[0]
                    ctx.violation("W3", g, "marker-built-elsewhere", "the literal marker type is constructed outside the literal builder: %s"
                                  % norm(c)[:60], node=c)
                else:
                    ctx.holds("W3", "%s: pass-through only for %s built by the literal builder" % (fmt.qualname, sorted(types)))
            else:
                ctx.violation("W3", fmt, "literal-by-content", "a value is sent unquoted without a provenance test (e.g. because its text "
                              "matches the size pattern)", node=st,
                              witness="deletescript('{5}') writes DELETESCRIPT {5} - the server waits for a 5-octet literal")
        elif kind == "literal":
            ok = literal_template_ok(ctx, fmt, inner, want_var=var)
            if ok is True:
                ctx.holds("W4", "%s: inline literal %s" % (fmt.qualname, norm(inner)[:60]))
            else:
                ctx.violation("W4", fmt, "inline-literal-template", "inline literal is malformed: %s" % ok, node=st)
        elif kind == "number":
            ctx.holds("W5", "%s: non-bytes arguments are emitted as str(a) unquoted" % fmt.qualname)
        else:
            raise AnalysisError("W2", "formatter emission %s not recognised" % norm(el))
    ctx.need("W2", "quoting branches", nq, 1)
    if _prev_w is not None:
        ctx.restore(_prev_w)
    # exactly one emission per iteration
    head = [n for n in cfg.nodes_for(loops[0]) if n.kind == "loop"][0]
    enodes = [x for st in sinks + direct for x in cfg.nodes_for(st)]
    body_entry = [m for m, _ in head.succ if m.kind == "fact" and m.info == "for-next"]
    # an argument that IS None may be left out (an optional argument the caller has nothing to put in): the way round the emission
    # sites that starts at a true `<var> is None` test is not a lost argument
    def none_fact(fc):
        e, pol = fact_atom(fc)
        cp = cmp_parts(e)
        return bool(cp and isinstance(cp[0], ast.Name) and cp[0].id == var and isinstance(cp[2], ast.Constant) and cp[2].value is None
                    and ((cp[1] == "Is" and pol is True) or (cp[1] == "IsNot" and pol is False)))
    none_skips = cfg.facts(none_fact)
    skip = head in cfg.reach(body_entry, avoid=enodes + none_skips, exc=False)
    ctx.extra["formatter_skips_none"] = bool(none_skips)
    twice = any(any(e2 in cfg.reach([m for m, _ in e1.succ], avoid=[head], exc=False) for e2 in enodes) for e1 in enodes)
    if skip:
        ctx.violation("W7", fmt, "argument-skipped", "an iteration of the formatter can end without emitting anything: that argument vanishes "
                      "from the command", node=loops[0], witness="a falsy / unexpected argument value is silently dropped")
    elif twice:
        ctx.violation("W7", fmt, "argument-duplicated", "an iteration of the formatter can emit two elements for one argument", node=loops[0])
    else:
        ctx.holds("W7", "every iteration emits exactly one element (%d emission sites)" % len(emits))
    # the result list is returned unmodified
    rets = [r for r in walk_no_nested(fmt.node) if isinstance(r, ast.Return) and r.value is not None]
    acc = {norm(st.target) for st, _ in emits if isinstance(st, ast.AugAssign)} | {norm(st.value.func.value) for st, _ in emits if isinstance(st, ast.Expr)} \
        | {norm(st.value.func.value) for st in sinks if isinstance(st, ast.Expr)} | {norm(st.target) for st in sinks if isinstance(st, ast.AugAssign)}
    if rets and all(isinstance(r.value, ast.Name) and r.value.id in acc for r in rets):
        ctx.holds("W7", "the accumulated list is returned as is")
    else:
        ctx.violation("W7", fmt, "result-altered", "the formatter does not return the accumulated list as is: %s" % (norm(rets[0].value) if rets else "nothing"),
                      node=rets[0] if rets else fmt.node)
    # every bytes value is emitted by exactly one branch: emission statements are mutually exclusive per iteration
    # (each is followed by continue or is the last statement)

    # ---- W4 literal builder --------------------------------------------------------
    ctx.rule("W4", "literal builder: {len(X)+} CRLF X with X = content.encode('utf-8')")
    lb = R.literal_builder
    if lb is None:
        raise AnalysisError("W4", "literal builder not identified")
    rets = [r for r in walk_no_nested(lb.node) if isinstance(r, ast.Return) and r.value is not None]
    if not rets:
        raise AnalysisError("W4", "literal builder returns nothing")
    lev = literal_eval(ctx, R, lb, strict=verbs)
    if lev is not None and lev[0] == "bad":
        ctx.violation("W4", lb, "model:literal", lev[1], node=lb.node, witness=lev[2])
        rets = []
    elif lev is not None:
        ctx.holds("W4", "%s: for %d sample contents (empty, non-ASCII, LF / CRLF / CR / blank lines, quotes, a `{3+}` look-alike) the result is "
                  "{n+} CRLF data with n = len(data) and data = the content's UTF-8 bytes%s" % (
                      lb.qualname, lev[1], "" if verbs else " (line endings aside)"))
        rets = []
    for r in rets:
        v = r.value
        if isinstance(v, ast.Call) and ctx.program.cls(call_name(v) or "") is not None and v.args:
            v = v.args[0]
        ok = literal_template_ok(ctx, lb, v)
        if ok is True:
            ctx.holds("W4", "%s: %s" % (lb.qualname, norm(v)))
        else:
            ctx.violation("W4", lb, "literal-template", "the literal builder's result is malformed: %s" % ok, node=r,
                          witness="putscript('x', 'é') announces a length different from the number of octets sent")

    if not verbs:
        return
    # ---- W5 verb table ----------------------------------------------------------------
    ctx.rule("W5", "each public operation sends exactly its RFC 5804 verb (constant), at most one command per path; names as "
                   "encoded bytes, numbers as int; raw channels carry only constants or base64")
    sites = sender_sites(ctx, R)
    mech = mechanisms(R)
    by_method = {}
    for f, c, verb in sites:
        by_method.setdefault(f.name, []).append((c, verb))
    nops = 0
    for op, verb in ms_spec.OPERATION_VERB.items():
        f = R.methods.get(op)
        if f is None:
            continue
        nops += 1
        vs = [v for _, v in by_method.get(op, [])]
        if vs and all(v == verb for v in vs):
            ctx.holds("W5", "%s sends %s" % (f.qualname, verb))
        elif not vs:
            ctx.violation("W5", f, "no-verb", "%s sends no command" % f.qualname, node=f.node)
        else:
            ctx.violation("W5", f, "wrong-verb", "%s sends %s instead of %s" % (f.qualname, sorted(set(map(str, vs))), verb),
                          node=by_method[op][0][0], witness="the server executes another command than the caller asked for")
        # at most one command per path
        try:
            paths = status_paths(ctx, R, f)
        except fd.TooManyPaths:
            raise AnalysisError("W5", "path explosion in %s" % f.qualname)
        mx = max((len(p["codes"]) for p in paths), default=0)
        if mx > 1:
            ctx.violation("W5", f, "several-commands", "%s can send %d commands in one call" % (f.qualname, mx), node=f.node)
        else:
            ctx.holds("W5", "%s: at most one command per path (%d paths)" % (f.qualname, len(paths)))
    ctx.need("W5", "public operations", nops, 9)
    # argument provenance at every sender site
    for f, c, verb in sites:
        a = bound_arg(c, snd, args_param) if args_param else None
        if isinstance(a, ast.Constant) and a.value is None:
            a = None  # the default, passed explicitly
        if a is not None:
            elts = a.elts if isinstance(a, ast.List) else (_list_elements(f, a) if isinstance(a, ast.Name) else None)
            if elts is None:
                ctx.violation("W5", f, "args-not-list:%s" % verb, "arguments of %s are not a literal list" % verb, node=c)
            else:
                for el in elts:
                    k = arg_kind(ctx, R, f, el)
                    if k is None and isinstance(el, ast.Constant) and el.value is None and ctx.extra.get("formatter_skips_none"):
                        k = "absent optional argument (the formatter leaves None out)"
                    if k is None:
                        ctx.violation("W5", f, "arg-form:%s:%s" % (verb, norm(el)), "argument %s of %s is neither encoded text, a built "
                                      "literal, an int parameter nor constant/base64 bytes" % (norm(el), verb), node=el)
                    else:
                        ctx.holds("W5", "%s %s arg %s: %s" % (f.qualname, verb, norm(el)[:40], k))
        # raw channels
        ex = bound_arg(c, snd, "extralines")
        if isinstance(ex, ast.Constant) and ex.value is None:
            ex = None  # the default, passed explicitly
        if ex is not None:
            vals = [ex]
            if isinstance(ex, ast.Name):
                vals = [d.value for d in walk_no_nested(f.node) if isinstance(d, ast.Assign)
                        and any(isinstance(t, ast.Name) and t.id == ex.id for t in d.targets)]
            for v in vals:
                els = v.elts if isinstance(v, ast.List) else [v]
                for el in els:
                    if f.name in mech and is_quoted_b64(el):
                        ctx.holds("W5", "%s extra line %s: quoted base64" % (f.qualname, norm(el)[:50]))
                    else:
                        ctx.violation("W5", f, "raw-extraline:%s" % norm(el)[:40], "an extra line is sent raw and is not quoted base64: %s"
                                      % norm(el), node=el)
        if verb is None:
            na = bound_arg(c, snd, snd.params[1])
            if isinstance(na, ast.Name):
                # the line built in a local just before
                ds = [d for d in walk_no_nested(f.node) if isinstance(d, ast.Assign) and len(d.targets) == 1 and isinstance(d.targets[0], ast.Name)
                      and d.targets[0].id == na.id]
                if ds and all(is_quoted_b64(d.value) for d in ds):
                    na = ds[0].value
            if f.name in mech and na is not None and (is_quoted_b64(na) or const_value(ctx.program, f, na) is not TOP):
                ctx.holds("W5", "%s continuation line %s" % (f.qualname, norm(na)[:50]))
            else:
                ctx.violation("W5", f, "dynamic-verb", "a non-constant command name is sent raw: %s" % norm(c)[:70], node=c)
    ctx.extra["sender_sites"] = len(sites)


def w1(ctx, R):
    fmt, snd = R.formatter, R.sender
    # the bytes the sender writes, evaluated first: when it was followed for every flag setting, the rules below that describe ONE way
    # of assembling the line (nothing between formatter and write, the argument list used nowhere else) are recorded, not reported;
    # who may write to the socket, CRLF termination and the write buffer's lifetime are reported as ever
    st9 = w9(ctx, R, fmt, snd)
    prev = ctx.demote(("W1",), "the evaluation of the sender (W9)", keep_keys=("foreign-send", "stale-write-buffer")) if st9 == "ok" else None
    try:
        return _w1(ctx, R)
    finally:
        if prev is not None:
            ctx.restore(prev)


def _w1(ctx, R):
    fmt, snd = R.formatter, R.sender
    # ---- W1 ----------------------------------------------------------------------
    ctx.rule("W1", "who-may-call sendall/send on the socket = the command sender")
    ctl = ast.parse("def f(self):\n    self.sock.sendall(b'x')\n").body[0]
    if not attr_calls(ctl, "sendall"):
        raise AnalysisError("W1", "positive control failed")
    n = 0
    for name, cs in R.send_sites.items():
        for c in cs:
            n += 1
            if name == snd.name:
                ctx.holds("W1", "%s: %s" % (snd.qualname, norm(c)[:60]))
            else:
                ctx.violation("W1", R.methods[name], "foreign-send", "bytes are written to the socket outside the command sender",
                              node=c, witness="this write bypasses quoting and the one-command-one-reply discipline")
    for f, c in R.foreign_send:
        ctx.violation("W1", f, "foreign-send", "socket write outside the Client command sender", node=c)
    ctx.need("W1", "send sites", n, 1)
    # what the sender writes: tosend (verb + formatted args) and extra lines, each + CRLF - directly, or collected in an accumulator
    def line(e):
        return isinstance(e, ast.BinOp) and isinstance(e.op, ast.Add) and const_value(ctx.program, snd, e.right) == b"\r\n"
    cfgs = None
    for c in R.send_sites.get(snd.name, []):
        a = c.args[0] if c.args else None
        if line(a):
            continue
        if isinstance(a, ast.Call) and isinstance(a.func, ast.Name) and a.func.id in ("bytes", "bytearray", "memoryview") and len(a.args) == 1:
            a = a.args[0]  # a copy / view of the accumulator
        if isinstance(a, ast.Name) or (isinstance(a, ast.Attribute) and isinstance(a.value, ast.Name) and a.value.id == snd.params[0]):
            t = norm(a)
            # a local that IS an attribute of the client (`out = self.__write_buffer`, a bytearray filled in place): the object outlives
            # the call - its lifetime rule below applies whatever the shape of the pieces
            alias_of = None
            if isinstance(a, ast.Name):
                ds_ = [x for x in walk_no_nested(snd.node) if isinstance(x, ast.Assign) and any(isinstance(tg, ast.Name) and tg.id == a.id for tg in x.targets)]
                if len(ds_) == 1 and isinstance(ds_[0].value, ast.Attribute) and isinstance(ds_[0].value.value, ast.Name) \
                        and ds_[0].value.value.id == snd.params[0]:
                    alias_of = ds_[0]
            if alias_of is not None:
                tt = norm(alias_of.value)

                def empties_alias(x):
                    if isinstance(x, ast.Expr) and isinstance(x.value, ast.Call) and isinstance(x.value.func, ast.Attribute) \
                            and x.value.func.attr == "clear" and norm(x.value.func.value) in (t, tt):
                        return True
                    if isinstance(x, ast.Delete):
                        return any(isinstance(tg, ast.Subscript) and norm(tg.value) in (t, tt) and isinstance(tg.slice, ast.Slice)
                                   and tg.slice.lower is None and tg.slice.upper is None for tg in x.targets)
                    return False
                cfgs = cfgs or ctx.cfg(snd)
                fills = [x for x in walk_no_nested(snd.node) if isinstance(x, ast.AugAssign) and norm(x.target) in (t, tt)]
                clears = [x for x in walk_no_nested(snd.node) if empties_alias(x)]
                cn_ = [n_ for x in clears for n_ in cfgs.nodes_for(x)]
                before = bool(clears) and all(cfgs.dominates(cn_, n_, exc=False) for x in fills for n_ in cfgs.nodes_for(x))
                in_fin = any(isinstance(tr_, ast.Try) and any(contains(b_, c) for b_ in tr_.body) and any(empties_alias(x) for x in tr_.finalbody)
                             for tr_ in walk_no_nested(snd.node))
                if before or in_fin:
                    ctx.holds("W1", "%s: the client's accumulator %s (local name %s) is emptied %s" % (
                        snd.qualname, tt, t, "before it is filled" if before else "in the finally clause of the write"))
                else:
                    ctx.violation("W1", snd, "stale-write-buffer", "the sender collects its output in %s (through the local %s), which outlives the "
                                  "call, and empties it only after a successful write: when a write raises, the unsent command is sent together "
                                  "with the next one" % (tt, t), node=c,
                                  witness="sendall raises (timeout) during deletescript('a'); the next listscripts() writes DELETESCRIPT \"a\" again")
            sets = [x for x in walk_no_nested(snd.node) if isinstance(x, ast.Assign) and any(norm(tg) == t for tg in x.targets) and x is not alias_of]
            adds = [x for x in walk_no_nested(snd.node) if isinstance(x, ast.AugAssign) and norm(x.target) == t]

            def crlf_after_line(x):
                # `acc += line` immediately followed by `acc += CRLF`
                if not isinstance(x, ast.AugAssign) or const_value(ctx.program, snd, x.value) != b"\r\n":
                    return False
                par = getattr(x, "_parent", None)
                for fld in ("body", "orelse", "finalbody"):
                    lst = getattr(par, fld, None)
                    if isinstance(lst, list) and x in lst and lst.index(x) > 0:
                        prev = lst[lst.index(x) - 1]
                        return isinstance(prev, ast.AugAssign) and norm(prev.target) == t and prev in adds
                return False

            def line_before_crlf(x):
                par = getattr(x, "_parent", None)
                for fld in ("body", "orelse", "finalbody"):
                    lst = getattr(par, fld, None)
                    if isinstance(lst, list) and x in lst and lst.index(x) + 1 < len(lst):
                        return crlf_after_line(lst[lst.index(x) + 1])
                return False
            forms = all(line(x.value) or const_value(ctx.program, snd, x.value) == b"" for x in sets) and all(
                isinstance(x.op, ast.Add) and (line(x.value) or crlf_after_line(x) or line_before_crlf(x)) for x in adds) and (sets or adds)
            if not forms:
                ctx.violation("W1", snd, "no-crlf:%s" % norm(a), "the write accumulator %s is not built from <line> + CRLF pieces only" % t, node=c)
                continue
            if isinstance(a, ast.Attribute):
                # the accumulator outlives the call: whatever an earlier, failed call left in it must not be sent now
                cfgs = cfgs or ctx.cfg(snd)
                first = [x for st in sets for x in cfgs.nodes_for(st)]
                users = [x for st in adds for x in cfgs.nodes_for(st)] + cfgs.node_containing(c)
                fresh = [st for st in sets if not any(isinstance(y, (ast.Attribute, ast.Name)) and norm(y) == t for y in ast.walk(st.value))]
                fnodes = [x for st in fresh for x in cfgs.nodes_for(st)]
                # ... or it is emptied after every use, whatever happened: in the `finally` of the try that holds the write, and it
                # starts empty (constructor)
                def empties(x):
                    if isinstance(x, ast.Delete):
                        return any(isinstance(tg, ast.Subscript) and norm(tg.value) == t and isinstance(tg.slice, ast.Slice)
                                   and tg.slice.lower is None and tg.slice.upper is None for tg in x.targets)
                    if isinstance(x, ast.Expr) and isinstance(x.value, ast.Call) and isinstance(x.value.func, ast.Attribute) \
                            and x.value.func.attr == "clear" and norm(x.value.func.value) == t:
                        return True
                    return isinstance(x, ast.Assign) and any(norm(tg) == t for tg in x.targets) and const_value(ctx.program, snd, x.value) in (b"", bytearray())
                in_finally = any(isinstance(tr_, ast.Try) and any(contains(b_, c) for b_ in tr_.body) and any(empties(x) for x in tr_.finalbody)
                                 for tr_ in walk_no_nested(snd.node))
                init = R.methods.get("__init__")
                starts_empty = init is not None and any(
                    isinstance(x, ast.Assign) and any(norm(tg).split(".")[-1] == t.split(".")[-1] for tg in x.targets) and (
                        const_value(ctx.program, init, x.value) == b"" or (isinstance(x.value, ast.Call) and call_name(x.value) in ("bytearray", "bytes")
                                                                             and not x.value.args)) for x in walk_no_nested(init.node))
                if fnodes and all(cfgs.dominates(fnodes, u, exc=False) for u in users):
                    ctx.holds("W1", "%s: the instance-level accumulator %s is emptied before it is filled" % (snd.qualname, t))
                elif in_finally and starts_empty:
                    ctx.holds("W1", "%s: the instance-level accumulator %s starts empty and is emptied in the finally clause of every write" % (snd.qualname, t))
                else:
                    ctx.violation("W1", snd, "stale-write-buffer", "the sender collects its output in %s, which outlives the call, and does not "
                                  "empty it before filling it: when a write raises, the unsent command is sent together with the next one" % t,
                                  node=c, witness="sendall raises (timeout) during deletescript('a'); the next listscripts() writes DELETESCRIPT \"a\" again")
            else:
                ctx.holds("W1", "%s: lines are collected in the local %s and written at once" % (snd.qualname, t))
            continue
        ctx.violation("W1", snd, "no-crlf:%s" % norm(a), "a line is sent without the terminating CRLF: %s" % norm(c), node=c)
    # the formatter is applied to the args
    fcalls = self_calls(snd, fmt.name)
    if not fcalls:
        raise AnalysisError("W1", "sender does not call the formatter")
    # ... and what it returns goes out as it is: nothing strips / replaces / recases the assembled line afterwards
    tainted = set()
    grew = True
    while grew:
        grew = False
        for a in walk_no_nested(snd.node):
            if isinstance(a, (ast.Assign, ast.AugAssign)):
                tg = a.targets if isinstance(a, ast.Assign) else [a.target]
                src = a.value
                if any(x in fcalls for x in ast.walk(src) if isinstance(x, ast.Call)) or any(
                        isinstance(x, ast.Name) and x.id in tainted for x in ast.walk(src)):
                    for t_ in tg:
                        if isinstance(t_, ast.Name) and t_.id not in tainted:
                            tainted.add(t_.id)
                            grew = True
    for c in walk_no_nested(snd.node):
        if isinstance(c, ast.Call) and isinstance(c.func, ast.Attribute) and c.func.attr in (
                "strip", "rstrip", "lstrip", "replace", "lower", "upper", "split", "splitlines", "expandtabs", "translate", "title", "capitalize") \
                and (any(isinstance(x, ast.Name) and x.id in tainted for x in ast.walk(c.func.value))
                     or any(x in fcalls for x in ast.walk(c.func.value) if isinstance(x, ast.Call))):
            ctx.violation("W1", snd, "line-altered:%s" % c.func.attr, "the assembled command line is passed through .%s(): bytes that belong to "
                          "an argument (the blanks ending a literal, a tab, a case) are changed after the formatter produced them" % c.func.attr,
                          node=c, witness="putscript('x', 'keep;  ') announces {7+} and sends 5 octets: the next command is read as script text")
    args_param = snd.params[2] if len(snd.params) > 2 else None
    def is_args(e):
        if isinstance(e, ast.Name) and e.id == args_param:
            return True
        # `args or []`: the list itself, or nothing
        return isinstance(e, ast.BoolOp) and isinstance(e.op, ast.Or) and len(e.values) == 2 and is_args(e.values[0]) \
            and isinstance(e.values[1], (ast.List, ast.Tuple)) and not e.values[1].elts
    for c in fcalls:
        if not (c.args and is_args(c.args[0])):
            ctx.violation("W1", snd, "formatter-arg", "the formatter is not applied to the sender's argument list", node=c)
    # no other use of the args parameter reaches the wire
    for nnode in walk_no_nested(snd.node):
        if isinstance(nnode, ast.Name) and nnode.id == args_param and isinstance(nnode.ctx, ast.Load):
            p = nnode._parent
            if isinstance(p, ast.Call) and p in fcalls:
                continue
            if isinstance(p, (ast.If, ast.BoolOp, ast.UnaryOp, ast.Compare)):
                continue
            ctx.violation("W1", snd, "args-bypass-formatter", "the argument list is used outside the formatter call: %s" % norm(stmt_of(nnode))[:80],
                          node=nnode)
    return args_param


def w9(ctx, R, fmt=None, snd=None, rule="W9"):
    """What the sender writes, by evaluation over small inputs: for (verb, arguments, extra lines) in a sample set and EVERY setting of the
    sender's other parameters and of the instance flags it reads, the bytes handed to the socket are
        verb [SP formatted arguments joined by SP] CRLF  {extra line CRLF}
    where `formatted arguments` is what the formatter returned, element for element."""
    from sa.util import module_resolver
    fmt = fmt or R.formatter
    snd = snd or R.sender
    ctx.rule(rule, "the bytes written by the sender equal verb + formatted arguments + CRLF (+ extra lines) on every path")
    if len(snd.params) < 3:
        ctx.notice(rule, "%s: not the (name, args, ...) signature; not evaluated" % snd.qualname)
        return
    pname, pargs = snd.params[1], snd.params[2]
    pextra = next((p for p in snd.params[3:] if "extra" in p.lower() or "lines" in p.lower() and "nb" not in p.lower()), None)
    send_names = {c.func.attr for c in R.send_sites.get(snd.name, []) if isinstance(c.func, ast.Attribute)}
    checked = 0
    undecided = None

    def F(x):
        # what the formatter makes of an argument: a quoted form, or - for a value with blanks in it - a literal, which ends with the
        # value's own last byte
        return b"{%d+}\r\n" % len(x) + x if (b" " in x or b"\t" in x or b"\n" in x) else b"<" + x + b">"
    # sizes the sender itself mentions (a block size for writes, a threshold): lines that end just before, at and just after them
    cenv = R.const_env(snd.params[0])
    sizes = {n_.value for n_ in ast.walk(snd.node) if isinstance(n_, ast.Constant) and type(n_.value) is int and 16 <= n_.value <= 65536}
    for n_ in walk_no_nested(snd.node):
        if isinstance(n_, ast.Attribute) and isinstance(n_.value, ast.Name) and n_.value.id == snd.params[0]:
            cv_ = cenv.get("%s.%s" % (snd.params[0], n_.attr))
            if isinstance(cv_, fd.Const) and type(cv_.v) is int and 16 <= cv_.v <= 65536:
                sizes.add(cv_.v)
    boundary = [[b"x" * (L - 7)] for k_ in sorted(sizes)[:3] for L in (k_ - 2, k_ - 1, k_, k_ + 1, 2 * k_ - 1, 2 * k_) if L - 7 > 0]
    for args in [None, [b"a"], [b"a", b"b", b"c"], [b"a", b"b \t  c  "], [b" "], [b"a", b"keep;\r\n"], [b"\r\n"]] + boundary:
        # "no extra lines" is the parameter's own default (None in one spelling, an empty list in another)
        dflt_extra = None
        if pextra and isinstance(snd.defaults().get(pextra), (ast.List, ast.Tuple)) and not snd.defaults()[pextra].elts:
            dflt_extra = []
        for extra in ((dflt_extra, [b"x", b"yy"]) if pextra else (None,)):
            def oracle(interp, e, name, recv, a, kw, st):
                if name == "self." + fmt.name or (name and mangle(R.cls.name, name[5:]) == fmt.name):
                    v = a[0] if a else None
                    if isinstance(v, fd.Const) and isinstance(v.v, (list, tuple)):
                        return [(fd.Const([F(x) for x in v.v]), None)]
                    return [(fd.Const([]), None)] if isinstance(v, fd.Const) and not v.v else None
                if name in send_names and a:
                    return [(fd.Const(None), ("send", a[0]))]
                if name and name.startswith("self.") and name[5:] in R.methods:
                    return [(fd.Unknown(name), None)]
                return None
            it = fd.Interp(snd.node, R.cls.name, oracle, resolve=module_resolver(ctx.program, R.module), loop_unroll=6)
            env = dict(cenv)
            env.update({pname: fd.Const("VERB"), pargs: fd.Const(args)})
            if pextra:
                env[pextra] = fd.Const(extra)
            for q in snd.params[1:] + [a_.arg for a_ in snd.node.args.kwonlyargs]:
                env.setdefault(q, fd.Unknown(q))  # every setting of the other parameters, not their defaults
            try:
                paths = it.run(env)
            except fd.TooManyPaths:
                undecided = "path explosion"
                continue
            want = b"VERB" + (b" " + b" ".join(F(x) for x in args) if args else b"") + b"\r\n" + b"".join(
                x + b"\r\n" for x in (extra or []))
            for p in paths:
                if p.kind != "return":
                    continue
                sent = [x[1] for x in p.events if x[0] == "send"]
                if not all(isinstance(x, fd.Const) and isinstance(x.v, (bytes, bytearray)) for x in sent):
                    undecided = "a written value is not followed by the interpreter"
                    continue
                got = b"".join(bytes(x.v) for x in sent)
                checked += 1
                if got != want:
                    facts = "; ".join(sorted({norm(f_[0])[:40] + ("" if f_[1] else " is false") for f_ in getattr(p, "facts", []) or []
                                              if hasattr(f_[0], "lineno")}))[:200] if False else ""
                    def short(b_):
                        return b_ if not isinstance(b_, (bytes, bytearray)) or len(b_) < 80 else b_[:30] + b"...(%d octets)..." % len(b_) + b_[-30:]
                    ctx.violation(rule, snd, "wire-bytes", "with args=%r, extra lines=%r the sender writes %r on some path; the command is %r"
                                  % ([short(x) for x in args] if args else args, extra, short(got), short(want)), node=snd.node,
                                  witness="a command whose arguments the server never receives as the caller passed them")
                    return "bad"
    # the caller's list is an object: run again with a shared (mutable) list and every concrete setting of the boolean parameters and
    # of the instance's debug flag, so that an edit made through an alias of the list (`shown = args; shown[1] = ...`) is seen
    if checked >= 3:
        import itertools
        bools = [q for q in snd.params[3:] if q != pextra and isinstance(snd.defaults().get(q), ast.Constant) and isinstance(snd.defaults()[q].value, bool)]
        flags = sorted({n_.attr for n_ in walk_no_nested(snd.node) if isinstance(n_, ast.Attribute) and isinstance(n_.value, ast.Name)
                        and n_.value.id == snd.params[0] and "debug" in n_.attr.lower() and isinstance(n_.ctx, ast.Load)})
        old_heap = fd.State.heap
        fd.State.heap = True
        try:
            verbs_ = ["VERB", "AUTHENTICATE", "PUTSCRIPT", "STARTTLS", "LOGOUT"]
            for verb_, combo in itertools.product(verbs_, list(itertools.product((False, True), repeat=len(bools) + len(flags)))):
                shared = fd.MList([b"a", b"b", b"c"])

                def oracle2(interp, e, name, recv, a, kw, st):
                    if name == "self." + fmt.name or (name and mangle(R.cls.name, name[5:]) == fmt.name):
                        v = a[0] if a else None
                        if isinstance(v, fd.Const) and isinstance(v.v, (list, tuple)):
                            return [(fd.Const([b"<" + x + b">" if isinstance(x, bytes) else b"<?>" for x in v.v]), None)]
                        return None
                    if name in send_names and a:
                        return [(fd.Const(None), ("send", a[0]))]
                    if name == "isinstance" and len(a) == 2 and isinstance(a[0], fd.Const) and isinstance(a[0].v, (bytes, str, int)) \
                            and isinstance(e.args[1], ast.Name) and ctx.program.cls(e.args[1].id) is not None:
                        return [(fd.Const(False), None)]  # a plain bytes / str / int constant is no instance of a class of the package
                    if name and name.startswith("self.") and name[5:] in R.methods:
                        return [(fd.Unknown(name), None)]
                    return None
                it = fd.Interp(snd.node, R.cls.name, oracle2, resolve=module_resolver(ctx.program, R.module))
                env = {pname: fd.Const(verb_), pargs: fd.Const(shared)}
                if pextra:
                    env[pextra] = fd.Const(dflt_extra if dflt_extra is None else list(dflt_extra))
                for q, v_ in zip(bools, combo):
                    env[q] = fd.Const(v_)
                for a_, v_ in zip(flags, combo[len(bools):]):
                    env["%s.%s" % (snd.params[0], a_)] = fd.Const(v_)
                for q in snd.params[1:]:
                    env.setdefault(q, fd.Unknown(q))
                try:
                    paths = [p for p in it.run(env) if p.kind == "return"]
                except fd.TooManyPaths:
                    continue
                # shared objects are only meaningful on a single path - or when every path wrote the same bytes
                sents = []
                for p_ in paths:
                    sent = [x[1] for x in p_.events if x[0] == "send"]
                    sents.append(b"".join(bytes(x.v) for x in sent) if all(isinstance(x, fd.Const) and isinstance(x.v, (bytes, bytearray)) for x in sent) else None)
                if not sents or None in sents or len(set(sents)) != 1:
                    continue
                got = sents[0]
                want = verb_.encode() + b" <a> <b> <c>\r\n"
                checked += 1
                if got != want or list(shared) != [b"a", b"b", b"c"]:
                    setting = ", ".join("%s=%s" % kv for kv in zip(bools + flags, combo))
                    ctx.violation(rule, snd, "wire-bytes-shared-list", "for %s with the argument list [b'a', b'b', b'c'] (%s) the sender writes %r and leaves the "
                                  "caller's list as %r; the command is %r and the list is the caller's" % (verb_, setting, got, list(shared), want),
                                  node=snd.node, witness="an argument is replaced in the caller's list before it is formatted")
                    return "bad"
        finally:
            fd.State.heap = old_heap
    if checked < 3:
        ctx.notice(rule, "%s: not evaluable (%s); the syntactic W1 rules decide" % (snd.qualname, undecided or "no complete path"))
        return None
    ctx.holds(rule, "%s: %d (arguments, extra lines, flag settings) paths write exactly verb + formatted arguments + CRLF (+ lines)%s"
              % (snd.qualname, checked, "; undecided paths: " + undecided if undecided else ""))
    return "ok" if not undecided else None


def resolve_helper(ctx, func, call):
    """The function a call `self.m(x)`, `mod.f(x)` or `f(x)` designates (None when it is not one of the package's own)."""
    nm = call_name(call)
    if nm is None:
        return None
    fn = call.func
    if isinstance(fn, ast.Attribute) and isinstance(fn.value, ast.Name) and func.cls is not None and fn.value.id == func.params[0]:
        return ctx.program.method(func.cls, nm) or next((m for k, m in func.cls.methods.items() if k.lstrip("_") == nm.lstrip("_")), None)
    if isinstance(fn, ast.Attribute) and isinstance(fn.value, ast.Name) and fn.value.id in ctx.program.modules:
        return ctx.program.modules[fn.value.id].funcs.get(nm)
    if isinstance(fn, ast.Name):
        g = func.module.funcs.get(nm)
        if g is not None:
            return g
        for m in ctx.program.modules.values():
            if nm in m.funcs and nm in getattr(func.module, "imports", {}):
                return m.funcs[nm]
    return None


def regex_source(ctx, f, e):
    """Pattern (bytes/str) of a regex operand: a constant, or a name/attribute bound to re.compile(<constant>)."""
    v = const_value(ctx.program, f, e)
    if isinstance(v, (bytes, str)):
        return v
    if isinstance(e, ast.Call) and call_name(e) == "compile" and e.args:
        v = const_value(ctx.program, f, e.args[0])
        if not isinstance(v, (bytes, str)) and isinstance(e.args[0], ast.Constant):
            v = e.args[0].value
        return v if isinstance(v, (bytes, str)) else None
    if isinstance(e, ast.Name):
        for m in [f.module] + list(ctx.program.modules.values()):
            d = m.assigns.get(e.id)
            if isinstance(d, ast.Call) and call_name(d) == "compile" and d.args:
                v = const_value(ctx.program, f, d.args[0])
                if not isinstance(v, (bytes, str)) and isinstance(d.args[0], ast.Constant):
                    v = d.args[0].value
                if isinstance(v, (bytes, str)):
                    return v
    return None


def flatten_add(e):
    if isinstance(e, ast.BinOp) and isinstance(e.op, ast.Add):
        return flatten_add(e.left) + flatten_add(e.right)
    return [e]


def is_const(ctx, f, e, val):
    return const_value(ctx.program, f, e) == val


def rx_chars(pat):
    """characters of a simple character-class pattern like [\\r\\n\\0]"""
    try:
        from sa import rx
        p = rx.Pattern(pat)
        return "".join(chr(c) for c in rx.mask_bytes(rx.byteset(p)))
    except Exception:
        return ""


def escaper_order(ctx, f, exprs, var, depth=0):
    """exprs: expressions applied (outermost first) to the loop variable.
    True if backslash is escaped before double quote; else a description."""
    steps = []  # in application order (innermost first)

    def walk(e):
        if isinstance(e, ast.Call) and isinstance(e.func, ast.Attribute) and e.func.attr == "replace" and len(e.args) >= 2:
            walk(e.func.value)
            a, b = const_value(ctx.program, f, e.args[0]), const_value(ctx.program, f, e.args[1])
            steps.append((a, b))
        elif isinstance(e, ast.Call) and call_name(e) == "sub" and len(e.args) >= 2:
            if len(e.args) >= 3:
                pat, rep, subject = regex_source(ctx, f, e.args[0]), const_value(ctx.program, f, e.args[1]), e.args[2]
            else:  # compiled pattern: P.sub(rep, subject)
                pat, rep, subject = regex_source(ctx, f, e.func.value), const_value(ctx.program, f, e.args[0]), e.args[1]
            if isinstance(pat, bytes) and isinstance(rep, bytes):
                cs = rx_chars(pat)
                try:
                    import re._parser as _sre
                    width = tuple(int(x) for x in _sre.parse(pat).getwidth())
                except Exception:
                    width = None
                # one backslash is inserted per MATCH: every match must be exactly one special character
                if '"' in cs and "\\" in cs and rep in (rb"\\\1", rb"\\\g<0>", rb"\\\g<1>") and width == (1, 1):
                    steps.append((b"\\", b"\\\\"))
                    steps.append((b'"', b'\\"'))
            walk(subject)
        elif isinstance(e, ast.Call) and isinstance(e.func, ast.Attribute) and isinstance(e.func.value, ast.Name) \
                and e.func.value.id == f.params[0] and f.cls is not None and depth < 2:
            g = ctx.program.method(f.cls, e.func.attr)
            if g is not None and e.args:
                walk(e.args[0])
                rs = [r.value for r in walk_no_nested(g.node) if isinstance(r, ast.Return) and r.value is not None]
                p = g.params[1] if len(g.params) > 1 else None
                for r in rs:
                    inner = escaper_order(ctx, g, [r], p, depth + 1)
                    if inner is True:
                        steps.append((b"\\", b"\\\\"))
                        steps.append((b'"', b'\\"'))

    for e in reversed(exprs):
        walk(e)
    bs = [i for i, (a, b) in enumerate(steps) if a == b"\\" and b == b"\\\\"]
    dq = [i for i, (a, b) in enumerate(steps) if a == b'"' and b == b'\\"']
    if not bs and not dq:
        return "without any escaping of `\\` and `\"`"
    if not bs:
        return "without escaping backslashes"
    if not dq:
        return "without escaping double quotes"
    if min(bs) > min(dq):
        return "escaping the quote before the backslash (the quote's own backslash gets doubled)"
    return True


FORMAT_SAMPLES = [b"abc", b"", b"a b", b'a"b', b"a\\b", b'a\\"b', b"\\", b'"', b'\\"', b'""', b"\\\\", b"x\\", b"caf\xc3\xa9", b"{3}", b"{3+}",
                  b"a\nb", b"abc\n", b"\n", b"a\r\nb", b"\r", b"a\rb", b"a\x00b", b"\x00", b'q"\n', b" ", b"a\tb", 0, 7, 12345]


def wire_decode(out):
    """What a ManageSieve server reads from one formatted argument (RFC 5804 section 4): a number, a quoted string (only `\\"` and
    `\\\\` are escapes; no CR, LF or NUL inside) or a non-synchronising literal carrying exactly the announced octets.  None: malformed."""
    import re
    if re.fullmatch(rb"\d+", out):
        return int(out)
    m = re.fullmatch(rb'"((?:[^"\\\r\n\x00]|\\["\\])*)"', out)
    if m is not None:
        return re.sub(rb'\\(["\\])', rb"\1", m.group(1))
    m = re.fullmatch(rb"\{(\d+)\+\}\r\n(.*)", out, re.S)
    if m is not None and int(m.group(1)) == len(m.group(2)):
        return m.group(2)
    return None


def format_eval(ctx, R):
    """W2/W6 by evaluation (rule W10): the argument formatter interpreted for one argument at a time over sample values - quotes and
    backslashes alone, doubled, at the end; CR / LF / NUL anywhere, a trailing LF; numbers - and what a server reads from the result must
    be the value.  -> ("ok", n) | ("bad", message) | None"""
    if hasattr(ctx, "_format_eval"):
        return ctx._format_eval
    ctx._format_eval = None
    from sa.util import module_resolver
    fmt = R.formatter
    own = fmt.params if "staticmethod" in fmt.decorators else fmt.params[1:]
    if len(own) != 1:
        return None
    sn = fmt.params[0] if own is not fmt.params else "self"

    def oracle(interp, e, name, recv, args, kw, st):
        fn = e.func
        if name == "isinstance" and len(args) == 2 and isinstance(args[0], fd.Const) and isinstance(args[0].v, (bytes, str, int)) \
                and isinstance(e.args[1], ast.Name) and ctx.program.cls(e.args[1].id) is not None:
            return [(fd.Const(False), None)]
        if isinstance(fn, ast.Name) and fn.id in R.module.funcs:
            return fd.Inline(R.module.funcs[fn.id])
        if name and name.startswith("self.") and name[5:] in R.methods and R.methods[name[5:]].node is not interp.f:
            return fd.Inline(R.methods[name[5:]])
        return None
    n = 0
    for sample in FORMAT_SAMPLES:
        it = fd.Interp(fmt.node, R.cls.name, oracle, resolve=module_resolver(ctx.program, R.module), loop_unroll=3, max_paths=60, max_depth=4)
        env = dict(R.const_env(sn))
        env[own[0]] = fd.Const([sample])
        try:
            ps = it.run(env)
        except (fd.TooManyPaths, RecursionError):
            return None
        if len(ps) != 1 or it.unknowns:
            return None
        p = ps[0]
        if p.kind == "raise":
            if isinstance(sample, bytes) and (b"\r" in sample or b"\n" in sample or b"\x00" in sample):
                n += 1
                continue  # refusing a value no quoted string can carry is one of the two correct answers
            ctx._format_eval = ("bad", "for the argument %r the formatter raises %s" % (sample, p.value))
            return ctx._format_eval
        v = p.value
        if not (isinstance(v, fd.Const) and isinstance(v.v, (list, tuple)) and len(v.v) == 1 and isinstance(v.v[0], (bytes, bytearray))):
            return None
        out = bytes(v.v[0])
        got = wire_decode(out)
        n += 1
        if got != sample or type(got) is not type(sample):
            ctx._format_eval = ("bad", "for the argument %r the formatter writes %r, which a server reads as %s" % (
                sample, out, "a malformed argument" if got is None else repr(got)))
            return ctx._format_eval
    ctx._format_eval = ("ok", n)
    return ctx._format_eval


LITERAL_SAMPLES = ["", "a", "\u00e9t\u00e9 \u2028x", "keep;\n", "a\r\nb\n\nc\rd\r\n\r\ne", 'x"y\\z', "{3+}\r\nabc", "# c\n\n\nstop;"]


def literal_eval(ctx, R, lb, strict=True):
    """W4 by evaluation: the literal builder interpreted over sample contents.  The result must be `{n+}` CRLF data with n = len(data);
    data must be the UTF-8 bytes of the content (strict: C08, the server decodes the caller's value) or equal to them once every line
    ending is read as one line break (C14 / C15: `line endings aside`).  -> ("ok", n) | ("bad", what, witness) | None"""
    import re
    from sa.util import module_resolver
    if len(lb.params) != 2:
        return None

    def oracle(interp, e, name, recv, args, kw, st):
        fn = e.func
        if isinstance(fn, ast.Name) and ctx.program.cls(fn.id) is not None and len(args) == 1 and isinstance(args[0], fd.Const) \
                and isinstance(args[0].v, (bytes, bytearray)) and not kw:
            c = ctx.program.cls(fn.id)
            if any(norm(b) in ("bytes", "bytearray") for b in c.node.bases):
                return [(args[0], None)]  # a bytes subclass used as a marker: the same octets
        if isinstance(fn, ast.Name) and fn.id in R.module.funcs:
            return fd.Inline(R.module.funcs[fn.id])
        if name and name.startswith("self.") and name[5:] in R.methods and R.methods[name[5:]].node is not interp.f:
            return fd.Inline(R.methods[name[5:]])
        if isinstance(fn, ast.Attribute) and isinstance(fn.value, ast.Name) and fn.value.id in ctx.program.modules \
                and fn.attr in ctx.program.modules[fn.value.id].funcs:
            return fd.Inline(ctx.program.modules[fn.value.id].funcs[fn.attr])
        return None
    one = lambda b: re.sub(rb"\r\n|\r|\n", b"\n", b)
    n = 0
    for sample in LITERAL_SAMPLES:
        it = fd.Interp(lb.node, R.cls.name, oracle, resolve=module_resolver(ctx.program, R.module), loop_unroll=40, max_paths=50)
        try:
            ps = it.run({lb.params[1]: fd.Const(sample)})
        except fd.TooManyPaths:
            return None
        if len(ps) != 1 or ps[0].kind != "return" or not isinstance(ps[0].value, fd.Const) or not isinstance(ps[0].value.v, (bytes, bytearray)):
            return None
        out = bytes(ps[0].value.v)
        raw = sample.encode("utf-8")
        n += 1
        m = re.fullmatch(rb"\{(\d+)(\+?)\}\r\n(.*)", out, re.S)
        if m is None:
            return ("bad", "for the content %r the literal builder returns %r, which is not {n+} CRLF data" % (sample, out[:60]),
                    "the server cannot tell where the script ends")
        if m.group(2) != b"+":
            return ("bad", "for the content %r the builder announces a synchronising literal {%s}: the client does not wait for the server's "
                    "go-ahead" % (sample, m.group(1).decode()), "the upload hangs or is refused")
        if int(m.group(1)) != len(m.group(3)):
            return ("bad", "for the content %r the literal announces %d octets and carries %d" % (sample, int(m.group(1)), len(m.group(3))),
                    "putscript('x', %r): the rest of the script is read as the next command (or the server waits for more)" % sample)
        data = m.group(3)
        if data != raw and (strict or one(data) != one(raw)):
            return ("bad", "for the content %r the literal carries %r, not the content's UTF-8 bytes%s" % (
                sample, data[:60], "" if strict else " (not even line endings aside)"),
                "the stored script differs from the one the caller passed")
    return ("ok", n)


def literal_template_ok(ctx, f, e, want_var=None):
    """e == b"{%d+}%s%s" % (len(X), CRLF, X)  with the same X; returns True or a description."""
    if not (isinstance(e, ast.BinOp) and isinstance(e.op, ast.Mod) and isinstance(e.left, ast.Constant)
            and isinstance(e.left.value, bytes) and isinstance(e.right, ast.Tuple)):
        # concatenation form:  b"{" + str(len(X)).encode() + b"+}" + CRLF + X
        parts = flatten_add(e)
        if len(parts) >= 4:
            return "template form not recognised (%s)" % norm(e)[:60]
        return "template form not recognised (%s)" % norm(e)[:60]
    fmt = e.left.value
    items = e.right.elts
    if fmt != b"{%d+}%s%s":
        if fmt.startswith(b"{%d}"):
            return "synchronising literal {n} instead of {n+} (the client does not wait for the server's go-ahead)"
        return "format %r is not {%%d+}<CRLF><data>" % fmt
    if len(items) != 3:
        return "wrong number of template arguments"
    ln, sep, data = items
    if not (isinstance(ln, ast.Call) and call_name(ln) == "len" and len(ln.args) == 1):
        return "announced size %s is not len() of the data" % norm(ln)
    if norm(ln.args[0]) != norm(data):
        return "announced size is len(%s) but the data sent is %s" % (norm(ln.args[0]), norm(data))
    if const_value(ctx.program, f, sep) != b"\r\n":
        return "size and data are not separated by CRLF"
    if want_var is not None:
        if not (isinstance(data, ast.Name) and data.id == want_var):
            return "data is not the loop variable"
        return True
    # data must be the utf-8 encoding of the content parameter
    if isinstance(data, ast.Name):
        defs = [d for d in walk_no_nested(f.node) if isinstance(d, (ast.Assign, ast.AnnAssign))
                and any(isinstance(t, ast.Name) and t.id == data.id for t in (d.targets if isinstance(d, ast.Assign) else [d.target]))]
        if len(defs) != 1:
            return "data variable %s has %d definitions" % (data.id, len(defs))
        dv = defs[0].value
    else:
        dv = data
    if isinstance(dv, ast.Call) and isinstance(dv.func, ast.Attribute) and dv.func.attr == "encode" \
            and isinstance(dv.func.value, ast.Name) and dv.func.value.id in f.params:
        enc = dv.args[0].value if dv.args and isinstance(dv.args[0], ast.Constant) else "utf-8"
        if str(enc).lower().replace("_", "-") not in ("utf-8", "utf8"):
            return "content encoded as %s, not utf-8" % enc
        return True
    return "data %s is not <parameter>.encode('utf-8')" % norm(dv)


TEXT_SAMPLES = ["abc", 'a"b', "a\\b", "caf\u00e9 \u20ac", "a\nb", ""]


def formatter_accepts_text(ctx, R):
    """The formatter itself turns a str argument into the wire form of its UTF-8 bytes (by evaluation over samples): then a caller may hand
    it the name as it got it."""
    if hasattr(ctx, "_fmt_text"):
        return ctx._fmt_text
    ctx._fmt_text = False
    from sa.util import module_resolver
    fmt = R.formatter
    own = fmt.params if "staticmethod" in fmt.decorators else fmt.params[1:]
    if len(own) != 1:
        return False
    sn = fmt.params[0] if own is not fmt.params else "self"

    def oracle(interp, e, name, recv, args, kw, st):
        fn = e.func
        if name == "isinstance" and len(args) == 2 and isinstance(args[0], fd.Const) and isinstance(args[0].v, (bytes, str, int)) \
                and isinstance(e.args[1], ast.Name) and ctx.program.cls(e.args[1].id) is not None:
            return [(fd.Const(False), None)]
        if isinstance(fn, ast.Name) and fn.id in R.module.funcs:
            return fd.Inline(R.module.funcs[fn.id])
        if name and name.startswith("self.") and name[5:] in R.methods and R.methods[name[5:]].node is not interp.f:
            return fd.Inline(R.methods[name[5:]])
        return None
    for sample in TEXT_SAMPLES:
        it = fd.Interp(fmt.node, R.cls.name, oracle, resolve=module_resolver(ctx.program, R.module), loop_unroll=3, max_paths=60, max_depth=4)
        env = dict(R.const_env(sn))
        env[own[0]] = fd.Const([sample])
        try:
            ps = it.run(env)
        except (fd.TooManyPaths, RecursionError):
            return False
        if len(ps) != 1 or it.unknowns or ps[0].kind != "return":
            return False
        v = ps[0].value
        if not (isinstance(v, fd.Const) and isinstance(v.v, (list, tuple)) and len(v.v) == 1 and isinstance(v.v[0], (bytes, bytearray))):
            return False
        if wire_decode(bytes(v.v[0])) != sample.encode("utf-8"):
            return False
    ctx._fmt_text = True
    return True


def text_to_bytes_helper(ctx, R, g):
    """g(x) gives the UTF-8 bytes of a str and leaves bytes alone (by evaluation over samples)"""
    cache = ctx.__dict__.setdefault("_t2b", {})
    if g.qualname in cache:
        return cache[g.qualname]
    cache[g.qualname] = False
    from sa.util import module_resolver
    own = g.params if g.cls is None or "staticmethod" in g.decorators else g.params[1:]
    if len(own) < 1:
        return False
    for sample in TEXT_SAMPLES + [s_.encode("utf-8") for s_ in TEXT_SAMPLES]:
        it = fd.Interp(g.node, g.cls.name if g.cls is not None else None, None, resolve=module_resolver(ctx.program, R.module), max_paths=20)
        try:
            ps = it.run({own[0]: fd.Const(sample)})
        except (fd.TooManyPaths, RecursionError):
            return False
        if len(ps) != 1 or it.unknowns or ps[0].kind != "return" or not isinstance(ps[0].value, fd.Const):
            return False
        want = sample.encode("utf-8") if isinstance(sample, str) else sample
        if not isinstance(ps[0].value.v, (bytes, bytearray)) or bytes(ps[0].value.v) != want:
            return False
    cache[g.qualname] = True
    return True


def _list_elements(f, name, depth=0):
    """The expressions that can be elements of the local list `name` (built from list literals, copies of such lists, `.append(x)`,
    `+= [x]`, `.extend([x])`); None when one of its definitions is something else."""
    if depth > 4:
        return None
    out = []
    seen_def = False
    for st in walk_no_nested(f.node):
        if isinstance(st, (ast.Assign, ast.AnnAssign)) and st.value is not None and any(
                isinstance(t, ast.Name) and t.id == name.id for t in (st.targets if isinstance(st, ast.Assign) else [st.target])):
            seen_def = True
            vals = [st.value]
            while vals:
                v = vals.pop()
                if isinstance(v, ast.IfExp):
                    vals += [v.body, v.orelse]
                elif isinstance(v, ast.List):
                    out += list(v.elts)
                elif isinstance(v, ast.Constant) and v.value is None:
                    pass
                elif isinstance(v, ast.Call) and isinstance(v.func, ast.Name) and v.func.id == "list" and len(v.args) <= 1:
                    if v.args:
                        vals.append(v.args[0])
                elif isinstance(v, ast.Name) and v.id == name.id:
                    pass  # a copy of the list itself: its elements come from the other definitions
                elif isinstance(v, ast.Name):
                    sub_ = _list_elements(f, v, depth + 1)
                    if sub_ is None:
                        return None
                    out += sub_
                elif isinstance(v, ast.BinOp) and isinstance(v.op, ast.Add):
                    vals += [v.left, v.right]
                elif isinstance(v, ast.BoolOp) and isinstance(v.op, ast.Or):
                    vals += list(v.values)
                else:
                    return None
        elif isinstance(st, ast.Expr) and isinstance(st.value, ast.Call) and isinstance(st.value.func, ast.Attribute) \
                and isinstance(st.value.func.value, ast.Name) and st.value.func.value.id == name.id:
            if st.value.func.attr == "append" and len(st.value.args) == 1:
                out.append(st.value.args[0])
            elif st.value.func.attr == "extend" and len(st.value.args) == 1 and isinstance(st.value.args[0], ast.List):
                out += list(st.value.args[0].elts)
            else:
                return None
        elif isinstance(st, ast.AugAssign) and isinstance(st.target, ast.Name) and st.target.id == name.id:
            if isinstance(st.op, ast.Add) and isinstance(st.value, ast.List):
                out += list(st.value.elts)
            else:
                return None
    return out if seen_def else None


def arg_kind(ctx, R, f, el):
    """Accepted argument forms at a sender call site."""
    # a helper that gives the UTF-8 bytes of a str (and leaves bytes alone), applied to a parameter
    if isinstance(el, ast.Call) and len(el.args) == 1 and not el.keywords and isinstance(el.args[0], ast.Name) and el.args[0].id in f.params:
        g = None
        if isinstance(el.func, ast.Name):
            g = R.module.funcs.get(el.func.id)
        elif isinstance(el.func, ast.Attribute) and isinstance(el.func.value, ast.Name) and el.func.value.id == f.params[0]:
            g = R.methods.get(el.func.attr) or R.methods.get(mangle(R.cls.name, el.func.attr))
        if g is not None and text_to_bytes_helper(ctx, R, g):
            return "parameter turned into its UTF-8 bytes by %s" % g.qualname
    # <param>.encode("utf-8")
    if isinstance(el, ast.Call) and isinstance(el.func, ast.Attribute) and el.func.attr == "encode" \
            and isinstance(el.func.value, ast.Name) and el.func.value.id in f.params:
        enc = el.args[0].value if el.args and isinstance(el.args[0], ast.Constant) else "utf-8"
        if str(enc).lower().replace("_", "-") in ("utf-8", "utf8"):
            return "utf-8 encoded parameter"
        return None
    if isinstance(el, ast.Name):
        if el.id in f.params:
            # bare parameter: must be a number (annotation int) -> emitted unquoted
            for a in f.node.args.args:
                if a.arg == el.id and a.annotation is not None and norm(a.annotation) == "int":
                    return "int parameter"
            if formatter_accepts_text(ctx, R):
                return "parameter handed to a formatter that encodes text itself"
            return None
        defs = [d for d in walk_no_nested(f.node) if isinstance(d, ast.Assign)
                and any(isinstance(t, ast.Name) and t.id == el.id for t in d.targets)]
        defs = sorted((d for d in defs if d.lineno < el.lineno), key=lambda d: d.lineno)
        if defs:
            # the definition reaching this use in straight-line code
            return arg_kind(ctx, R, f, defs[-1].value)
        return None
    if isinstance(el, ast.Call) and isinstance(el.func, ast.Attribute) and isinstance(el.func.value, ast.Name) \
            and el.func.value.id == f.params[0] and R.literal_builder is not None and el.func.attr == R.literal_builder.name:
        return "built literal"
    if isinstance(el, ast.Call) and call_name(el) == "b64encode":
        return "base64"
    v = const_value(ctx.program, f, el)
    if isinstance(v, bytes) and b'"' not in v and b"\\" not in v and b"\r" not in v and b"\n" not in v:
        return "constant"
    return None


def is_quoted_b64(e):
    """b'"%s"' % base64.b64encode(x)   or  '"%s"' % obj.response(...)  (digest, base64 by construction)"""
    from sa.template import template, shape, holes
    t = template(e)
    if t is not None and shape(t) == '"\0"' and len(holes(t)) == 1 and holes(t)[0].spec is None:
        r = holes(t)[0].expr
        # (the text form of the encoding: base64 output is ASCII, decoding it changes nothing)
        while isinstance(r, ast.Call) and isinstance(r.func, ast.Attribute) and r.func.attr == "decode":
            r = r.func.value
        if isinstance(r, ast.Call) and call_name(r) in ("b64encode", "response"):
            return True
    return False
