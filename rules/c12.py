"""C12 - Filter-set editing operations behave like an ordered, uniquely named list.

O1 uniqueness guards, O2 in-place update/replace, O3 move by exactly one,
O4 unknown names change nothing, O5 enabled flag / wrapping pairing with
symmetric state guards.
"""
import ast

from sa.model import AnalysisError, walk_no_nested, norm, call_name, stmt_of
from sa.util import fact_atom, fact_call, cmp_parts, const_value, raise_name, contains
from sa.consteval import TOP

MUT = {"append", "extend", "insert", "remove", "pop", "clear", "sort", "reverse"}
OPS = ["addfilter", "updatefilter", "replacefilter", "removefilter", "enablefilter", "disablefilter", "movefilter"]


class FactoryRoles:
    def __init__(self, ctx, rule="F"):
        self.program = ctx.program
        self.mod = ctx.program.module("factory")
        self.cls = self.mod.classes.get("FiltersSet")
        if self.cls is None:
            raise AnalysisError(rule, "class FiltersSet not found")
        self.m = self.cls.methods
        for n in OPS + ["getfilter", "filter_exists", "tosieve", "from_parser_result", "require", "is_filter_disabled"]:
            if n not in self.m:
                raise AnalysisError(rule, "FiltersSet.%s not found" % n)
        self.isdisabled = next((f for n, f in self.m.items() if n.lstrip("_") == "isdisabled"), None)
        self.create = next((f for n, f in self.m.items() if n.lstrip("_") == "create_filter"), None)
        self.build_condition = next((f for n, f in self.m.items() if n.lstrip("_") == "build_condition"), None)
        # the quoting helper: leaves a value that comes with its own quotes alone (a startswith test), quotes anything else
        cands = [f for n, f in list(self.m.items()) + list(self.mod.funcs.items()) if "quote" in n]

        def tests_prefix(f):
            return any(isinstance(c, ast.Call) and call_name(c) == "startswith" for c in walk_no_nested(f.node)) or any(
                isinstance(x, ast.Subscript) and isinstance(x.slice, ast.Slice) for t in walk_no_nested(f.node) if isinstance(t, ast.If)
                for x in ast.walk(t.test))
        self.quote = next((f for f in cands if "necessary" in f.name), None) or next((f for f in cands if tests_prefix(f)), None) or (
            cands[0] if cands else None)
        # methods of the class plus the private functions of its module (helpers that do not use self may live at either place)
        self.helpers = dict(self.mod.funcs)
        self.helpers.update(self.m)
        self.gen_require = next((f for n, f in self.m.items() if "gen_require" in n), None)
        self.derive = tag_derivation_helper(self.cls, self.mod)
        if self.isdisabled is None or self.create is None:
            raise AnalysisError(rule, "FiltersSet.__isdisabled / __create_filter not found")

    def builders(self):
        """__create_filter and every private method of the class it reaches (self.m(...) calls and self.m references, e.g. the
        values of a dispatch table)."""
        out, todo = [], [self.create]
        while todo:
            f = todo.pop()
            if f is None or f in out:
                continue
            out.append(f)
            sn = f.params[0] if f.params else "self"
            for n in walk_no_nested(f.node):
                if isinstance(n, ast.Attribute) and isinstance(n.value, ast.Name) and n.value.id == sn and n.attr in self.m \
                        and n.attr.startswith("_") and not n.attr.endswith("__"):
                    todo.append(self.m[n.attr])
        return out


def tag_derivation_helper(cls, mod):
    """The function that derives, from a command's definition and a tag, the extension the tag needs: it takes (command, tag), walks
    <command>.args_definition and looks at `extension_values`.  Whatever it is called, and whether it requires the extension itself
    or hands it back."""
    cands = []
    for f in list(cls.methods.values()) + list(mod.funcs.values()):
        own = f.params[1:] if f.cls is not None and "staticmethod" not in f.decorators else f.params
        if len(own) < 2:
            continue
        src = norm(f.node)
        if "%s.args_definition" % own[0] in src and "extension_values" in src:
            cands.append(f)
    named = [f for f in cands if "tag" in f.name]
    return (named or cands or [None])[0]


def filters_mutations(f):
    """Statements of f that mutate self.filters or an entry of it."""
    out = []
    selfn = f.params[0]
    entry_vars = set()
    for n in walk_no_nested(f.node):
        if isinstance(n, ast.For) and "filters" in norm(n.iter):
            if isinstance(n.target, ast.Name):
                entry_vars.add(n.target.id)
            elif isinstance(n.target, ast.Tuple) and len(n.target.elts) == 2 and isinstance(n.target.elts[1], ast.Name) \
                    and isinstance(n.iter, ast.Call) and call_name(n.iter) == "enumerate":
                entry_vars.add(n.target.elts[1].id)  # for index, entry in enumerate(self.filters)
    changed = True
    while changed:
        changed = False
        for n in walk_no_nested(f.node):
            if isinstance(n, ast.Assign) and isinstance(n.value, ast.Name) and n.value.id in entry_vars:
                for t in n.targets:
                    if isinstance(t, ast.Name) and t.id not in entry_vars:
                        entry_vars.add(t.id)
                        changed = True
    for n in walk_no_nested(f.node):
        if isinstance(n, ast.Call) and isinstance(n.func, ast.Attribute) and n.func.attr in MUT and norm(n.func.value) == "%s.filters" % selfn:
            out.append(("list:" + n.func.attr, stmt_of(n), n))
        elif isinstance(n, ast.AugAssign) and norm(n.target) == "%s.filters" % selfn:
            out.append(("list:+=", n, n))
        elif isinstance(n, ast.Assign) and any(norm(t) == "%s.filters" % selfn for t in n.targets):
            out.append(("list:=", n, n))
        elif isinstance(n, (ast.Assign, ast.AugAssign)):
            tg = n.targets if isinstance(n, ast.Assign) else [n.target]
            for t in tg:
                if isinstance(t, ast.Subscript) and isinstance(t.value, ast.Name) and t.value.id in entry_vars:
                    k = t.slice.value if isinstance(t.slice, ast.Constant) else norm(t.slice)
                    out.append(("entry:%s" % k, n, n))
        elif isinstance(n, ast.Delete):
            for t in n.targets:
                if "filters" in norm(t) or (isinstance(t, ast.Subscript) and isinstance(t.value, ast.Name) and t.value.id in entry_vars):
                    out.append(("del", n, n))
    return out, entry_vars


def run(ctx):
    R = FactoryRoles(ctx, "O")
    ctx.explanation = (
        "(O1) every insertion into `filters` and every write of an entry's name in the seven editing operations is "
        "dominated by the existence test that raises FilterAlreadyExists (renames: `new != old and exists(new)`); (O2) "
        "update/replace perform no list-level mutation and no write of `enabled`, and re-wrap when the entry was "
        "disabled; (O3) movefilter removes the matched entry and re-inserts the same object at index-1 under the `up` "
        "edge and index+1 otherwise, with early exits at 0 and len-1, where the index variable counts iterations; (O4) "
        "every mutation is dominated by the name-match edge and the no-match exit returns False/None; (O5) `enabled` "
        "becomes False only together with wrapping and True only together with unwrapping, both under the state guard "
        "of the shared recogniser, and getfilter / is_filter_disabled derive from the same flag / recogniser; (O6) no explicit "
        "failure exit (raise, return False/None) of an editing operation is reachable after one of its mutations.")
    ctx.not_decided = "step-by-step equivalence with a reference list model over all operation sequences (behavioural)."
    m = R.m

    def match_fact(f, entry_vars):
        def pred(fc):
            e, pol = fact_atom(fc)
            cp = cmp_parts(e)
            if cp and cp[1] in ("Eq", "NotEq"):
                sides = [norm(cp[0]), norm(cp[2])]
                if any(s.endswith("['name']") and s.split("[")[0] in entry_vars for s in sides):
                    return (cp[1] == "Eq") == pol
            # `if not filter_def: return False` after a search loop
            if isinstance(e, ast.Name) and e.id in entry_vars and pol is True:
                return True
            return False
        return pred

    # ---- O1 -----------------------------------------------------------------------
    ctx.rule("O1", "insertions and name writes are dominated by the existence test raising FilterAlreadyExists")
    if not report_ops(ctx, R, ("O1",)):
        n1 = 0
        for op in OPS:
            f = m[op]
            cfg = ctx.cfg(f)
            muts, ev = filters_mutations(f)
            for kind, st, node in muts:
                if kind in ("list:+=", "list:append", "list:extend") or kind == "entry:name":
                    n1 += 1

                    def unique(fc, kind=kind):
                        c, pol = fact_call(fc)
                        if c is not None and call_name(c) == "filter_exists":
                            return pol is False
                        e, p2 = fact_atom(fc)
                        cp = cmp_parts(e)
                        if kind == "entry:name" and cp and cp[1] in ("Eq", "NotEq") and "name" in norm(cp[0]) and "name" in norm(cp[2]):
                            return (cp[1] == "Eq") == p2  # new == old: renaming onto itself
                        return False
                    raises = [r for r in walk_no_nested(f.node) if isinstance(r, ast.Raise) and raise_name(r) == "FilterAlreadyExists"]
                    if raises and all(cfg.guarded(x, unique) for x in cfg.nodes_for(st)):
                        ctx.holds("O1", "%s: %s after the uniqueness test" % (f.qualname, norm(st)[:50]))
                    else:
                        ctx.violation("O1", f, "unguarded:%s" % kind, "%s can execute `%s` without the name having been tested for uniqueness"
                                      % (f.qualname, norm(st)[:50]), node=st,
                                      witness="two filters with the same name; getfilter/removefilter then address only the first")
        ctx.need("O1", "insertions / renames", n1, 3)
        # the uniqueness test looks at the list as it is now: nothing it reads is a copy that an edit could leave behind
        fe = m["filter_exists"]
        fsn = fe.params[0]
        stale = [a for a in walk_no_nested(fe.node) if isinstance(a, ast.Attribute) and isinstance(a.value, ast.Name) and a.value.id == fsn
                 and a.attr != "filters" and a.attr not in R.m and not isinstance(getattr(a, "_parent", None), ast.Call)]
        reads_list = any(isinstance(a, ast.Attribute) and a.attr == "filters" for a in walk_no_nested(fe.node))
        if stale:
            ctx.violation("O1", fe, "uniqueness-from-cache:%s" % stale[0].attr, "filter_exists answers from self.%s, a copy of the names kept beside the "
                          "list: a rename or a remove followed by an add leaves it out of date" % stale[0].attr, node=stale[0],
                          witness="add a, add b, remove a, add b: two filters named b")
        elif reads_list:
            ctx.holds("O1", "filter_exists reads the filter list itself")
        else:
            ctx.violation("O1", fe, "uniqueness-not-from-list", "filter_exists does not read the filter list", node=fe.node)
        # the name tested for uniqueness is the (normalised) name that is stored
        for op in ("addfilter", "updatefilter", "replacefilter"):
            f = m[op]
            cfg = ctx.cfg(f)
            stored = []
            for st in walk_no_nested(f.node):
                if isinstance(st, ast.Assign) and any(isinstance(t, ast.Subscript) and const_value(ctx.program, f, t.slice) == "name" for t in st.targets):
                    stored.append((st, st.value))
                if isinstance(st, ast.AugAssign) and "filters" in norm(st.target):
                    for d in ast.walk(st.value):
                        if isinstance(d, ast.Dict):
                            for k, v in zip(d.keys, d.values):
                                if k is not None and const_value(ctx.program, f, k) == "name":
                                    stored.append((st, v))
            tests = [c for c in walk_no_nested(f.node) if isinstance(c, ast.Call) and call_name(c) == "filter_exists" and c.args]
            for st, v in stored:
                if not isinstance(v, ast.Name):
                    ctx.violation("O1", f, "stored-name-computed", "%s stores the name %s, which is not the variable tested for uniqueness" % (f.qualname, norm(v)),
                                  node=st, witness="a name given as bytes is tested undecoded but stored decoded: the collision with an existing filter goes unnoticed")
                    continue
                same = [c for c in tests if isinstance(c.args[0], ast.Name) and c.args[0].id == v.id]
                # no re-binding of that variable between the test and the store
                rebinds = [a for a in walk_no_nested(f.node) if isinstance(a, ast.Assign) and any(isinstance(t, ast.Name) and t.id == v.id for t in a.targets)]
                late = [a for a in rebinds for c in same if a.lineno > c.lineno and a.lineno <= st.lineno]
                norm_calls = [a for a in rebinds if isinstance(a.value, ast.Call) and "unicode" in (call_name(a.value) or "")]
                if same and not late and (norm_calls or v.id not in f.params):
                    ctx.holds("O1", "%s: `%s` is normalised, tested for uniqueness and stored" % (f.qualname, v.id))
                else:
                    ctx.violation("O1", f, "tested-name-differs", "%s tests %s for uniqueness but stores `%s`%s" % (
                        f.qualname, [norm(c.args[0]) for c in tests], v.id, " (re-bound in between)" if late else ""), node=st,
                        witness="a name given as bytes is tested undecoded but stored decoded: two filters end up with the same name")
        # FilterAlreadyExists only for an operation on an existing filter
        for op in ("updatefilter", "replacefilter"):
            f = m[op]
            cfg = ctx.cfg(f)
            _, ev = filters_mutations(f)
            pred = match_fact(f, ev)
            for r in walk_no_nested(f.node):
                if isinstance(r, ast.Raise) and raise_name(r) == "FilterAlreadyExists":
                    if all(cfg.guarded(x, pred) for x in cfg.nodes_for(r)):
                        ctx.holds("O4", "%s: FilterAlreadyExists only after the filter to edit was found" % f.qualname)
                    else:
                        ctx.violation("O4", f, "raise-before-lookup", "%s can raise FilterAlreadyExists although the filter to edit does not exist "
                                      "(unknown names must yield False)" % f.qualname, node=r,
                                      witness="replacefilter('nosuch', content, newname='existing') raises instead of returning False")

    o2(ctx, R)

    # ---- O3 -----------------------------------------------------------------------
    ctx.rule("O3", "movefilter: remove + insert of the same object at index-1 (up) / index+1 (down); early exits at 0 and len-1")
    if report_ops(ctx, R, ("O3",)):
        _o4(ctx, R, match_fact)
        _o6(ctx, R)
        o5(ctx, R)
        return
    f = m["movefilter"]
    cfg = ctx.cfg(f)
    dirp = f.params[2] if len(f.params) > 2 else None
    loops = [lp for lp in walk_no_nested(f.node) if isinstance(lp, ast.For) and "filters" in norm(lp.iter)]
    if len(loops) != 1 or dirp is None:
        raise AnalysisError("O3", "movefilter shape not recognised")
    lp = loops[0]
    ev = lp.target.id if isinstance(lp.target, ast.Name) else None
    if ev is None and isinstance(lp.target, ast.Tuple) and len(lp.target.elts) == 2 and isinstance(lp.target.elts[1], ast.Name) \
            and isinstance(lp.iter, ast.Call) and call_name(lp.iter) == "enumerate":
        ev = lp.target.elts[1].id
    inserts = [c for c in walk_no_nested(f.node) if isinstance(c, ast.Call) and call_name(c) == "insert" and "filters" in norm(c.func.value)]
    removes = [c for c in walk_no_nested(f.node) if isinstance(c, ast.Call) and call_name(c) == "remove" and "filters" in norm(c.func.value)]
    if not inserts and not removes and _o3_swap(ctx, R, f, cfg, lp, dirp):
        inserts = []
    elif len(_insert_sites(f, inserts)) != 2:
        raise AnalysisError("O3", "movefilter: expected two insert sites (up / down), found %d" % len(_insert_sites(f, inserts)))
    if inserts:
        _o3_remove_insert(ctx, R, f, cfg, lp, dirp, ev, inserts, removes)
    _o4(ctx, R, match_fact)
    _o6(ctx, R)
    o5(ctx, R)


def _o3_swap(ctx, R, f, cfg, lp, dirp):
    """movefilter written as an in-place swap of neighbours: filters[i], filters[j] = filters[j], filters[i] with j = i -/+ 1."""
    swaps = []
    for st in walk_no_nested(f.node):
        if isinstance(st, ast.Assign) and len(st.targets) == 1 and isinstance(st.targets[0], ast.Tuple) and isinstance(st.value, ast.Tuple) \
                and len(st.targets[0].elts) == 2 and len(st.value.elts) == 2 and all(
                    isinstance(t, ast.Subscript) and "filters" in norm(t.value) for t in st.targets[0].elts):
            swaps.append(st)
    # the same exchange written as two stores:  filters[i] = filters[j]; filters[j] = <entry>
    pairs = []
    for blk in walk_no_nested(f.node):
        for fld in ("body", "orelse", "finalbody"):
            lst = getattr(blk, fld, None)
            if not isinstance(lst, list):
                continue
            for a, b in zip(lst, lst[1:]):
                if isinstance(a, ast.Assign) and isinstance(b, ast.Assign) and len(a.targets) == 1 and len(b.targets) == 1 \
                        and all(isinstance(t, ast.Subscript) and "filters" in norm(t.value) for t in (a.targets[0], b.targets[0])) \
                        and isinstance(a.value, ast.Subscript) and norm(a.value) == norm(b.targets[0]):
                    pairs.append((a, b))
    for a, b in pairs:
        # normalise to the tuple form so that one analysis serves both spellings
        tup = ast.Assign(targets=[ast.Tuple(elts=[a.targets[0], b.targets[0]], ctx=ast.Store())],
                         value=ast.Tuple(elts=[a.value, b.value], ctx=ast.Load()))
        ast.copy_location(tup, a)
        tup._pair = (a, b)
        swaps.append(tup)
    if not swaps:
        return False
    # index variable = position of the current entry
    idx = ev = None
    if isinstance(lp.iter, ast.Call) and call_name(lp.iter) == "enumerate" and isinstance(lp.target, ast.Tuple) and len(lp.target.elts) == 2:
        idx, ev = [t.id if isinstance(t, ast.Name) else None for t in lp.target.elts]
    if idx is None:
        raise AnalysisError("O3", "swap form: index variable not recognised")
    ctx.holds("O3", "%s is the position of the current entry (enumerate)" % idx)

    def up(pol_want):
        def pred(fc):
            e, pol = fact_atom(fc)
            cp = cmp_parts(e)
            if cp and cp[1] in ("Eq", "NotEq") and norm(cp[0]) == dirp and const_value(ctx.program, f, cp[2]) == "up":
                return ((cp[1] == "Eq") == pol) is pol_want
            return False
        return pred

    def bound(kind):
        def pred(fc):
            e, pol = fact_atom(fc)
            cp = cmp_parts(e)
            if not cp or norm(cp[0]) != idx:
                return False
            if kind == "first":
                if const_value(ctx.program, f, cp[2]) == 0:
                    return (cp[1] == "Eq" and pol is False) or (cp[1] == "NotEq" and pol is True) or (cp[1] == "Gt" and pol is True) \
                        or (cp[1] == "LtE" and pol is False)
                return False
            if norm(cp[2]).replace(" ", "") in ("len(self.filters)-1",):
                return (cp[1] == "Eq" and pol is False) or (cp[1] == "NotEq" and pol is True) or (cp[1] == "Lt" and pol is True) \
                    or (cp[1] == "GtE" and pol is False)
            return False
        return pred

    def offsets(e):
        """{(offset, direction polarity or None)} an index expression can denote relative to idx"""
        if isinstance(e, ast.Name) and e.id == idx:
            return {(0, None)}
        if isinstance(e, ast.BinOp) and isinstance(e.left, ast.Name) and e.left.id == idx and isinstance(e.right, ast.Constant) \
                and isinstance(e.op, (ast.Add, ast.Sub)):
            return {(e.right.value if isinstance(e.op, ast.Add) else -e.right.value, None)}
        if isinstance(e, ast.BinOp) and isinstance(e.left, ast.Name) and e.left.id == idx and isinstance(e.right, ast.Name) and isinstance(e.op, ast.Add):
            # idx + step, with step = -1 if direction == "up" else 1
            defs = [a.value for a in walk_no_nested(f.node) if isinstance(a, ast.Assign) and any(isinstance(t, ast.Name) and t.id == e.right.id for t in a.targets)]
            if len(defs) == 1 and isinstance(defs[0], ast.IfExp):
                c = cmp_parts(defs[0].test)
                if c and c[1] == "Eq" and norm(c[0]) == dirp and const_value(ctx.program, f, c[2]) == "up":
                    bv, ov = const_value(ctx.program, f, defs[0].body), const_value(ctx.program, f, defs[0].orelse)
                    if isinstance(bv, int) and isinstance(ov, int):
                        return {(bv, True), (ov, False)}
            return set()
        if isinstance(e, ast.IfExp):
            c = cmp_parts(e.test)
            if c and c[1] == "Eq" and norm(c[0]) == dirp and const_value(ctx.program, f, c[2]) == "up":
                return {(o, True) for o, _ in offsets(e.body)} | {(o, False) for o, _ in offsets(e.orelse)}
            return set()
        if isinstance(e, ast.Name):
            defs = [a.value for a in walk_no_nested(f.node) if isinstance(a, ast.Assign) and any(isinstance(t, ast.Name) and t.id == e.id for t in a.targets)]
            if len(defs) == 1:
                return offsets(defs[0])
        return set()
    for st in swaps:
        (t0, t1), (v0, v1) = st.targets[0].elts, st.value.elts
        same_obj = (norm(v0) == norm(t1)) and (norm(v1) == norm(t0) or (isinstance(v1, ast.Name) and v1.id == ev and offsets(t0.slice) == {(0, None)}))
        offs = offsets(t1.slice) if offsets(t0.slice) == {(0, None)} else set()
        if not same_obj or not offs:
            ctx.violation("O3", f, "move-distance:%s" % norm(st)[:40], "movefilter's swap %s does not exchange the current entry with a neighbour"
                          % norm(st)[:70], node=st)
            continue
        real = getattr(st, "_pair", (st,))[0]
        nodes = cfg.nodes_for(real)
        st_for_try = real
        in_try = [t for t in walk_no_nested(f.node) if isinstance(t, ast.Try) and any(contains(b, st_for_try) for b in t.body) and any(
            h.type is not None and "IndexError" in norm(h.type) for h in t.handlers)]
        for off, dpol in sorted(offs, key=str):
            # the offset goes with the direction
            want = -1 if (dpol is True or (dpol is None and all(cfg.guarded(x, up(True)) for x in nodes))) else 1
            if off != want:
                ctx.violation("O3", f, "move-distance:%+d" % off, "movefilter exchanges the entry with the one at index%+d when moving %s" % (
                    off, "up" if want == -1 else "down"), node=st, witness="moving a filter skips a position or goes the wrong way")
                continue
            if off == -1:
                ok = all(cfg.guarded(x, lambda fc: bound("first")(fc) or (dpol is not None and up(False)(fc))) for x in nodes)
                if ok:
                    ctx.holds("O3", "up: swap with index-1, guarded by `not at the first position`")
                else:
                    ctx.violation("O3", f, "boundary:first", "a filter at the first position can be moved up: index -1 designates the LAST entry "
                                  "(no IndexError for a negative index)", node=st,
                                  witness="movefilter(first, 'up') exchanges the first and the last filter and returns True")
            else:
                ok = bool(in_try) or all(cfg.guarded(x, lambda fc: bound("last")(fc) or (dpol is not None and up(True)(fc))) for x in nodes)
                if ok:
                    ctx.holds("O3", "down: swap with index+1, %s" % ("out-of-range caught (IndexError)" if in_try else "guarded by `not at the last position`"))
                else:
                    ctx.violation("O3", f, "boundary:last", "a filter at the last position can be moved down", node=st,
                                  witness="movefilter(last, 'down') raises IndexError")
    return True


def _insert_sites(f, inserts):
    """(index expression, statement where that index is decided, insert call): the index may be given directly or through a local
    that each branch (up / down) sets before a shared remove + insert."""
    sites = []
    for c in inserts:
        a = c.args[0] if c.args else None
        if isinstance(a, ast.Name):
            defs = [d for d in walk_no_nested(f.node) if isinstance(d, ast.Assign) and len(d.targets) == 1 and isinstance(d.targets[0], ast.Name)
                    and d.targets[0].id == a.id]
            # the definition of the same block, when there is one (each direction sets and uses its own)
            st = stmt_of(c)
            blk = getattr(st, "_parent", None)
            local = None
            for fld in ("body", "orelse", "finalbody"):
                lst = getattr(blk, fld, None)
                if isinstance(lst, list) and st in lst:
                    before = [d for d in lst[:lst.index(st)] if d in defs]
                    if before:
                        local = before[-1]
            if local is not None:
                sites.append((local.value, None, c))  # judged at the call: the definition sits on the same path
                continue
            if defs:
                sites.extend((d.value, d, c) for d in defs)
                continue
        sites.append((a, None, c))
    return sites


def _o3_remove_insert(ctx, R, f, cfg, lp, dirp, ev, inserts, removes):
    sites = _insert_sites(f, inserts)
    # the index variable counts iterations
    idx = None
    for a, _, c in sites:
        if isinstance(a, ast.BinOp) and isinstance(a.left, ast.Name):
            idx = a.left.id
    enumerate_form = isinstance(lp.iter, ast.Call) and call_name(lp.iter) == "enumerate"
    if idx is None:
        raise AnalysisError("O3", "insert index shape not recognised")
    inits = [a for a in walk_no_nested(f.node) if isinstance(a, ast.Assign) and any(isinstance(t, ast.Name) and t.id == idx for t in a.targets)]
    incs = [a for a in walk_no_nested(lp) if isinstance(a, ast.AugAssign) and isinstance(a.target, ast.Name) and a.target.id == idx]
    def once_per_iteration():
        # every way from the start of an iteration back to the loop head passes exactly one `idx += 1`
        heads = [n for n in cfg.nodes_for(lp) if n.kind == "loop"]
        if not heads or not incs:
            return False
        head = heads[0]
        entry = [m for m, _ in head.succ if m.kind == "fact" and m.info == "for-next"]
        inc_nodes = [x for a in incs for x in cfg.nodes_for(a)]
        if head in cfg.reach(entry, avoid=inc_nodes, exc=False):
            return False  # an iteration can end without counting
        for x in inc_nodes:
            after = [m for m, lab in x.succ if lab != "exc"]
            if any(y in cfg.reach(after, avoid=[head], exc=False) for y in inc_nodes):
                return False  # counted twice
        return True
    counts = (len(inits) == 1 and const_value(ctx.program, f, inits[0].value) == 0 and bool(incs)
              and all(isinstance(a.op, ast.Add) and const_value(ctx.program, f, a.value) == 1 for a in incs)
              and (incs[0] is lp.body[-1] and len(incs) == 1 or once_per_iteration())) or enumerate_form
    if counts:
        ctx.holds("O3", "%s counts the index of the current entry" % idx)
    else:
        ctx.violation("O3", f, "index-not-position", "the variable %s used as insertion index is not the position of the current entry" % idx, node=lp)

    def up(pol_want):
        def pred(fc):
            e, pol = fact_atom(fc)
            cp = cmp_parts(e)
            if cp and cp[1] in ("Eq", "NotEq") and norm(cp[0]) == dirp and const_value(ctx.program, f, cp[2]) == "up":
                return ((cp[1] == "Eq") == pol) is pol_want
            return False
        return pred
    for a, where, c in sites:
        k = None
        if isinstance(a, ast.BinOp) and isinstance(a.left, ast.Name) and a.left.id == idx and isinstance(a.right, ast.Constant):
            k = a.right.value if isinstance(a.op, ast.Add) else (-a.right.value if isinstance(a.op, ast.Sub) else None)
        nodes = cfg.nodes_for(where) if where is not None else cfg.node_containing(c)
        is_up = all(cfg.guarded(x, up(True)) for x in nodes)
        is_down = all(cfg.guarded(x, up(False)) for x in nodes)
        want = -1 if is_up else (1 if is_down else None)
        obj_ok = len(c.args) == 2 and isinstance(c.args[1], ast.Name) and c.args[1].id == ev
        if want is not None and k == want and obj_ok:
            ctx.holds("O3", "%s: insert(%s) on the %s edge" % (f.qualname, norm(a), "up" if is_up else "down"))
        else:
            ctx.violation("O3", f, "move-distance:%s" % norm(a), "movefilter re-inserts at %s on the %s edge (expected index%+d of the same object)"
                          % (norm(a), "up" if is_up else "down" if is_down else "?", want or 0), node=c,
                          witness="moving a filter skips a position or leaves it in place")
        # remove of the same object precedes
        rem = [r for r in removes if any(cfg.path_exists(y, x, exc=False) for x in cfg.node_containing(c) for y in cfg.node_containing(r))
               and len(r.args) == 1 and isinstance(r.args[0], ast.Name) and r.args[0].id == ev]
        if not rem:
            ctx.violation("O3", f, "no-remove-before-insert", "an entry is inserted without having been removed first (duplicated entry)", node=c)
    # early exits

    def bound_fact(kind):
        def pred(fc):
            e, pol = fact_atom(fc)
            cp = cmp_parts(e)
            if not cp or norm(cp[0]) != idx:
                return False
            if kind == "first" and const_value(ctx.program, f, cp[2]) == 0:
                return ((cp[1] == "Eq") == pol) is False
            if kind == "last" and norm(cp[2]).replace(" ", "") in ("len(self.filters)-1",):
                return ((cp[1] == "Eq") == pol) is False
            return False
        return pred
    for a, where, c in sites:
        nodes = cfg.nodes_for(where) if where is not None else cfg.node_containing(c)
        is_up = all(cfg.guarded(x, up(True)) for x in nodes)
        kind = "first" if is_up else "last"
        if all(cfg.guarded(x, bound_fact(kind)) for x in nodes):
            ctx.holds("O3", "%s move guarded by `not at the %s position`" % ("up" if is_up else "down", kind))
        else:
            ctx.violation("O3", f, "boundary:%s" % kind, "a filter at the %s position can be moved %s" % (kind, "up" if is_up else "down"), node=c,
                          witness="moving the first filter up inserts it at index -1 (second to last)")


def _o6(ctx, R):
    """A refused operation changes nothing: no explicit failure exit (raise, return False/None) lies downstream of a mutation."""
    ctx.rule("O6", "refused operations change nothing: no raise / `return False` is reachable after a mutation of the set")
    # the evaluation compares the set left behind by every refused call with the set before it: when it followed the operations this
    # flow rule (one way of writing them: explicit early failure exits) is recorded, not reported
    prev_ = ctx.demote(("O6",), "the evaluation of the editing operations") if ops_eval(ctx, R) is not None else None
    try:
        _o6_flow(ctx, R)
    finally:
        if prev_ is not None:
            ctx.restore(prev_)


def _o6_flow(ctx, R):
    n = 0
    for op in OPS:
        f = R.m[op]
        cfg = ctx.cfg(f)
        muts, ev = filters_mutations(f)
        fails = [x for x in walk_no_nested(f.node) if isinstance(x, ast.Raise) or (
            isinstance(x, ast.Return) and (x.value is None or const_value(ctx.program, f, x.value) in (False, None)))]
        bad = None
        for kind, st, node in muts:
            after = cfg.reach([m_ for x in cfg.nodes_for(st) for m_, _ in x.succ], exc=False) if cfg.nodes_for(st) else set()
            for x in fails:
                if any(y in after for y in cfg.nodes_for(x)):
                    bad = bad or (st, x)
        n += len(fails)
        if bad:
            st, x = bad
            ctx.violation("O6", f, "mutation-before-refusal", "%s executes `%s` and can then still refuse the operation (`%s`): the refused call "
                          "has modified the set" % (f.qualname, norm(st)[:50], norm(x)[:40]), node=st,
                          witness="an update refused with FilterAlreadyExists has already replaced the filter's content")
        else:
            ctx.holds("O6", "%s: %d failure exits, none downstream of its %d mutations" % (f.qualname, len(fails), len(muts)))
    ctx.need("O6", "explicit failure exits in the editing operations", n, 8)


def _o4(ctx, R, match_fact):
    m = R.m
    # ---- O4 -----------------------------------------------------------------------
    ctx.rule("O4", "every mutation is dominated by the name-match edge; the no-match exit returns False/None")
    if report_ops(ctx, R, ("O4", "O1")):
        return
    n4 = 0
    for op in OPS[1:]:
        f = m[op]
        cfg = ctx.cfg(f)
        muts, ev = filters_mutations(f)
        pred = match_fact(f, ev)
        for kind, st, node in muts:
            n4 += 1
            if all(cfg.guarded(x, pred) for x in cfg.nodes_for(st)):
                ctx.holds("O4", "%s: %s under the name match" % (f.qualname, norm(st)[:50]))
            else:
                ctx.violation("O4", f, "unmatched-mutation:%s" % kind, "%s can execute `%s` for an entry whose name was not matched" % (
                    f.qualname, norm(st)[:50]), node=st, witness="an operation on an unknown name modifies another filter")
        # whatever is not a falsy constant is returned on the name-match edge only: an unknown name gets False / None
        rets_ = [r for r in walk_no_nested(f.node) if isinstance(r, ast.Return)]
        truthy = [r for r in rets_ if r.value is not None and const_value(ctx.program, f, r.value) not in (False, None)]
        falsy = [r for r in rets_ if r not in truthy]
        last = f.node.body[-1]
        if truthy and falsy and all(cfg.guarded(x, pred) for r in truthy for x in cfg.nodes_for(r)) and any(
                not cfg.guarded(x, pred) for r in falsy for x in cfg.nodes_for(r)):
            ctx.holds("O4", "%s: every result other than False/None is returned on the name-match edge" % f.qualname)
        elif isinstance(last, ast.Return) and (last.value is None or const_value(ctx.program, f, last.value) in (False, None)):
            ctx.holds("O4", "%s: falls through to `return %s` when nothing matched" % (f.qualname, norm(last.value) if last.value else "None"))
        elif op in ("updatefilter", "replacefilter"):
            # `if not filter_def: return False` form
            early = [r for r in walk_no_nested(f.node) if isinstance(r, ast.Return) and r.value is not None and const_value(ctx.program, f, r.value) is False]
            if early:
                ctx.holds("O4", "%s: returns False when the name is unknown" % f.qualname)
            else:
                ctx.violation("O4", f, "unknown-name-result", "%s does not return False for an unknown name" % f.qualname, node=f.node)
        else:
            ctx.violation("O4", f, "unknown-name-result", "%s does not end with a falsy return for an unknown name" % f.qualname, node=last)
    ctx.need("O4", "mutations in the editing operations", n4, 10)



def o2(ctx, R):
    m = R.m
    # ---- O2 -----------------------------------------------------------------------
    ctx.rule("O2", "update/replace: no list-level mutation, no write of `enabled`; re-wrap when disabled")
    if report_ops(ctx, R, ("O2",)):
        return
    for op in ("updatefilter", "replacefilter"):
        f = m[op]
        cfg = ctx.cfg(f)
        muts, ev = filters_mutations(f)
        bad = [(k, st) for k, st, _ in muts if k.startswith("list:") or k == "del" or k == "entry:enabled"]
        if bad:
            for k, st in bad:
                ctx.violation("O2", f, "not-in-place:%s" % k, "%s modifies the list or the enabled flag: %s" % (f.qualname, norm(st)[:60]), node=st,
                              witness="an updated filter changes position or silently becomes enabled")
        else:
            ctx.holds("O2", "%s edits the entry in place (%s)" % (f.qualname, sorted(k for k, _, _ in muts)))
        # content replaced -> must be re-wrapped if the entry is disabled
        cw = [st for k, st, _ in muts if k == "entry:content"]
        rew = [c for c in walk_no_nested(f.node) if isinstance(c, ast.Call) and call_name(c) == "disablefilter"]

        def was_disabled(fc):
            e, pol = fact_atom(fc)
            return norm(e).endswith("['enabled']") and pol is False
        ok = bool(cw) and bool(rew) and all(all(cfg.guarded(x, was_disabled) for x in cfg.node_containing(c)) for c in rew)
        # ... under the name the entry carries now
        named = [st.value for k, st, _ in muts if k == "entry:name"]
        name_nodes = [x for k, st, _ in muts if k == "entry:name" for x in cfg.nodes_for(st)]
        for c in rew:
            a0 = c.args[0] if c.args else None
            if named and isinstance(a0, ast.Name) and isinstance(named[-1], ast.Name) and a0.id == named[-1].id \
                    and not all(cfg.dominates(name_nodes, x, exc=False) for x in cfg.node_containing(c)):
                ok = False
                ctx.violation("O2", f, "rewrap-before-rename", "%s re-disables the filter as %s before the entry has been given that name" % (
                    f.qualname, norm(a0)), node=c,
                    witness="a disabled filter that is renamed while being updated loses its `if false` wrapper but keeps enabled=False")
            if named and not (isinstance(a0, ast.Name) and isinstance(named[-1], ast.Name) and a0.id == named[-1].id):
                ok = False
                ctx.violation("O2", f, "rewrap-wrong-name", "%s re-disables the filter as %s, but the entry is now called %s" % (
                    f.qualname, norm(a0) if a0 is not None else "?", norm(named[-1])), node=c,
                    witness="a disabled filter that is renamed while being replaced loses its `if false` wrapper but keeps enabled=False")
        # every normal exit after the content write passes the enabled test
        tests = [p for fc in cfg.facts(was_disabled) for p, _ in fc.pred]
        for st in cw:
            for x in cfg.nodes_for(st):
                if cfg.exit in cfg.reach(x, avoid=tests, exc=False):
                    ok = False
        if ok:
            ctx.holds("O2", "%s re-wraps the new content when the entry is disabled" % f.qualname)
        else:
            ctx.violation("O2", f, "no-rewrap", "%s replaces the content of a disabled filter without wrapping it again" % f.qualname,
                          node=cw[0] if cw else f.node, witness="a disabled filter becomes active in the rendered script while `enabled` stays False")



def o5(ctx, R):
    m = R.m
    # command objects hold their children / arguments in containers: a shallow copy shares them with the original
    for f in R.mod.all_funcs():
        for c in walk_no_nested(f.node):
            if isinstance(c, ast.Call) and ((isinstance(c.func, ast.Attribute) and c.func.attr == "copy" and norm(c.func.value) == "copy")
                                            or (isinstance(c.func, ast.Name) and c.func.id == "copy" and "copy" in getattr(R.mod, "imports", {}))):
                ctx.violation("O5", f, "shallow-copy-of-command", "%s makes a shallow copy (%s): the copy shares its children and argument containers "
                              "with the original, so filling one fills them all" % (f.qualname, norm(c)[:40]), node=c,
                              witness="disable a, disable b: getfilter('b') returns a's content; a filter disabled twice is rendered twice")
    # ---- O5 -----------------------------------------------------------------------
    ctx.rule("O5", "enabled=False only with wrapping, True only with unwrapping, both under the recogniser's state guard; getters agree")
    evaluated = report_ops(ctx, R, ("O5",))
    rec = R.isdisabled.name
    for op, flagval, what in ((("disablefilter", False, "wrap"), ("enablefilter", True, "unwrap")) if not evaluated else ()):
        f = m[op]
        cfg = ctx.cfg(f)
        muts, ev = filters_mutations(f)
        flags = [st for k, st, _ in muts if k == "entry:enabled"]
        conts = [st for k, st, _ in muts if k == "entry:content"]
        if len(flags) != 1 or len(conts) != 1:
            ctx.violation("O5", f, "pairing-sites", "%s: expected one write of `enabled` and one of `content`, found %d/%d" % (
                f.qualname, len(flags), len(conts)), node=f.node)
            continue
        fl, co = flags[0], conts[0]
        v = const_value(ctx.program, f, fl.value)
        if v is not flagval:
            ctx.violation("O5", f, "flag-value", "%s sets enabled=%s" % (f.qualname, norm(fl.value)), node=fl)
        same_block = fl._parent is co._parent
        if what == "wrap":
            # content = <if-false wrapper>, which received the old content as child
            wrapper = co.value.id if isinstance(co.value, ast.Name) else None
            added = [c for c in walk_no_nested(f.node) if isinstance(c, ast.Call) and call_name(c) == "addchild" and isinstance(c.func.value, ast.Name)
                     and c.func.value.id == wrapper and c.args and norm(c.args[0]).endswith("['content']")]
            built = [a for a in walk_no_nested(f.node) if isinstance(a, ast.Assign) and isinstance(a.value, ast.Call) and call_name(a.value) == "get_command_instance"
                     and a.value.args and const_value(ctx.program, f, a.value.args[0]) in ("if", "false")]
            shape_ok = wrapper is not None and len(added) == 1 and len(built) >= 2
        else:
            shape_ok = norm(co.value).endswith("['content'].children[0]")
        if same_block and shape_ok:
            ctx.holds("O5", "%s: enabled=%s together with %s" % (f.qualname, flagval, what))
        else:
            ctx.violation("O5", f, "pairing", "%s does not %s the content together with setting enabled=%s" % (f.qualname, what, flagval), node=fl,
                          witness="flag and rendering disagree")

        def state_guard(fc, want=(what == "unwrap")):
            c, pol = fact_call(fc)
            return c is not None and call_name(c) == rec and pol is want
        if all(cfg.guarded(x, state_guard) for st in (fl, co) for x in cfg.nodes_for(st)):
            ctx.holds("O5", "%s: guarded by `%s the filter is disabled`" % (f.qualname, "" if what == "unwrap" else "not "))
        else:
            ctx.violation("O5", f, "no-state-guard", "%s %ss the content without testing whether the filter is %s disabled" % (
                f.qualname, what, "already" if what == "wrap" else "actually"), node=co,
                witness="disable, disable, enable leaves enabled=True with a still wrapped content")
    # other writers of `enabled`
    for name, f in m.items():
        if name in ("disablefilter", "enablefilter"):
            continue
        muts, ev = filters_mutations(f)
        for k, st, _ in muts:
            if k == "entry:enabled":
                ctx.violation("O5", f, "foreign-enabled-write", "`enabled` is written in %s" % f.qualname, node=st)
    if evaluated:
        return
    # getters
    g = m["getfilter"]
    src = norm(g.node)
    if "['enabled']" in src and ".children[0]" in src:
        ctx.holds("O5", "getfilter unwraps by the enabled flag")
    else:
        ctx.violation("O5", g, "getfilter-unwrap", "getfilter does not return the filter's own content for a disabled filter", node=g.node)
    d = m["is_filter_disabled"]
    if any(isinstance(c, ast.Call) and call_name(c) == rec for c in walk_no_nested(d.node)):
        ctx.holds("O5", "is_filter_disabled uses the shared recogniser")
    else:
        ctx.violation("O5", d, "disabled-recogniser", "is_filter_disabled does not use the shared recogniser", node=d.node)
    # recogniser shape == what disablefilter builds: IfCommand whose test is FalseCommand
    rsrc = norm(R.isdisabled.node)
    if "IfCommand" in rsrc and "FalseCommand" in rsrc and "['test']" in rsrc:
        ctx.holds("O5", "recogniser: IfCommand with a FalseCommand test (what disablefilter constructs)")
    else:
        ctx.violation("O5", R.isdisabled, "recogniser-shape", "the disabled-recogniser does not test for `if false`", node=R.isdisabled.node)


def report_ops(ctx, R, rules):
    """Report what the evaluation over the three-filter set found for the given rules.  False when the evaluation could not be
    carried out (the caller then applies its syntactic rule)."""
    ev = ops_eval(ctx, R)
    if ev is None:
        return False
    done = getattr(ctx, "_ops_reported", set())
    for rule in rules:
        if rule in done:
            continue
        done.add(rule)
        mine = [x for x in ev if x[0] == rule]
        for _, key, msg, wit in mine:
            op = key.split(":")[0]
            ctx.violation(rule, R.m[op], "model:%s" % key, msg, node=R.m[op].node, witness=wit)
        if not mine:
            ctx.holds(rule, "editing operations evaluated over the set {A, B (disabled), C} for every name and argument of interest: "
                            "results and resulting sets equal those of an ordered, uniquely named list (%s)" % rule)
    ctx._ops_reported = done
    return True


# ================================================================================ evaluation over a three-filter set
def ops_eval(ctx, R):
    """Finite-domain evaluation of the editing operations over the set  A (enabled), B (disabled: `if false { B0 }`), C (enabled):
    every operation is interpreted, statement by statement, for every name (A, B, C, an unknown one) and argument of interest,
    and what it returns / raises and the set it leaves are compared with the reference behaviour of an ordered, uniquely named list
    whose `enabled` flag goes with the `if false` wrapping.  Returns a list of (rule, key, message) discrepancies, or None when the
    interpreter cannot follow one of the operations (the syntactic rules then decide)."""
    cached = getattr(ctx, "_ops_eval", "unset")
    if cached != "unset":
        return cached
    from sa import fd
    prog = ctx.program
    m = R.m
    selfp = m["movefilter"].params[0]
    counter = [0]

    def cmd(cls, tag, **kw):
        return fd.Rec(cls, tag=tag, children=fd.MList(kw.get("children", [])), arguments=fd.MDict(kw.get("arguments", {})))

    def fresh():
        A0, B0, C0 = cmd("IfCommand", "A0", arguments={"test": cmd("HeaderCommand", "tA")}), \
            cmd("IfCommand", "B0", arguments={"test": cmd("HeaderCommand", "tB")}), cmd("IfCommand", "C0", arguments={"test": cmd("HeaderCommand", "tC")})
        W = cmd("IfCommand", "W", children=[B0], arguments={"test": cmd("FalseCommand", "false")})
        return fd.MList([fd.MDict(name="A", description="", content=A0, enabled=True),
                         fd.MDict(name="B", description="dB", content=W, enabled=False),
                         fd.MDict(name="C", description="", content=C0, enabled=True)])

    def shape(c):
        if isinstance(c, fd.Rec):
            t = c.fields.get("arguments", {}).get("test")
            if c.cls == "IfCommand" and isinstance(t, fd.Rec) and t.cls == "FalseCommand":
                ch = list(c.fields.get("children", []))
                return ("wrapped", tuple(shape(x) for x in ch))
            return ("plain", c.fields.get("tag"))
        return ("?", repr(c))

    def snapshot(fl):
        if not isinstance(fl, fd.Const) or not isinstance(fl.v, list):
            return None
        out = []
        for e_ in fl.v:
            if not isinstance(e_, dict):
                return None
            out.append((e_.get("name"), e_.get("enabled"), shape(e_.get("content")), e_.get("description")))
        return out

    def class_names(e):
        return [x.attr if isinstance(x, ast.Attribute) else (x.id if isinstance(x, ast.Name) else None)
                for x in (e.elts if isinstance(e, ast.Tuple) else [e])]

    def oracle(interp, e, name, recv, args, kw, st):
        if name == "isinstance" and len(e.args) == 2 and args and isinstance(args[0], fd.Const) and isinstance(args[0].v, fd.Rec):
            names = class_names(e.args[1])
            if None not in names:
                rc = prog.cls(args[0].v.cls)
                mro = [c.name for c in prog.mro(rc)] if rc is not None else [args[0].v.cls]
                return [(fd.Const(any(n in mro for n in names)), None)]
        if name == "get_command_instance" and args and isinstance(args[0], fd.Const) and isinstance(args[0].v, str):
            counter[0] += 1
            return [(fd.Const(cmd(args[0].v.capitalize() + "Command", "new%d" % counter[0])), None)]
        if isinstance(recv, fd.Const) and isinstance(recv.v, fd.Rec):
            if name == "check_next_arg" and len(args) >= 2 and isinstance(args[0], fd.Const):
                recv.v.fields["arguments"][args[0].v] = args[1].v if isinstance(args[1], fd.Const) else args[1]
                return [(fd.Const(True), None)]
            if name == "addchild" and args:
                recv.v.fields["children"].append(args[0].v if isinstance(args[0], fd.Const) else args[0])
                return [(fd.Const(True), None)]
        if name and name.startswith("self."):
            mn = name[5:]
            if R.create is not None and mn == R.create.name:
                counter[0] += 1
                # what the builder was handed, in its own parameter order (conditions, actions, match type)
                bound = dict(zip(R.create.params[1:], args))
                bound.update({k_: v_ for k_, v_ in kw.items() if k_})
                keep["created_with"] = {k_: (v_.v if isinstance(v_, fd.Const) else "?") for k_, v_ in bound.items()}
                # building a filter registers the extensions it needs: a visible effect on the set
                rq = st.env.get("%s.requires" % selfp)
                if isinstance(rq, fd.Const) and isinstance(rq.v, list):
                    rq.v.append("ext")
                return [(fd.Const(cmd("IfCommand", "NEW", arguments={"test": cmd("AnyofCommand", "tNEW")})), None)]
            if mn in m:
                return fd.Inline(m[mn])
        return None

    keep = {}

    def run(op, *argv, **kwv):
        f = m[op]
        own = f.params[1:]
        start = kwv.pop("_after", None)
        kwv_raw = kwv.pop("_raw", False)
        env = {"%s.filters" % selfp: start if start is not None else fd.Const(fresh()), "%s.requires" % selfp: fd.Const(fd.MList())}
        for p_, v in zip(own, argv):
            env[p_] = v if isinstance(v, (fd.Const, fd.Unknown)) else fd.Const(v)
        for k_, v in kwv.items():
            env[k_] = v if isinstance(v, (fd.Const, fd.Unknown)) else fd.Const(v)
        for p_ in own:
            if p_ not in env:
                d = f.defaults().get(p_)
                cv = const_value(prog, f, d) if d is not None else TOP
                env[p_] = fd.Const(cv) if cv is not TOP else fd.Unknown(p_)
        it = fd.Interp(f.node, R.cls.name, oracle, loop_unroll=5, max_depth=4)
        paths = it.run(env)
        if len(paths) != 1:
            return None
        p = paths[0]
        snap = snapshot(p.env.get("%s.filters" % selfp))
        if snap is None:
            return None
        keep["last"] = p.env.get("%s.filters" % selfp)
        rq_ = p.env.get("%s.requires" % selfp)
        snap = snap + [("<requires>", tuple(rq_.v) if isinstance(rq_, fd.Const) and isinstance(rq_.v, list) else "?", None, None)]
        if p.kind == "raise":
            return ("raise", p.value if isinstance(p.value, str) else getattr(p.value, "name", str(p.value)), snap)
        if kwv_raw:
            v_ = p.value
            return ("return", shape(v_.v) if isinstance(v_, fd.Const) and isinstance(v_.v, fd.Rec) else (v_.v if isinstance(v_, fd.Const) else None), snap)
        t = fd.truth(p.value)
        if t is None:
            return None
        return ("return", t, snap)

    base0 = snapshot(fd.Const(fresh()))
    A, B, C = base0
    NOREQ, REQ = ("<requires>", (), None, None), ("<requires>", ("ext",), None, None)
    base = base0 + [NOREQ]
    ANY = object()
    NEW = ("plain", "NEW")
    problems = []

    def expect(rule, op, desc, got, want_kind, want_val, want_set, witness):
        if got is None:
            raise _Undecided()
        if not want_set or want_set[-1][0] != "<requires>":
            # successful update / add registers what the new content needs; anything else leaves the requirements alone
            built = op in ("updatefilter", "addfilter") and want_kind == "return" and want_val is not False
            want_set = list(want_set) + [REQ if built else NOREQ]
        kind, val, snap = got
        if want_kind == "return" and want_val is ANY and kind == "return":
            val = want_val
        if (kind, val if kind == "return" else "x") != (want_kind, want_val if want_kind == "return" else "x") or snap != want_set:
            def names(s_):
                return [(n, "on" if en else "off", sh[0]) if n != "<requires>" else ("requires", en) for n, en, sh, _ in s_]
            problems.append((rule, "%s:%s" % (op, desc), "%s(%s) %s and leaves %s; an ordered, uniquely named filter list %s and holds %s"
                             % (op, desc, ("returns %r" % val) if kind == "return" else ("raises %s" % val), names(snap),
                                ("returns %r" % want_val) if want_kind == "return" else "raises", names(want_set)), witness))

    class _Undecided(Exception):
        pass
    old_heap = fd.State.heap
    fd.State.heap = True
    try:
        # ---- movefilter
        for nm, d, res, st_ in (("A", "up", False, base), ("A", "down", True, [B, A, C]), ("B", "up", True, [B, A, C]), ("B", "down", True, [A, C, B]),
                                ("C", "up", True, [A, C, B]), ("C", "down", False, base), ("Z", "up", False, base), ("Z", "down", False, base)):
            expect("O4" if nm == "Z" else "O3", "movefilter", "%r, %r" % (nm, d), run("movefilter", nm, d), "return", res, st_,
                   "moving a filter skips a position, wraps around the end of the list or leaves it in place")
        # ---- removefilter
        for nm, res, st_ in (("A", True, [B, C]), ("B", True, [A, C]), ("C", True, [A, B]), ("Z", False, base), ("", False, base)):
            expect("O4", "removefilter", repr(nm), run("removefilter", nm), "return", res, st_, "an operation on an unknown name modifies another filter")
        # ---- disable / enable
        A_off = ("A", False, ("wrapped", (A[2],)), A[3])
        B_on = ("B", True, ("plain", "B0"), B[3])
        for nm, res, st_ in (("A", True, [A_off, B, C]), ("B", False, base), ("Z", False, base)):
            expect("O4" if nm == "Z" else "O5", "disablefilter", repr(nm), run("disablefilter", nm), "return", res, st_,
                   "flag and rendering disagree, or a filter is wrapped twice")
        for nm, res, st_ in (("B", True, [A, B_on, C]), ("A", False, base), ("Z", False, base)):
            expect("O4" if nm == "Z" else "O5", "enablefilter", repr(nm), run("enablefilter", nm), "return", res, st_,
                   "flag and rendering disagree, or an enabled filter loses its body")
        # two filters disabled one after the other: each wrapper holds its own filter, and only that one
        r1 = run("disablefilter", "A")
        C_off = ("C", False, ("wrapped", (C[2],)), C[3])
        if r1 is None:
            raise _Undecided()
        expect("O5", "disablefilter", "'A' then 'C'", run("disablefilter", "C", _after=keep["last"]), "return", True, [A_off, B, C_off],
               "disable a, disable c: the second wrapper also holds (or replaces) the first filter")
        r1 = run("disablefilter", "A")
        if r1 is None:
            raise _Undecided()
        expect("O5", "enablefilter", "'A' after disablefilter('A')", run("enablefilter", "A", _after=keep["last"]), "return", True, base,
               "a filter disabled and enabled again is not what it was")
        # ---- addfilter: appended at the end, enabled; an existing name (given as text or as UTF-8 bytes) is refused
        D = ("D", True, ("plain", "NEW"), None)
        expect("O1", "addfilter", "'D'", run("addfilter", "D", fd.Unknown("conds"), fd.Unknown("acts")), "return", ANY, [A, B, C, D],
               "a new filter is not appended at the end, enabled")
        for nm in ("A", "B", b"A", b"C"):
            expect("O1", "addfilter", repr(nm), run("addfilter", nm, fd.Unknown("conds"), fd.Unknown("acts")), "raise", "FilterAlreadyExists", base,
                   "two filters with the same name; getfilter/removefilter then address only the first")
        # ---- getters
        for nm, want in (("A", ("plain", "A0")), ("B", ("plain", "B0")), ("C", ("plain", "C0")), ("Z", None)):
            expect("O5", "getfilter", repr(nm), run("getfilter", nm, _raw=True), "return", want, base,
                   "getfilter hands out the `if false` wrapper (or nothing) for a disabled filter")
        for nm, want in (("A", False), ("B", True), ("C", False)):
            expect("O5", "is_filter_disabled", repr(nm), run("is_filter_disabled", nm), "return", want, base, "the state reported differs from the rendering")
        # ---- a filter whose content is not an `if` (a bare action loaded from a script, or put there by replacefilter): the guard that
        # disablefilter adds must be recognised as a guard whatever it holds
        K = fd.Const(fd.MList([fd.MDict(name="K", description="", content=cmd("KeepCommand", "K0"), enabled=True)]))
        r1 = run("disablefilter", "K", _after=K)
        if r1 is None:
            raise _Undecided()
        K_off = ("K", False, ("wrapped", (("plain", "K0"),)), "")
        if (r1[0], r1[1], r1[2][:1]) != ("return", True, [K_off]):
            problems.append(("O5", "disablefilter:bare-action", "disablefilter('K') on a filter whose content is the bare action `keep;` %s and leaves %r; "
                             "expected True and the filter wrapped in `if false`, flag off" % (
                                 ("returns %r" % r1[1]) if r1[0] == "return" else "raises", r1[2][:1]), "flag and rendering disagree"))
        else:
            kept_ = keep["last"]
            r2 = run("is_filter_disabled", "K", _after=kept_)
            r3 = run("disablefilter", "K", _after=kept_)
            if r2 is None or r3 is None:
                raise _Undecided()
            if r2[:2] != ("return", True) or (r3[0], r3[1], r3[2][:1]) != ("return", False, [K_off]):
                problems.append(("O5", "disablefilter:bare-action-twice", "after disablefilter('K') on a filter whose content is the bare action `keep;`, "
                                 "is_filter_disabled('K') answers %r and a second disablefilter('K') answers %r leaving %r; expected True, then False "
                                 "with one `if false` wrapper" % (r2[1], r3[1], r3[2][:1]),
                                 "the guard around a filter that is not an `if` is not recognised: the filter is wrapped twice and enablefilter "
                                 "leaves it disabled in the rendering"))
        # ---- the caller's match type reaches the builder (anyof is only the default)
        for op, argv in (("addfilter", ("D", fd.Unknown("conds"), fd.Unknown("acts"), "allof")),
                         ("updatefilter", ("A", "A", fd.Unknown("conds"), fd.Unknown("acts"), "allof")),
                         ("updatefilter", ("B", "B2", fd.Unknown("conds"), fd.Unknown("acts"), "allof"))):
            f_ = m[op]
            mtp = [p_ for p_ in f_.params if "matchtype" in p_.lower() or p_ == "match_type"]
            cmt = [p_ for p_ in (R.create.params if R.create is not None else []) if "matchtype" in p_.lower() or p_ == "match_type"]
            # (the arguments are given by position, in the documented order: ..., conditions, actions, match type)
            if len(mtp) != 1 or len(cmt) != 1:
                continue
            keep.pop("created_with", None)
            got_ = run(op, *argv)
            if got_ is None:
                raise _Undecided()
            cw = keep.get("created_with") or {}
            if cw and cw.get(cmt[0], "anyof") != "allof":
                problems.append(("O2" if op == "updatefilter" else "O1", "%s:matchtype" % op, "%s(..., %s='allof') builds the filter with %s=%r: "
                                 "the caller's match type does not reach the builder" % (op, mtp[0], cmt[0], cw.get(cmt[0], "<default>")),
                                 "an `allof` filter silently becomes `anyof` when it is updated"))
        # ---- update / replace
        newcmd = fd.Rec("IfCommand", tag="NEW", children=fd.MList(), arguments=fd.MDict({"test": fd.Rec("HeaderCommand", tag="tN", children=fd.MList(), arguments=fd.MDict())}))
        for op, extra in (("updatefilter", lambda old, new: (old, new, fd.Unknown("conds"), fd.Unknown("acts"))),
                          ("replacefilter", lambda old, new: (old, fd.Const(newcmd), new))):
            expect("O2", op, "'A' -> 'A'", run(op, *extra("A", "A")), "return", True, [("A", True, NEW, A[3]), B, C],
                   "an updated filter changes position, name or state")
            expect("O2", op, "'A' -> 'A2'", run(op, *extra("A", "A2")), "return", True, [("A2", True, NEW, A[3]), B, C],
                   "an updated filter changes position, name or state")
            expect("O2", op, "'B' -> 'B'", run(op, *extra("B", "B")), "return", True, [A, ("B", False, ("wrapped", (NEW,)), B[3]), C],
                   "a disabled filter becomes active in the rendered script while its flag still says disabled")
            expect("O2", op, "'B' -> 'B2'", run(op, *extra("B", "B2")), "return", True, [A, ("B2", False, ("wrapped", (NEW,)), B[3]), C],
                   "a disabled filter that is renamed while being updated loses its `if false` wrapper but keeps enabled=False")
            expect("O1", op, "'A' -> 'C'", run(op, *extra("A", "C")), "raise", "FilterAlreadyExists", base,
                   "two filters with the same name; or a refused rename that has already changed the set")
            expect("O1", op, "'B' -> 'A'", run(op, *extra("B", "A")), "raise", "FilterAlreadyExists", base,
                   "two filters with the same name; or a refused rename that has already changed the set")
            expect("O1", op, "b'A' -> b'C'", run(op, *extra(b"A", b"C")), "raise", "FilterAlreadyExists", base,
                   "a name given as bytes is tested undecoded but stored decoded: two filters end up with the same name")
            expect("O4", op, "'Z' -> 'Z2'", run(op, *extra("Z", "Z2")), "return", False, base, "an operation on an unknown name modifies another filter")
            expect("O4", op, "'Z' -> 'A'", run(op, *extra("Z", "A")), "return", False, base,
                   "replacefilter('nosuch', content, newname='existing') raises instead of returning False")
    except _Undecided:
        problems = None
    except fd.TooManyPaths:
        problems = None
    except AnalysisError:
        raise
    except Exception:
        problems = None
    finally:
        fd.State.heap = old_heap
    ctx._ops_eval = problems
    return problems
