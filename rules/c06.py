"""C06 - Every script the filter factory generates is valid and self-sufficient.

F1 require first / complete / append-only, F2 command-level extensions,
F3 tag-level extension derivation, F4 unchecked tag sites are paired with a
require, F5a values are quoted where the serializer does not, F5b the quoting
escapes, F6 no list value used as a dictionary key.
"""
import ast

from sa.model import mangle, AnalysisError, walk_no_nested, norm, call_name, stmt_of
from sa.util import fact_atom, cmp_parts, const_value, bound_arg, contains
from sa.consteval import TOP
from .c12 import FactoryRoles
from .proles import ParserRoles
from .c07 import tag_bindings, bound_arg_fn
from .c13 import reaching_command, bounded_names


def run(ctx):
    R = FactoryRoles(ctx, "F")
    PR = ParserRoles(ctx, "F")
    prog = ctx.program
    ctx.explanation = (
        "(F1) the renderer writes the require command, built from the full `requires` list, before the first filter, "
        "and `requires` only ever grows (disabled or removed filters stay covered); (F2) for every construction site of "
        "a command in the factory whose command has an extension in the tables (or whose name is not constant) the "
        "extension is required on every path from the site to the end of the builder; (F3) the tag->extension "
        "derivation used by the factory is table-driven and covers both `extension` and `extension_values` bindings; "
        "(F4) every argument check made with check_extension=False on a tag is preceded by that derivation for the "
        "same command and tag; (F5a) every user value that reaches a string / string-list argument passes a quoting "
        "wrapper in the factory (or is a list whose items the factory quotes); (F5b) every quoting wrapper escapes "
        "backslash before double quote; (F6) a value that may be a list is not used as a dictionary key.")
    ctx.not_decided = "the parser's verdict on the rendered text for all definitions and values (behavioural)."
    factory_rules(ctx, R, PR)
    # "valid" is the parser's verdict on the rendered text: the token rules (L1-L4 of C01) are part of this property's mechanism -
    # an escaped quote or backslash the factory writes correctly must lex as part of its string
    from .c01 import lexer_rules
    lexer_rules(ctx, PR)


def factory_rules(ctx, R, PR):
    """F1-F6 (shared with C19, whose read-back on a reloaded set needs the rendered script to be accepted by the parser)."""
    prog = ctx.program
    table = PR.table()
    by_name = {e["name"]: e for e in table.values() if not e["abstract"]}
    lk = PR.lookup
    fmod = R.mod

    # ---- F1 -----------------------------------------------------------------------
    ctx.rule("F1", "require command first, from the full list; `requires` append-only")
    w = R.m["tosieve"]
    gen = [c for c in walk_no_nested(w.node) if isinstance(c, ast.Call) and R.gen_require is not None and call_name(c) == R.gen_require.name]
    floops = [lp for lp in walk_no_nested(w.node) if isinstance(lp, ast.For) and "filters" in norm(lp.iter)]
    if gen and floops and gen[0].lineno < floops[0].lineno and any(
            isinstance(c, ast.Call) and call_name(c) == "tosieve" and contains(stmt_of(gen[0])._parent, c) for c in walk_no_nested(w.node)):
        ctx.holds("F1", "renderer writes the require command before the filters")
    else:
        ctx.violation("F1", w, "require-not-first", "the renderer does not write the require command before the first filter", node=w.node,
                      witness="the rendered script uses extensions before (or without) requiring them")
    if R.gen_require is not None:
        g = R.gen_require
        ok = any(isinstance(c, ast.Call) and call_name(c) == "check_next_arg" and len(c.args) == 2 and norm(c.args[1]).endswith(".requires")
                 for c in walk_no_nested(g.node))
        if ok:
            ctx.holds("F1", "require command carries the whole `requires` list")
        else:
            ctx.violation("F1", g, "require-partial", "the require command is not built from the whole `requires` list", node=g.node)
    bad = []
    nreq = 0
    for f in fmod.all_funcs():
        for n in walk_no_nested(f.node):
            if isinstance(n, ast.Attribute) and n.attr == "requires":
                p = n._parent
                if isinstance(n.ctx, ast.Store):
                    nreq += 1
                    st = stmt_of(n)
                    if isinstance(st, ast.AugAssign) and isinstance(st.op, ast.Add):
                        continue
                    if f.name == "__init__" and isinstance(st, (ast.Assign, ast.AnnAssign)):
                        continue
                    bad.append((f, st))
                elif isinstance(p, ast.Attribute) and p.attr in ("remove", "pop", "clear", "insert", "sort", "reverse") and isinstance(p._parent, ast.Call):
                    bad.append((f, stmt_of(n)))
                elif isinstance(p, ast.Attribute) and p.attr in ("append", "extend") and isinstance(p._parent, ast.Call):
                    nreq += 1
    for f, st in bad:
        ctx.violation("F1", f, "requires-shrinks", "`requires` is modified other than by appending: %s" % norm(st)[:60], node=st,
                      witness="a disabled filter's extension disappears from the require line")
    if not bad:
        ctx.holds("F1", "`requires` is append-only (%d writes)" % nreq)

    # ---- accumulators ------------------------------------------------------------
    # A builder may collect the extensions it needs in a list and leave the registration to its caller.  Such a list counts as
    # "required" where it is added to, provided (rule F7) every caller of the builder registers the whole list on every path on
    # which it goes on to use what was built.
    def accumulators(f):
        """names of f that are lists of extension names handed back to / received from the caller"""
        acc = set()
        for r in walk_no_nested(f.node):
            if isinstance(r, ast.Return) and r.value is not None:
                for x in (r.value.elts if isinstance(r.value, ast.Tuple) else [r.value]):
                    if isinstance(x, ast.Name):
                        defs = [a for a in walk_no_nested(f.node) if isinstance(a, ast.Assign) and any(isinstance(t, ast.Name) and t.id == x.id for t in a.targets)]
                        if defs and all(isinstance(a.value, ast.List) and not a.value.elts for a in defs):
                            acc.add(x.id)
        own = f.params[1:] if f.cls is not None and "staticmethod" not in f.decorators else f.params
        for p_ in own:
            # a parameter that is only ever appended to: the caller's accumulator
            uses = [n for n in walk_no_nested(f.node) if isinstance(n, ast.Name) and n.id == p_]
            adds = [n for n in uses if (isinstance(n._parent, ast.AugAssign) and n._parent.target is n) or (
                isinstance(n._parent, ast.Attribute) and n._parent.attr in ("append", "extend") and isinstance(n._parent._parent, ast.Call))]
            if uses and len(adds) == len(uses):
                acc.add(p_)
        return acc

    def added_elements(f, acc):
        """(node, element expression) for every single element added to an accumulator of f"""
        out = []
        for n in walk_no_nested(f.node):
            if isinstance(n, ast.Call) and isinstance(n.func, ast.Attribute) and n.func.attr == "append" and isinstance(n.func.value, ast.Name) \
                    and n.func.value.id in acc and n.args:
                out.append((n, n.args[0]))
            elif isinstance(n, ast.AugAssign) and isinstance(n.target, ast.Name) and n.target.id in acc and isinstance(n.op, ast.Add) \
                    and isinstance(n.value, ast.List):
                for el in n.value.elts:
                    out.append((n, el))
        return out

    # ---- F7 -----------------------------------------------------------------------
    deferring = {}
    for f in fmod.all_funcs():
        if f.cls is R.cls:
            acc = accumulators(f)
            ret = [x.id for r in walk_no_nested(f.node) if isinstance(r, ast.Return) and r.value is not None
                   for x in (r.value.elts if isinstance(r.value, ast.Tuple) else [r.value]) if isinstance(x, ast.Name) and x.id in acc]
            if ret:
                r0 = next(r for r in walk_no_nested(f.node) if isinstance(r, ast.Return) and r.value is not None)
                idx = [i for i, x in enumerate(r0.value.elts if isinstance(r0.value, ast.Tuple) else [r0.value]) if isinstance(x, ast.Name) and x.id in acc]
                deferring[f.name] = (f, idx[0] if idx else 0, isinstance(r0.value, ast.Tuple))
    if deferring:
        ctx.rule("F7", "extensions collected by a builder are all registered by its caller before the built command is used")
        for g in fmod.all_funcs():
            if g.cls is not R.cls:
                continue
            for st in walk_no_nested(g.node):
                if not (isinstance(st, ast.Assign) and isinstance(st.value, ast.Call) and call_name(st.value) in deferring):
                    continue
                bf, idx, is_tuple = deferring[call_name(st.value)]
                tg = st.targets[0]
                if is_tuple and isinstance(tg, ast.Tuple) and idx < len(tg.elts) and isinstance(tg.elts[idx], ast.Name):
                    var = tg.elts[idx].id
                elif not is_tuple and isinstance(tg, ast.Name):
                    var = tg.id
                else:
                    ctx.violation("F7", g, "collected-dropped", "%s does not keep the extensions collected by %s" % (g.qualname, bf.qualname), node=st,
                                  witness="the rendered script uses an extension that is not required")
                    continue
                cg = ctx.cfg(g)
                disch = []
                for lp in walk_no_nested(g.node):
                    if isinstance(lp, ast.For) and isinstance(lp.iter, ast.Name) and lp.iter.id == var and isinstance(lp.target, ast.Name) and any(
                            isinstance(c_, ast.Call) and call_name(c_) == "require" and c_.args and norm(c_.args[0]) == lp.target.id
                            for c_ in walk_no_nested(lp)):
                        disch.extend(x for x in cg.nodes_for(lp) if x.kind == "loop")
                # handing the list on to one's own caller is fine too (checked there)
                passes_on = g.name in deferring and var in accumulators(g)
                site = cg.nodes_for(st)[0]
                if passes_on:
                    ctx.holds("F7", "%s hands the extensions collected by %s on to its caller" % (g.qualname, bf.qualname))
                elif disch and cg.exit not in cg.reach(site, avoid=disch, exc=False):
                    ctx.holds("F7", "%s registers every extension collected by %s on every path to its end" % (g.qualname, bf.qualname))
                else:
                    ctx.violation("F7", g, "collected-not-registered", "%s can finish without registering the extensions collected by %s"
                                  % (g.qualname, bf.qualname), node=st,
                                  witness="the rendered script uses an extension that is not required: the parser rejects it")

    # ---- F2 -----------------------------------------------------------------------
    ctx.rule("F2", "command-level extensions are required on every path after the construction site")
    n2 = 0
    for f in fmod.all_funcs():
        if f.cls is not R.cls:
            continue
        cfg = None
        for st in walk_no_nested(f.node):
            if not (isinstance(st, ast.Assign) and isinstance(st.value, ast.Call) and call_name(st.value) == lk.name):
                continue
            c = st.value
            n2 += 1
            a0 = c.args[0] if c.args else None
            v = const_value(prog, f, a0) if a0 is not None else TOP
            names = [v] if isinstance(v, str) else bounded_names(prog, f, c, a0)
            label = "%s: %s" % (f.qualname, norm(c)[:60])
            if names is not None and all(nm in by_name and not by_name[nm].get("extension") for nm in names):
                ctx.holds("F2", label, "no extension needed")
                continue
            if names is not None and any(nm not in by_name for nm in names):
                ctx.violation("F2", f, "unknown-command:%s" % names, "the factory constructs unknown command(s) %s" % names, node=c)
                continue
            tgt = st.targets[0].id if isinstance(st.targets[0], ast.Name) else None
            cfg = cfg or ctx.cfg(f)
            site = cfg.nodes_for(st)[0]
            exts = sorted({by_name[nm]["extension"] for nm in names}) if names is not None else None
            reqs = []
            for rc in walk_no_nested(f.node):
                if isinstance(rc, ast.Call) and call_name(rc) == "require" and rc.args:
                    av = const_value(prog, f, rc.args[0])
                    if exts is not None and len(exts) == 1 and av == exts[0]:
                        reqs.append(rc)
                    elif tgt and norm(rc.args[0]) == "%s.extension" % tgt:
                        reqs.append(rc)
            req_nodes = [x for rc in reqs for x in cfg.node_containing(rc)]
            # ... or collected for the caller to register (rule F7)
            for nd_, el in added_elements(f, accumulators(f)):
                av = const_value(prog, f, el)
                if (exts is not None and len(exts) == 1 and av == exts[0]) or (tgt and norm(el) == "%s.extension" % tgt):
                    req_nodes.extend(cfg.node_containing(nd_) if isinstance(nd_, ast.Call) else cfg.nodes_for(nd_))
            # a conditional `if X.extension is not None: require(X.extension)` counts: the other edge needs nothing
            tests = [p for fc in cfg.facts() if tgt and norm(fact_atom(fc)[0]).startswith("%s.extension" % tgt) for p, _ in fc.pred]
            cond_ok = False
            for t in tests:
                for fc, _ in t.succ:
                    e, pol = fact_atom(fc)
                    has_ext = (pol is True) if not isinstance(e, ast.Compare) else ((cmp_parts(e)[1] == "IsNot") == pol)
                    if has_ext and req_nodes and not (set(cfg.reach(fc, avoid=req_nodes, exc=False)) & {cfg.exit}):
                        cond_ok = True
            direct_ok = bool(req_nodes) and cfg.exit not in cfg.reach(site, avoid=req_nodes + tests, exc=False) and (
                cond_ok or cfg.exit not in cfg.reach(site, avoid=req_nodes, exc=False))
            if direct_ok:
                ctx.holds("F2", label, "extension %s required after construction" % (exts or "<command>.extension"))
            else:
                ctx.violation("F2", f, "command-ext-not-required:%s" % (norm(a0)), "the factory constructs %s (extension %s) but does not require the "
                              "extension on every path" % (norm(a0), exts or "unknown"), node=c,
                              witness="the rendered script is rejected: extension not loaded")
    ctx.need("F2", "construction sites", n2, 12)

    # ---- F3 -----------------------------------------------------------------------
    ctx.rule("F3", "tag -> extension derivation is table-driven and covers `extension` and `extension_values`")
    helper = R.derive
    if helper is None:
        # legacy constant map
        legacy = R.m.get("check_if_arg_is_extension")
        mp = None
        if legacy is not None:
            for a in walk_no_nested(legacy.node):
                if isinstance(a, ast.Assign) and isinstance(a.value, ast.Dict):
                    mp = const_value(prog, legacy, a.value)
        need = {}
        for e in by_name.values():
            if e["_type"] == "action":
                need.update(tag_bindings(e))
        missing = {t: x for t, x in need.items() if not mp or mp.get(t) != x}
        for t, x in sorted(missing.items()):
            ctx.violation("F3", legacy or R.create, "tag-map-missing:%s" % t, "the factory's tag->extension map lacks %s -> %s" % (t, x),
                          node=(legacy or R.create).node, witness="an action using %s is rendered without `require \"%s\"`" % (t, x))
        if not missing:
            ctx.holds("F3", "constant tag map covers all action tag bindings")
    else:
        # finite-domain evaluation: for every command of the table and every tag of it that is bound to an extension, the derivation
        # helper, given that command's definition and that tag, must call require() with that extension
        from sa import fd
        own = helper.params[1:] if helper.cls is not None else helper.params
        if len(own) < 2:
            raise AnalysisError("F3", "%s does not take (command, tag)" % helper.qualname)
        cmdp, tagp = own[0], own[1]

        def oracle(interp, e, name, recv, args, kw, st):
            if name in ("self.require", "require") and args:
                return [(fd.Const(None), ("require", args[0]))]
            if isinstance(e.func, ast.Name) and e.func.id in fmod.funcs:
                return fd.Inline(fmod.funcs[e.func.id])
            if name and name.startswith("self.") and name[5:] in R.m and R.m[name[5:]] is not helper:
                return fd.Inline(R.m[name[5:]])
            return None
        nb = 0
        missing = []
        for e in sorted(by_name.values(), key=lambda x: x["name"]):
            binds = tag_bindings(e)
            for t, x in sorted(binds.items()):
                nb += 1
                it = fd.Interp(helper.node, R.cls.name, oracle, loop_unroll=max(8, len(e["args_definition"] or []) + 1), max_depth=3)
                env = {cmdp: fd.Unknown("cmd"), "%s.args_definition" % cmdp: fd.Const(e["args_definition"]), tagp: fd.Const(t)}
                for k_ in ("args_using_extensions",):
                    v_ = R.cls.attrs.get(k_)
                    cv_ = const_value(prog, helper, v_) if v_ is not None else TOP
                    if cv_ is not TOP:
                        env["%s.%s" % (helper.params[0], k_)] = fd.Const(cv_)
                try:
                    paths = it.run(env)
                except fd.TooManyPaths:
                    raise AnalysisError("F3", "path explosion in %s for %s %s" % (helper.qualname, e["name"], t))
                for p_ in paths:
                    if p_.kind == "raise":
                        missing.append((e["name"], t, x, "raises %s" % p_.value))
                        continue
                    got = [ev[1].v for ev in p_.events if ev[0] == "require" and isinstance(ev[1], fd.Const)]
                    unk = [ev for ev in p_.events if ev[0] == "require" and not isinstance(ev[1], fd.Const)]
                    # a derivation that hands the extensions back (list / single name) instead of requiring them itself
                    rv = p_.value
                    if isinstance(rv, fd.Const) and isinstance(rv.v, (list, tuple, set)):
                        got += [x_ for x_ in rv.v if isinstance(x_, str)]
                    elif isinstance(rv, fd.Const) and isinstance(rv.v, str):
                        got.append(rv.v)
                    elif isinstance(rv, fd.Const) and isinstance(rv.v, dict):
                        got += [x_ for x_ in rv.v.values() if isinstance(x_, str)]
                    elif not isinstance(rv, fd.Const):
                        unk.append(rv)
                    if x not in got and not unk:
                        missing.append((e["name"], t, x, "requires %s" % (got or "nothing")))
        ctx.need("F3", "(command, extension-bound tag) pairs evaluated", nb, 10)
        if missing:
            seen_ = set()
            for cn_, t, x, why in missing:
                if (t, x) in seen_:
                    continue
                seen_.add((t, x))
                ctx.violation("F3", helper, "derivation-misses:%s" % t, "%s, given the definition of %s and the tag %s, %s; the tag needs %s"
                              % (helper.qualname, cn_, t, why, x), node=helper.node,
                              witness="a filter using %s is rendered without `require \"%s\"`: the script is rejected" % (t, x))
        else:
            ctx.holds("F3", "%s requires the bound extension for each of the %d (command, tag) pairs of the command table (evaluated over "
                      "the table)" % (helper.qualname, nb))

    # ---- F4 -----------------------------------------------------------------------
    ctx.rule("F4", "every unchecked tag argument is preceded by the extension derivation for the same command and tag")
    cna = PR.check_next_arg
    ce = [p for p in cna.params if "extension" in p.lower()]
    n4 = 0
    for f in fmod.all_funcs():
        if f.cls is not R.cls:
            continue
        cfg = None
        for c in walk_no_nested(f.node):
            if not (isinstance(c, ast.Call) and call_name(c) == "check_next_arg" and c.args):
                continue
            flag = bound_arg(c, cna, ce[0]) if ce else None
            if flag is None or const_value(prog, f, flag) is not False:
                continue
            atype = const_value(prog, f, c.args[0])
            if atype is not TOP and atype != "tag":
                continue
            if atype is TOP and isinstance(c.args[0], ast.Name):
                # a type chosen per argument: when no assignment can give it the value "tag" the call never carries a tag
                ds = [a for a in walk_no_nested(f.node) if isinstance(a, ast.Assign) and any(isinstance(t, ast.Name) and t.id == c.args[0].id for t in a.targets)]
                vals = [const_value(prog, f, a.value) for a in ds]
                if ds and all(isinstance(v, str) and v != "tag" for v in vals):
                    continue
            n4 += 1
            recv = c.func.value if isinstance(c.func, ast.Attribute) else None
            tagexpr = c.args[1] if len(c.args) > 1 else None
            label = "%s: %s" % (f.qualname, norm(c)[:70])
            cmds = reaching_command(prog, f, c, recv.id, lk.name) if isinstance(recv, ast.Name) else None
            tv = const_value(prog, f, tagexpr) if tagexpr is not None else TOP
            if cmds and isinstance(tv, str) and all(cm in by_name and tv not in tag_bindings(by_name[cm]) for cm in cmds):
                ctx.holds("F4", label, "constant tag without extension")
                continue
            cfg = cfg or ctx.cfg(f)
            ok = False
            if helper is not None:
                for hc in walk_no_nested(f.node):
                    if isinstance(hc, ast.Call) and call_name(hc) == helper.name and len(hc.args) == 2 and recv is not None \
                            and norm(hc.args[0]) == norm(recv) and norm(hc.args[1]) == norm(tagexpr):
                        hn = cfg.node_containing(hc)
                        cn = cfg.node_containing(c)
                        if hn and cn and all(cfg.dominates(hn, x, exc=False) for x in cn):
                            ok = True
            if not ok and atype is TOP and helper is not None:
                # generic action argument: the derivation sits on the tag branch that set atype = "tag"; the tag itself may travel
                # through a second local (`value = arg`) set on the same branch
                tagsets = [a for a in walk_no_nested(f.node) if isinstance(a, ast.Assign) and norm(a.targets[0]) == norm(c.args[0])
                           and const_value(prog, f, a.value) == "tag"]

                def derived_on_branch(a):
                    blk = getattr(a._parent, "body", [])
                    if a not in blk:
                        blk = getattr(a._parent, "orelse", [])
                    names = {norm(tagexpr)}
                    for s2 in blk:
                        if isinstance(s2, ast.Assign) and norm(s2.targets[0]) == norm(tagexpr):
                            names.add(norm(s2.value))
                    return any(isinstance(hc2, ast.Call) and call_name(hc2) == helper.name and len(hc2.args) == 2 and norm(hc2.args[1]) in names
                               for s2 in blk if isinstance(s2, (ast.Expr, ast.AugAssign, ast.Assign)) for hc2 in ast.walk(s2))
                ok = bool(tagsets) and all(derived_on_branch(a) for a in tagsets)
            if ok:
                ctx.holds("F4", label, "derivation precedes the unchecked argument")
            else:
                ctx.violation("F4", f, "unchecked-tag:%s" % norm(c)[:60], "a tag is accepted with check_extension=False (%s) but the extension it "
                              "may need is not required" % norm(c)[:60], node=c,
                              witness="e.g. currentdate with :regex / vacation :seconds: rendered without the require, rejected by the parser")
    if n4 == 0:
        ctx.notice("F4", "no tag is accepted with check_extension=False: nothing to pair with a require derivation")

    # ---- F5 -----------------------------------------------------------------------
    ctx.rule("F5a", "user values reaching string / string-list arguments are quoted by the factory")
    ctx.rule("F5b", "every quoting wrapper escapes backslash before double quote")
    qh = R.quote
    escaped = f5_helper(ctx, R)
    esc_funcs = {n for n, f in R.helpers.items() if is_escaper(prog, f)}
    n5 = 0
    for f in R.builders():
        for c in walk_no_nested(f.node):
            if not (isinstance(c, ast.Call) and call_name(c) == "check_next_arg" and len(c.args) >= 2):
                continue
            atype = const_value(prog, f, c.args[0])
            if atype not in ("string", "stringlist", TOP):
                continue
            x = c.args[1]
            if isinstance(x, ast.Name):
                # the value bound to it in the enclosing blocks (all definitions must be acceptable)
                defs = [a.value for a in walk_no_nested(f.node) if isinstance(a, ast.Assign) and any(isinstance(t, ast.Name) and t.id == x.id for t in a.targets)]
                if atype is TOP:
                    # generic action argument: the string branch must re-bind through the helper, the list branch through a comprehension of it
                    n5 += 1
                    strq = [d for d in defs if isinstance(d, ast.Call) and call_name(d) == qh.name]
                    lstq = [d for d in defs if isinstance(d, ast.ListComp) and isinstance(d.elt, ast.Call) and call_name(d.elt) == qh.name]
                    def branch_type(d):
                        """the argument type set next to this definition (same block): number / tag values are passed as they are"""
                        st_ = d
                        while st_ is not None and not isinstance(st_, ast.stmt):
                            st_ = getattr(st_, "_parent", None)
                        par = getattr(st_, "_parent", None)
                        for fld in ("body", "orelse"):
                            lst = getattr(par, fld, None)
                            if isinstance(lst, list) and st_ in lst:
                                for s2 in lst:
                                    if isinstance(s2, ast.Assign) and norm(s2.targets[0]) == norm(c.args[0]):
                                        return const_value(prog, f, s2.value)
                        return TOP
                    other = [d for d in defs if d not in strq and d not in lstq and classify_value(prog, qh, esc_funcs, d)[0] != "ok"
                             and not (isinstance(d, ast.Name) and branch_type(d) in ("number", "tag"))]
                    if other:
                        ctx.violation("F5a", f, "action-arg-other-rendering", "an action argument is also rendered by %s, which is not the quoting "
                                      "helper: user text reaches the script through a form whose delimiters it can contain" % norm(other[0])[:60],
                                      node=other[0], witness="a vacation reason with a line holding only `.` ends a text: block early; the rest is parsed as commands")
                    elif strq and lstq:
                        ctx.holds("F5a", "%s: action arguments quoted (string and list items)" % f.qualname)
                    elif strq:
                        ctx.violation("F5a", f, "list-items-unquoted", "list-valued action arguments reach the command unquoted and unescaped", node=c,
                                      witness="vacation :addresses ['a\"b'] renders a broken string list")
                    else:
                        ctx.violation("F5a", f, "action-arg-unquoted", "string action arguments are not passed through the quoting helper", node=c)
                    continue
                cands = defs
            else:
                cands = [x]
            n5 += 1
            verdicts = [classify_value(prog, qh, esc_funcs, d) for d in cands]
            label = "%s: %s" % (f.qualname, norm(c)[:70])
            if cands and all(v[0] == "ok" for v in verdicts):
                ctx.holds("F5a", label, verdicts[0][1])
                ctx.holds("F5b", label, "escaped")
            elif cands and all(v[0] in ("ok", "unescaped") for v in verdicts):
                ctx.holds("F5a", label, "quoted")
                ctx.violation("F5b", f, "inline-unescaped:%s" % norm(c)[:60], "a user value is wrapped in quotes without escaping at %s" % norm(c)[:60],
                              node=c, witness="a value containing a double quote changes the structure of the rendered script")
            else:
                ctx.violation("F5a", f, "unquoted:%s" % norm(c)[:60], "a user value reaches a %s argument without being quoted: %s" % (atype, norm(x)[:50]),
                              node=c, witness="the rendered script contains the bare value (identifier/garbage instead of a string)")
    ctx.need("F5a", "string / string-list argument sites", n5, 12)

    # ---- the rendering itself goes through Command.tosieve: its disciplines (S1-S5 of C04) are part of this property's mechanism
    from .c04 import serializer_rules
    serializer_rules(ctx, PR)

    # ---- F6 -----------------------------------------------------------------------
    ctx.rule("F6", "a value that may be a list is not used as a dictionary key")
    f = R.create
    cfg = ctx.cfg(f)
    maybe_list = {norm(c.args[0]) for c in walk_no_nested(f.node) if isinstance(c, ast.Call) and call_name(c) == "isinstance" and len(c.args) == 2
                  and "list" in norm(c.args[1])}
    k = 0
    for c in walk_no_nested(f.node):
        if isinstance(c, ast.Call) and isinstance(c.func, ast.Attribute) and c.func.attr in R.m and c.args:
            callee = R.m[c.func.attr]
            for i, a in enumerate(c.args):
                if norm(a) not in maybe_list or i + 1 >= len(callee.params):
                    continue
                p = callee.params[i + 1]
                hashing = any(isinstance(x, ast.Compare) and isinstance(x.ops[0], (ast.In, ast.NotIn)) and isinstance(x.left, ast.Name) and x.left.id == p
                              and is_dict_expr(callee, x.comparators[0]) for x in walk_no_nested(callee.node)) or any(
                    isinstance(x, ast.Subscript) and isinstance(x.slice, ast.Name) and x.slice.id == p and is_dict_expr(callee, x.value)
                    for x in walk_no_nested(callee.node))
                if not hashing:
                    continue
                k += 1

                def is_str(fc, a=a):
                    e, pol = fact_atom(fc)
                    if isinstance(e, ast.Call) and call_name(e) == "isinstance" and len(e.args) == 2 and norm(e.args[0]) == norm(a):
                        t = norm(e.args[1])
                        return (("str" in t) and pol is True) or (("list" in t) and pol is False and "str" not in t)
                    return False
                if all(cfg.guarded(x, is_str) for x in cfg.node_containing(c)):
                    ctx.holds("F6", "%s only for str values" % norm(c)[:60])
                else:
                    ctx.violation("F6", f, "list-as-key:%s" % norm(c)[:50], "%s may be a list and is used as a dictionary key in %s" % (norm(a), callee.qualname),
                                  node=c, witness="an action with a list-valued argument raises TypeError: unhashable type")
    if k == 0:
        ctx.holds("F6", "no possibly-list value is passed to a function that uses it as a dictionary key")


def is_dict_expr(f, e):
    if isinstance(e, ast.Dict):
        return True
    if isinstance(e, ast.Name):
        return any(isinstance(a, ast.Assign) and isinstance(a.value, ast.Dict) and any(isinstance(t, ast.Name) and t.id == e.id for t in a.targets)
                   for a in walk_no_nested(f.node))
    return False


def replace_chain_ok(prog, e):
    """X.replace('\\\\', '\\\\\\\\').replace('"', '\\\\"') with backslash first"""
    steps = []
    cur = e
    while isinstance(cur, ast.Call) and isinstance(cur.func, ast.Attribute) and cur.func.attr == "replace" and len(cur.args) == 2:
        a, b = cur.args
        if isinstance(a, ast.Constant) and isinstance(b, ast.Constant):
            steps.append((a.value, b.value))
        cur = cur.func.value
    steps.reverse()
    bs = [i for i, s in enumerate(steps) if s == ("\\", "\\\\")]
    dq = [i for i, s in enumerate(steps) if s == ('"', '\\"')]
    return bool(bs and dq and min(bs) < min(dq))


ESCAPE_SAMPLES = ["", "a", 'a"b', "a\\b", '\\"', '"\\', "x\\", '""', '\\\\"', 'she said \\"no\\"', "tab\there", "\u00e9\"\u00e9"]


def is_escaper(prog, f):
    rets = [r.value for r in walk_no_nested(f.node) if isinstance(r, ast.Return) and r.value is not None]
    own = [p_ for p_ in f.params if not (f.cls is not None and "staticmethod" not in f.decorators and p_ == f.params[0])]
    if len(rets) == 1 and isinstance(rets[0], ast.Call) and replace_chain_ok(prog, rets[0]) and len(own) == 1:
        return True
    return len(own) == 1 and escapes_by_evaluation(prog, f, own[0]) is True


def escapes_by_evaluation(prog, f, param):
    """The function interpreted over sample values: True when every result is the value with each backslash and each double quote
    preceded by a backslash (whatever the spelling: a replace chain, one regular expression, a translation table), False when a result
    differs, None when the interpreter cannot follow the function."""
    from sa import fd
    from sa.util import module_resolver
    cache = getattr(prog, "_escaper_eval", None)
    if cache is None:
        cache = prog._escaper_eval = {}
    if f.qualname in cache:
        return cache[f.qualname]
    res = True

    def oracle(interp, e, name, recv, args, kw, st):
        fn = e.func
        if isinstance(fn, ast.Name) and fn.id in f.module.funcs and f.module.funcs[fn.id].node is not interp.f:
            return fd.Inline(f.module.funcs[fn.id])
        if name and name.startswith("self.") and f.cls is not None:
            m = prog.method(f.cls, name[5:]) or prog.method(f.cls, mangle(f.cls.name, name[5:]))
            if m is not None and m.node is not interp.f:
                return fd.Inline(m)
        return None
    for sample in ESCAPE_SAMPLES:
        it = fd.Interp(f.node, f.cls.name if f.cls else None, oracle, resolve=module_resolver(prog, f.module), loop_unroll=4 * len(sample) + 8, max_paths=40)
        env = {param: fd.Const(sample)}
        if f.cls is not None and f.params and f.params[0] != param:
            for a_, v_ in f.cls.attrs.items():
                pass
        try:
            ps = it.run(env)
        except (fd.TooManyPaths, RecursionError):
            res = None
            break
        if len(ps) != 1 or ps[0].kind != "return" or not isinstance(ps[0].value, fd.Const) or not isinstance(ps[0].value.v, str):
            res = None
            break
        if ps[0].value.v != sample.replace("\\", "\\\\").replace('"', '\\"'):
            res = False
            break
    cache[f.qualname] = res
    return res


def const_of(e):
    return e.value if isinstance(e, ast.Constant) else None


def _wrapped(e, want):
    """The expression standing in the single hole of e when e's text has the shape `want` (\\0 marks the hole); else None."""
    from sa.template import template, shape, holes
    t = template(e)
    if t is not None and shape(t) == want and len(holes(t)) == 1 and holes(t)[0].spec is None:
        return holes(t)[0].expr
    return None


def _local_def(at, name):
    """Value of the closest assignment `name = ...` before `at` in the same statement list (or an enclosing one)."""
    st = at
    while st is not None and not isinstance(st, ast.stmt):
        st = getattr(st, "_parent", None)
    while st is not None:
        par = getattr(st, "_parent", None)
        for fld in ("body", "orelse", "finalbody"):
            lst = getattr(par, fld, None)
            if isinstance(lst, list) and st in lst:
                for prev in reversed(lst[:lst.index(st)]):
                    if isinstance(prev, ast.Assign) and any(isinstance(t, ast.Name) and t.id == name for t in prev.targets):
                        return prev.value
        if isinstance(par, (ast.FunctionDef, ast.Module)) or par is None:
            return None
        st = par
    return None


def classify_value(prog, qh, esc_funcs, d, depth=0):
    """('ok', why) / ('unescaped', why) / ('bad', why)"""
    def esc(e):
        return (isinstance(e, ast.Call) and call_name(e) in esc_funcs) or (
            isinstance(e, ast.Call) and replace_chain_ok(prog, e))
    if isinstance(d, ast.Call) and call_name(d) == qh.name:
        return ("ok", "quoting helper")
    if isinstance(d, (ast.ListComp, ast.GeneratorExp)) and isinstance(d.elt, ast.Call) and call_name(d.elt) == qh.name:
        return ("ok", "comprehension of the quoting helper")
    if isinstance(d, ast.Attribute) and d.attr == "requires":
        return ("ok", "extension names (serializer quotes list items)")
    # [ <items joined by ","> ] with every item "<escaped value>", in any spelling of the two wrappers
    outer = _wrapped(d, "[\0]")
    if outer is not None:
        src = outer
        if isinstance(src, ast.Name):
            src = _local_def(d, src.id) or src
        comp = None
        if isinstance(src, ast.Call) and isinstance(src.func, ast.Attribute) and src.func.attr == "join" and const_of(src.func.value) == "," and src.args:
            a0 = src.args[0]
            if isinstance(a0, ast.Name):
                a0 = _local_def(src, a0.id) or a0
            if isinstance(a0, (ast.ListComp, ast.GeneratorExp)):
                comp = a0
        if comp is not None:
            inner = _wrapped(comp.elt, '"\0"')
            if inner is not None and esc(inner):
                return ("ok", "inline list wrapper with escaping")
            if inner is not None:
                return ("unescaped", "inline list wrapper")
    # a helper of the factory (or of its module) whose every result is itself a recognised quoting of its argument
    if isinstance(d, ast.Call) and depth < 2:
        nm = call_name(d)
        g = None
        if qh.cls is not None and isinstance(d.func, ast.Attribute):
            g = qh.cls.methods.get(nm) or next((m for k, m in qh.cls.methods.items() if k.lstrip("_") == (nm or "").lstrip("_")), None)
        elif isinstance(d.func, ast.Name):
            g = qh.module.funcs.get(nm)
        if g is not None and g is not qh:
            rets = [r.value for r in walk_no_nested(g.node) if isinstance(r, ast.Return) and r.value is not None]
            vs = [classify_value(prog, qh, esc_funcs, r, depth + 1) for r in rets]
            if rets and all(v[0] == "ok" for v in vs):
                return ("ok", "helper %s: %s" % (g.qualname, vs[0][1]))
            if rets and all(v[0] in ("ok", "unescaped") for v in vs):
                return ("unescaped", "helper %s" % g.qualname)
    return ("bad", "no quoting recognised")


def f5_helper(ctx, R):
    """F5 rules about the quoting helper itself (shared with C19: the reloaded set is parsed from the text this helper quotes)."""
    prog = ctx.program
    ctx.rule("F5a", "user values reaching string / string-list arguments are quoted by the factory")
    ctx.rule("F5b", "every quoting wrapper escapes backslash before double quote")
    qh = R.quote
    esc_funcs = {n for n, f in R.helpers.items() if is_escaper(prog, f)}

    def escaped(e):
        """e applies a recognised escaper to its operand"""
        if isinstance(e, ast.Call) and call_name(e) in esc_funcs:
            return True
        if isinstance(e, ast.Call) and replace_chain_ok(prog, e):
            return True
        return False

    # the helper itself
    if qh is None:
        raise AnalysisError("F5b", "quoting helper not found")
    hw = [b for b in ast.walk(qh.node) if isinstance(b, (ast.BinOp, ast.Call, ast.JoinedStr)) and _wrapped(b, '"\0"') is not None]
    if not hw:
        raise AnalysisError("F5b", "quoting helper wraps nothing")
    for b in hw:
        inner = _wrapped(b, '"\0"')
        if inner is not None and escaped(inner):
            ctx.holds("F5b", "%s: %s" % (qh.qualname, norm(b)))
        else:
            ctx.violation("F5b", qh, "helper-unescaped", "the quoting helper wraps the value in quotes without escaping `\\` and `\"`: %s" % norm(b), node=b,
                          witness="fileinto 'x\"; discard; #' renders a script with an extra discard command")
    # the only values the helper may hand back unquoted are those that start with a quote character (documented exemption)
    own_q = [p_ for p_ in qh.params if not (qh.cls is not None and "staticmethod" not in qh.decorators and p_ == qh.params[0])]
    qp = own_q[0] if own_q else None
    qcfg = ctx.cfg(qh)

    def starts_quoted(fc):
        e, pol = fact_atom(fc)
        if pol is True and isinstance(e, ast.Call) and isinstance(e.func, ast.Attribute) and e.func.attr == "startswith" \
                and isinstance(e.func.value, ast.Name) and e.func.value.id == qp and e.args:
            v = const_value(prog, qh, e.args[0])
            vs = v if isinstance(v, (tuple, list)) else [v]
            return all(x in ('"', "'") for x in vs)
        if pol is True and isinstance(e, ast.Compare):
            cp = cmp_parts(e)
            if cp and cp[1] in ("Eq", "In") and norm(cp[0]) in ("%s[0]" % qp, "%s[:1]" % qp):
                v = const_value(prog, qh, cp[2])
                vs = v if isinstance(v, (tuple, list)) else [v]
                return all(x in ('"', "'") for x in vs)
        return False
    for r in walk_no_nested(qh.node):
        if isinstance(r, ast.Return) and isinstance(r.value, ast.Name) and r.value.id == qp:
            if all(qcfg.guarded(x, starts_quoted) for x in qcfg.nodes_for(r)):
                ctx.holds("F5a", "%s returns the value as is only when it starts with a quote character" % qh.qualname)
            else:
                ctx.violation("F5a", qh, "helper-passes-unquoted", "the quoting helper can return a value unquoted although it does not start with a "
                              "quote character: user text then appears outside a string literal", node=r,
                              witness='a subject key "[SPAM]" or a folder "[Gmail]" is rendered as a bare token / string list')
    return escaped
