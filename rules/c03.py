"""C03 - Accepted scripts are represented faithfully: nothing dropped or invented.

Shared with C01: P1, P2, P5/P9 (an accepted token whose verdict is dropped, a
pending command at EOF, a block on a non-block command are tokens accepted
and never represented) and G4 (store key/value).  Own rules: P10 tree
ownership, P11 single recording, G7 no positional overwrite, T3' reassign
moves only.
"""
import ast

from sa.model import AnalysisError, walk_no_nested, norm, call_name, stmt_of
from sa.consteval import TOP
from sa.util import fact_atom, cmp_parts, const_value, contains
from .proles import ParserRoles
from . import c01

MUT = {"append", "extend", "insert", "remove", "pop", "clear", "sort", "reverse", "update", "setdefault", "popitem"}


def run(ctx):
    R = ParserRoles(ctx, "C03")
    ctx.explanation = (
        "Every accepted token is recorded or structurally consumed: (P1) no verdict of the argument checker or of "
        "addchild is dropped; (P2) a pending construct at end of input is rejected; (P5/P9) blocks only on controls that "
        "take them; (P10) the tree containers have exactly one writer each and are append-only: Parser.result (reset, "
        "__up), Command.children (__init__, addchild), arguments/extra_arguments (__init__, check_next_arg, "
        "reassign_arguments); (P11) __up records the current top-level command exactly once, before the parent walk, "
        "and attaches the comments collected since the previous one; (G3/G4) every store uses the matched slot's own "
        "name as key and the incoming value unmodified, under that slot's type/value tests; (G7) a positional optional "
        "slot cannot be filled twice; (T3') reassign_arguments only moves values between slots.")
    ctx.not_decided = "equality of the tree with an independent RFC 5228 section 8.2 parse (behavioural)."
    # each value is recorded in the slot the script wrote it for: a tag slot matches its own spellings only (T2 of C01)
    c01.t2(ctx, R)
    c01.p1(ctx, R)
    c01.p2(ctx, R)
    c01.p5_p9(ctx, R)
    from .geval import with_g11
    with_g11(ctx, R, [c01.g4, g7, g8, g9, c01.g6], aspects=("verdict", "stored", "complete"))
    c01.p13(ctx, R)
    c01.p14(ctx, R)
    c01.p15(ctx, R)
    p10(ctx, R)
    p11(ctx, R)
    # a test with an optional leading argument is recorded completely before the enclosing list goes on (P16 / P17 of C01)
    c01.p16(ctx, R)
    from .p17 import p17
    p17(ctx, R)
    # (G6: a tag written in another letter case is the same tag: what is recorded for it (its parameter) must not depend on the spelling)
    t3p(ctx, R)
    # the tree of THIS parse only: every parser attribute a handler writes (incl. result) is re-initialised per parse (rule H2 of C13)
    from .c13 import h2
    h2(ctx, R)
    # the tree is built from the token stream: the token rules must cut the text as RFC 5228 does (L1-L4 of C01)
    c01.lexer_rules(ctx, R)
    # parse_file must hand the file's bytes to parse() unchanged (X12 of C02): newline translation or decoding changes the values in the tree
    from .c02 import x12
    x12(ctx, R)
    # ... and parse() itself scans the text it was given, not a rewritten copy (Z6 of C18)
    from .c18 import z6
    z6(ctx, R)


def container_writes(ctx, attr, modules):
    out = []
    for f in ctx.program.all_funcs():
        if f.module.name not in modules:
            continue
        for n in walk_no_nested(f.node):
            if isinstance(n, ast.Attribute) and n.attr == attr:
                p = n._parent
                kind = None
                if isinstance(n.ctx, (ast.Store, ast.Del)):
                    kind = "aug" if isinstance(p, ast.AugAssign) else "assign"
                elif isinstance(p, ast.Attribute) and p.attr in MUT and isinstance(p._parent, ast.Call) and p._parent.func is p:
                    kind = "call:" + p.attr
                elif isinstance(p, ast.Subscript) and p.value is n and isinstance(p.ctx, (ast.Store, ast.Del)):
                    kind = "setitem"
                    if isinstance(p._parent, ast.AugAssign) and p._parent.target is p:
                        kind = "setitem-aug"
                if kind:
                    out.append((f, stmt_of(n), kind))
    return out


def _slot_replacement(st):
    """st removes extra_arguments[K] next to a store arguments[K] = ... of the same key: the slot's tag is being replaced."""
    key = None
    for c in ast.walk(st):
        if isinstance(c, ast.Call) and isinstance(c.func, ast.Attribute) and c.func.attr == "pop" and "extra_arguments" in norm(c.func.value) and c.args:
            key = norm(c.args[0])
        if isinstance(c, ast.Delete):
            for t in c.targets:
                if isinstance(t, ast.Subscript) and "extra_arguments" in norm(t.value):
                    key = norm(t.slice)
    if key is None:
        return False
    blk = st._parent
    while blk is not None and not any(st in getattr(blk, fld, []) for fld in ("body", "orelse", "finalbody")):
        st, blk = blk, getattr(blk, "_parent", None)
    if blk is None:
        return False
    sibs = next(getattr(blk, fld) for fld in ("body", "orelse", "finalbody") if st in getattr(blk, fld, []))
    return any(isinstance(x, ast.Assign) and any(isinstance(t, ast.Subscript) and isinstance(t.value, ast.Attribute) and t.value.attr == "arguments"
                                                 and norm(t.slice) == key for t in x.targets) for x in sibs)


def p10(ctx, R):
    ctx.rule("P10", "tree containers: one writer each, append-only")
    spec = {
        "result": {R.reset.qualname: {"assign"}, R.up.qualname: {"aug", "call:append"}, "Parser.__init__": {"assign"}},
        "children": {"Command.__init__": {"assign"}, "Command.addchild": {"aug", "call:append"}},
        # (setdefault(name, []) is the membership test + store of an empty list in one call)
        "arguments": {"Command.__init__": {"assign"}, "Command.check_next_arg": {"setitem", "setitem-aug", "call:setdefault"}},
        "extra_arguments": {"Command.__init__": {"assign"}, "Command.check_next_arg": {"setitem"}},
    }
    n = 0
    for attr, allowed in spec.items():
        for f, st, kind in container_writes(ctx, attr, ("parser", "commands")):
            n += 1
            label = "%s: %s" % (f.qualname, norm(st)[:60])
            if f.name == "reassign_arguments" and attr == "arguments":
                ctx.holds("P10", label, "slot move (rule T3')")
                continue
            if attr == "extra_arguments" and f is R.check_next_arg and kind in ("call:pop", "setitem") and _slot_replacement(st):
                ctx.holds("P10", label, "the parameter of a tag that is being replaced in the same slot (rule G8)")
                continue
            if f.qualname in allowed and kind in allowed[f.qualname]:
                # append-only forms
                if kind == "aug" and not isinstance(getattr(st, "op", None), ast.Add):
                    ctx.violation("P10", f, "non-append:%s" % attr, "%s is modified by %s" % (attr, norm(st)[:60]), node=st)
                else:
                    ctx.holds("P10", label)
            else:
                ctx.violation("P10", f, "foreign-write:%s:%s" % (attr, kind), "the parse tree container `%s` is modified in %s by %s"
                              % (attr, f.qualname, norm(st)[:60]), node=st,
                              witness="commands or arguments written in the source disappear from, or are duplicated in, the result")
    ctx.need("P10", "container writes", n, 10)
    # what is appended
    for f, st, kind in container_writes(ctx, "result", ("parser",)):
        if f is R.up and isinstance(st, ast.AugAssign):
            v = st.value
            if isinstance(v, ast.List) and len(v.elts) == 1 and R.an("curcommand") in norm(v.elts[0]):
                ctx.holds("P10", "result += [current command]")
            else:
                ctx.violation("P10", f, "result-append-value", "result is extended with %s, not with the current command" % norm(v), node=st)
    ac = R.addchild
    for f, st, kind in container_writes(ctx, "children", ("commands",)):
        if f is ac and isinstance(st, ast.AugAssign):
            v = st.value
            if isinstance(v, ast.List) and len(v.elts) == 1 and isinstance(v.elts[0], ast.Name) and v.elts[0].id == ac.params[1]:
                ctx.holds("P10", "children += [child]")
            else:
                ctx.violation("P10", f, "children-append-value", "children is extended with %s, not with the given child" % norm(v), node=st)


def p11(ctx, R):
    ctx.rule("P11", "__up records the current top-level command exactly once, before the parent walk, with the comments collected since the last one")
    f = R.up
    cfg = ctx.cfg(f)
    # membership / index / remove on the tree containers compare with ==: once a Command class defines __eq__, "already recorded"
    # means "an equal command was recorded", and a command written twice in the script is taken for its first occurrence
    eqs = [c.name for c in ctx.program.all_classes() if ctx.program.is_subclass(c, "Command") and "__eq__" in c.methods]
    if eqs:
        for g in R.pmod.all_funcs():
            for n in walk_no_nested(g.node):
                hit = None
                if isinstance(n, ast.Compare) and len(n.ops) == 1 and isinstance(n.ops[0], (ast.In, ast.NotIn)) \
                        and isinstance(n.comparators[0], ast.Attribute) and n.comparators[0].attr in ("result", "children"):
                    hit = n
                elif isinstance(n, ast.Call) and isinstance(n.func, ast.Attribute) and n.func.attr in ("index", "remove", "count") \
                        and isinstance(n.func.value, ast.Attribute) and n.func.value.attr in ("result", "children"):
                    hit = n
                if hit is not None:
                    ctx.violation("P11", g, "equality-on-tree:%s" % norm(hit)[:40], "%s compares commands with ==, and %s defines __eq__: a command "
                                  "equal to an earlier one is taken for that earlier one" % (norm(hit)[:50], eqs[0]), node=hit,
                                  witness="`keep; discard; keep;`: the second keep is not recorded")
    recs = [st for st in walk_no_nested(f.node) if isinstance(st, ast.AugAssign) and "result" in norm(st.target)] + \
           [stmt_of(c) for c in walk_no_nested(f.node) if isinstance(c, ast.Call) and call_name(c) == "append" and "result" in norm(c.func.value)]
    if len(recs) != 1:
        ctx.violation("P11", f, "record-sites:%d" % len(recs), "%s records into result at %d places" % (f.qualname, len(recs)), node=f.node)
        return
    rec = recs[0]
    rn = cfg.nodes_for(rec)[0]
    if cfg.in_cycle(rn, exc=False):
        ctx.violation("P11", f, "record-in-loop", "the recording of a finished command sits in a loop: a command can be recorded several times", node=rec)
    else:
        ctx.holds("P11", "recording is not in a loop")
    loops = [lp for lp in walk_no_nested(f.node) if isinstance(lp, ast.While)]
    heads = [x for lp in loops for x in cfg.nodes_for(lp) if x.kind == "join"]
    if heads and any(cfg.path_exists(h, rn, exc=False) for h in heads):
        ctx.violation("P11", f, "record-after-walk", "the command is recorded after the walk to its parents changed the current command", node=rec,
                      witness="the parent (or nothing) is recorded instead of the finished command")
    else:
        ctx.holds("P11", "recording precedes the parent walk")

    def toplevel(fc):
        from sa.util import presence_fact
        e, pol = presence_fact(fc)
        return isinstance(e, ast.Attribute) and e.attr == "parent" and pol is False
    if cfg.guarded(rn, toplevel):
        ctx.holds("P11", "only parentless (top-level) commands go to result")
    else:
        ctx.violation("P11", f, "nested-recorded", "a nested command can be recorded at top level", node=rec)
    # every call path through __up with a top-level command reaches the recording: the early return (onlyrecord) comes after it
    rets = [r for r in walk_no_nested(f.node) if isinstance(r, ast.Return)]
    for r in rets:
        for x in cfg.nodes_for(r):
            if not cfg.guarded(x, lambda fc: not toplevel(fc) and isinstance(fact_atom(fc)[0], ast.Attribute) and fact_atom(fc)[0].attr == "parent",
                               establish=lambda m: m is rn):
                ctx.violation("P11", f, "return-before-record", "%s can return before a top-level command has been recorded" % f.qualname, node=r,
                              witness="the last command of a script is accepted but missing from result")
    # comments
    att = [st for st in walk_no_nested(f.node) if isinstance(st, ast.Assign) and any(isinstance(t, ast.Attribute) and t.attr == "hash_comments"
                                                                                      and R.an("curcommand") in norm(t.value) for t in st.targets)]
    rst = [st for st in walk_no_nested(f.node) if isinstance(st, ast.Assign) and any(isinstance(t, ast.Attribute) and t.attr == "hash_comments"
                                                                                      and isinstance(t.value, ast.Name) for t in st.targets)]
    if len(att) == 1 and len(rst) == 1 and isinstance(rst[0].value, ast.List) and not rst[0].value.elts:
        blk = att[0]._parent
        body = blk.body if att[0] in getattr(blk, "body", []) else []
        if body and rst[0] in body and body.index(rst[0]) == body.index(att[0]) + 1 and rec in body:
            ctx.holds("P11", "collected comments are attached to the recorded command and the collector is emptied right after")
        else:
            ctx.violation("P11", f, "comment-plumbing", "comments are not attached and reset together with the recording", node=att[0])
    else:
        ctx.violation("P11", f, "comment-plumbing", "attach/reset of the collected comments not found (%d/%d)" % (len(att), len(rst)), node=f.node)
    # callers: ';'  '}'  ')'
    callers = [c for g in R.Parser.methods.values() for c in walk_no_nested(g.node) if isinstance(c, ast.Call) and call_name(c) == f.name]
    ctx.need("P11", "call sites of __up", len(callers), 3)


def g7(ctx, R):
    ctx.rule("G7", "a positional (non-tag) optional slot cannot be filled twice")
    cna = R.check_next_arg
    cfg = ctx.cfg(cna)
    victims = []
    for cname, e in sorted(R.concrete().items()):
        for s in e["args_definition"]:
            if not s.get("required") and "tag" not in (s.get("type") or []):
                victims.append("%s.%s" % (e["name"], s["name"]))
    if not victims:
        ctx.holds("G7", "no command has a positional optional slot")
        return

    def required_true(fc):
        e, pol = fact_atom(fc)
        return pol is True and isinstance(e, ast.Call) and call_name(e) == "get" and e.args and const_value(ctx.program, cna, e.args[0]) == "required"

    stores = [st for st in walk_no_nested(cna.node) if isinstance(st, ast.Assign) and any(
        isinstance(t, ast.Subscript) and isinstance(t.value, ast.Attribute) and t.value.attr == "arguments" for t in st.targets)]
    ATYPE = c01._cna_names(R)[0]
    k = 0
    for st in stores:
        for nd in cfg.nodes_for(st):
            if cfg.guarded(nd, required_true):
                continue
            k += 1

            def not_filled(fc):
                e, pol = fact_atom(fc)
                cp = cmp_parts(e)
                return bool(cp and cp[1] in ("In", "NotIn") and "arguments" in norm(cp[2]) and "name" in norm(cp[0]) and ((cp[1] == "NotIn") == pol))
            adv = [x for x in cfg.stmt_nodes() if isinstance(x.ast, ast.Assign) and any(
                isinstance(t, ast.Attribute) and t.attr == "nextargpos" for t in x.ast.targets) and not cfg.guarded(x, required_true)]

            def is_tag_slot(fc):
                e, pol = fact_atom(fc)
                cp = cmp_parts(e)
                if cp and cp[1] in ("Eq", "NotEq") and norm(cp[0]) == ATYPE and const_value(ctx.program, cna, cp[2]) == "tag":
                    return (cp[1] == "Eq") == pol  # the value is a tag, and it was matched against this slot's types
                return bool(cp and cp[1] in ("In", "NotIn") and const_value(ctx.program, cna, cp[0]) == "tag" and "['type']" in norm(cp[2])
                            and "extra_arg" not in norm(cp[2]) and ((cp[1] == "In") == pol))
            # every path to the store (or, if the advance follows the store, to the end of the iteration) passes the advance
            # unless the slot is a tag slot
            before = cfg.guarded(nd, lambda fc: not_filled(fc) or is_tag_slot(fc), establish=lambda m: m in adv)
            after = bool(adv) and all(cfg.exit not in cfg.reach(nd, avoid=adv + [p_ for fc in cfg.facts(is_tag_slot) for p_ in [fc]], exc=False) for _ in [0]) \
                and any(cfg.path_exists(nd, a, exc=False) for a in adv)
            if before or after:
                ctx.holds("G7", "%s: optional store protected against refilling" % cna.qualname)
            else:
                ctx.violation("G7", cna, "positional-overwrite", "an optional positional slot (%s) is stored without advancing past it or testing "
                              "that it is still empty: a second value of the same type overwrites the first" % ", ".join(victims), node=st,
                              witness='`addflag "MyFlags" "Big";` parses to a tree that only holds "Big" (pinned as accepted by the suite)')
    ctx.need("G7", "optional-slot stores", k, 1)


def g8(ctx, R):
    """A tag slot can be filled again by a later tag of the same slot (`:count "gt" :is`).  The parameter recorded for the earlier tag
    lives in another dictionary under the same key: unless it is dropped (or the refill refused) the tree holds `:is` + "gt"."""
    ctx.rule("G8", "refilling a tag slot discards the parameter recorded for the previous tag of that slot")
    cna = R.check_next_arg
    cfg = ctx.cfg(cna)
    sn = cna.params[0]
    has_param_slot = [("%s.%s" % (e["name"], s["name"])) for _, e in sorted(R.concrete().items()) for s in e["args_definition"]
                      if "extra_arg" in s and len(s.get("values") or []) > 1 and s["extra_arg"].get("valid_for")]
    if not has_param_slot:
        ctx.holds("G8", "no tag slot mixes tags with and without a parameter")
        return

    def required_true(fc):
        e, pol = fact_atom(fc)
        return pol is True and isinstance(e, ast.Call) and call_name(e) == "get" and e.args and const_value(ctx.program, cna, e.args[0]) == "required"
    stores = [st for st in walk_no_nested(cna.node) if isinstance(st, ast.Assign) and any(
        isinstance(t, ast.Subscript) and isinstance(t.value, ast.Attribute) and t.value.attr == "arguments"
        and isinstance(t.value.value, ast.Name) and t.value.value.id == sn for t in st.targets)]
    k = 0
    for st in stores:
        nodes = cfg.nodes_for(st)
        if all(cfg.guarded(nd, required_true) for nd in nodes):
            continue  # required slots are filled once (the position advances)
        k += 1
        key = norm([t for t in st.targets if isinstance(t, ast.Subscript)][0].slice)

        def drops(m):
            if m.kind != "stmt":
                return False
            for c in ast.walk(m.ast):
                if isinstance(c, ast.Call) and isinstance(c.func, ast.Attribute) and c.func.attr == "pop" and "extra_arguments" in norm(c.func.value) \
                        and c.args and norm(c.args[0]) == key:
                    return True
                if isinstance(c, ast.Delete) and any("extra_arguments" in norm(t) and key in norm(t) for t in c.targets):
                    return True
            return False

        def not_filled(fc):
            e, pol = fact_atom(fc)
            cp = cmp_parts(e)
            return bool(cp and cp[1] in ("In", "NotIn") and "arguments" in norm(cp[2]) and "extra" not in norm(cp[2]) and norm(cp[0]) == key
                        and ((cp[1] == "NotIn") == pol))
        def no_param(fc):
            e, pol = fact_atom(fc)
            cp = cmp_parts(e)
            return bool(cp and cp[1] in ("In", "NotIn") and "extra_arguments" in norm(cp[2]) and norm(cp[0]) == key and ((cp[1] == "NotIn") == pol))
        dropn = [m for m in cfg.stmt_nodes() if drops(m)] + list(cfg.facts(no_param))
        # either the slot is known to be empty, or the stale parameter is dropped on every path through the store
        before = all(cfg.guarded(nd, not_filled, establish=lambda m: m in dropn) for nd in nodes)
        after = bool(dropn) and all(cfg.exit not in cfg.reach(nd, avoid=dropn, exc=False) for nd in nodes)
        if before or after:
            ctx.holds("G8", "%s: the previous tag's parameter is discarded when the slot is filled again" % cna.qualname)
        else:
            ctx.violation("G8", cna, "stale-tag-parameter", "a tag slot (%s) can be filled a second time while the parameter recorded for the first "
                          "tag stays in extra_arguments: the tree then pairs the new tag with the old parameter" % ", ".join(has_param_slot[:4]),
                          node=st, witness='`header :count "gt" :is "a" "b"` is accepted, prints as `header :is "gt" "a" "b"` and that text is rejected')
    ctx.need("G8", "optional-slot stores", k, 1)


def g9(ctx, R):
    """`nextargpos = pos + 1` is an index into args_definition: pos must be the absolute position of the slot just filled."""
    ctx.rule("G9", "the slot cursor advances to the absolute position of the filled slot + 1")
    cna = R.check_next_arg
    sn = cna.params[0]
    stores = [a for a in walk_no_nested(cna.node) if isinstance(a, ast.Assign) and any(
        isinstance(t, ast.Attribute) and t.attr == "nextargpos" and isinstance(t.value, ast.Name) and t.value.id == sn for t in a.targets)]
    if not stores:
        raise AnalysisError("G9", "no store of the slot cursor in check_next_arg")
    for st in stores:
        v = st.value
        idx = v.left.id if isinstance(v, ast.BinOp) and isinstance(v.op, ast.Add) and isinstance(v.left, ast.Name) \
            and isinstance(v.right, ast.Constant) and v.right.value == 1 else None
        if idx is None:
            ctx.violation("G9", cna, "cursor-step:%s" % norm(v), "the slot cursor is set to %s, not to <position of the filled slot> + 1" % norm(v), node=st)
            continue
        # where does idx come from?
        verdict = None
        p = st
        while p is not None and p is not cna.node:
            p = getattr(p, "_parent", None)
            if isinstance(p, ast.While):
                inits = [a for a in walk_no_nested(cna.node) if isinstance(a, ast.Assign) and any(isinstance(t, ast.Name) and t.id == idx for t in a.targets)]
                incs = [a for a in walk_no_nested(p) if isinstance(a, ast.AugAssign) and isinstance(a.target, ast.Name) and a.target.id == idx]
                ok = len(inits) == 1 and norm(inits[0].value).endswith(".nextargpos") and len(incs) == 1 and isinstance(incs[0].op, ast.Add) \
                    and const_value(ctx.program, cna, incs[0].value) == 1
                verdict = True if ok else "the index %s of the scan loop is not initialised from the cursor and stepped by one" % idx
                break
            if isinstance(p, ast.For):
                tg, it = p.target, p.iter
                names = [t.id for t in (tg.elts if isinstance(tg, ast.Tuple) else [tg]) if isinstance(t, ast.Name)]
                if idx not in names:
                    continue
                if isinstance(it, ast.Call) and call_name(it) == "range":
                    ok = len(it.args) >= 2 and norm(it.args[0]).endswith(".nextargpos") or (len(it.args) == 1)
                    verdict = True if ok else "range() does not start at the cursor"
                elif isinstance(it, ast.Call) and call_name(it) == "enumerate" and it.args:
                    seq = it.args[0]
                    start = it.args[1] if len(it.args) > 1 else next((k.value for k in it.keywords if k.arg == "start"), None)
                    sliced_from = seq.slice.lower if isinstance(seq, ast.Subscript) and isinstance(seq.slice, ast.Slice) else None
                    if sliced_from is None and start is None:
                        verdict = True  # whole table, positions are absolute
                    elif sliced_from is not None and start is not None and norm(start) == norm(sliced_from):
                        verdict = True
                    else:
                        verdict = ("enumerate() counts from %s over the table sliced from %s: %s is relative to the slice, not a position in the table"
                                   % (norm(start) if start is not None else "0", norm(sliced_from) if sliced_from is not None else "0", idx))
                else:
                    verdict = "the loop providing %s is not recognised" % idx
                break
        if verdict is True:
            ctx.holds("G9", "%s: %s with %s an absolute position" % (cna.qualname, norm(st), idx))
        elif verdict is None:
            raise AnalysisError("G9", "loop providing the index %s not found" % idx)
        else:
            ctx.violation("G9", cna, "cursor-relative", "%s: %s" % (norm(st), verdict), node=st,
                          witness='`set "a" "b" "c";` is accepted (the third value overwrites the first slot); a three-argument command records its values under the wrong names')


def t3p(ctx, R):
    ctx.rule("T3'", "reassign_arguments overrides only move values between slots")
    n = 0
    for c in ctx.program.subclasses("Command"):
        f = c.methods.get("reassign_arguments")
        if f is None:
            continue
        n += 1
        ok = True
        from .geval import reassign_eval
        rev = reassign_eval(ctx, R).get(c.name)
        if rev is not None and rev[0] == "bad":
            ok = False
            ctx.violation("T3'", f, "model:reassign", rev[1], node=f.node, witness="an argument written in the source is missing from the tree, or "
                          "sits in a slot it was not written for")
        elif rev is not None:
            ctx.holds("T3'", "%s: %d argument sequences (0..n positional values, with and without tags) keep every written value, in the slot "
                      "it was meant for" % (f.qualname, rev[1]))
        _prev = ctx.demote(["T3'"], "the evaluation of reassign_arguments (T3')", keep_keys=("model:",)) if rev is not None and rev[0] == "ok" else None
        for st in walk_no_nested(f.node):
            if isinstance(st, ast.Assign) and any(isinstance(t, ast.Subscript) and "arguments" in norm(t.value) for t in st.targets):
                v = st.value
                moved = isinstance(v, ast.Call) and call_name(v) == "pop" and "arguments" in norm(v.func.value)
                moved = moved or (isinstance(v, ast.Subscript) and "arguments" in norm(v.value))
                if not moved:
                    ok = False
                    ctx.violation("T3'", f, "reassign-invents", "%s stores %s into a slot (not a value moved from another slot)" % (f.qualname, norm(v)), node=st)
                elif isinstance(v, ast.Call) and (len(v.args) > 1 or v.keywords):
                    # pop(key, default): when the source slot is empty a value that nobody wrote is recorded
                    ok = False
                    ctx.violation("T3'", f, "reassign-invents", "%s moves %s: when the source slot is empty the default is recorded as if it had "
                                  "been written" % (f.qualname, norm(v)), node=st,
                                  witness="`if hasflag {` : the tree holds list-of-flags = None and the script is accepted")
                else:
                    # the source slot must be known to be filled
                    cfg_ = ctx.cfg(f)
                    skey = const_value(ctx.program, f, v.args[0]) if isinstance(v, ast.Call) and v.args else (
                        const_value(ctx.program, f, v.slice) if isinstance(v, ast.Subscript) else TOP)

                    def src_filled(fc, skey=skey):
                        e, pol = fact_atom(fc)
                        cp = cmp_parts(e)
                        return bool(cp and cp[1] in ("In", "NotIn") and const_value(ctx.program, f, cp[0]) == skey and "arguments" in norm(cp[2])
                                    and ((cp[1] == "In") == pol))
                    if skey is not TOP and not all(cfg_.guarded(x, src_filled) for x in cfg_.nodes_for(st)):
                        ok = False
                        ctx.violation("T3'", f, "reassign-source-empty", "%s moves slot %r without having tested that it is filled" % (f.qualname, skey),
                                      node=st, witness="KeyError escapes parse() for a command written without that argument")
            if isinstance(st, ast.Expr) and isinstance(st.value, ast.Call) and call_name(st.value) in ("pop", "clear", "popitem") \
                    and "arguments" in norm(st.value.func.value):
                ok = False
                ctx.violation("T3'", f, "reassign-drops", "%s discards an argument: %s" % (f.qualname, norm(st)), node=st,
                              witness="an argument written in the source is missing from the tree")
            if isinstance(st, ast.Delete) and "arguments" in norm(st):
                ok = False
                ctx.violation("T3'", f, "reassign-drops", "%s deletes an argument: %s" % (f.qualname, norm(st)), node=st)
        # the destination must be empty (guard) so that nothing is overwritten
        for st in walk_no_nested(f.node):
            if isinstance(st, ast.Assign) and any(isinstance(t, ast.Subscript) and "arguments" in norm(t.value) for t in st.targets):
                cfg = ctx.cfg(f)
                key = const_value(ctx.program, f, st.targets[0].slice)

                def dest_empty(fc, key=key):
                    e, pol = fact_atom(fc)
                    cp = cmp_parts(e)
                    return bool(cp and cp[1] in ("In", "NotIn") and const_value(ctx.program, f, cp[0]) == key and "arguments" in norm(cp[2])
                                and ((cp[1] == "NotIn") == pol))
                if not all(cfg.guarded(x, dest_empty) for x in cfg.nodes_for(st)):
                    ok = False
                    ctx.violation("T3'", f, "reassign-overwrites", "%s may overwrite slot %r" % (f.qualname, key), node=st)
        if _prev is not None:
            ctx.restore(_prev)
        if ok:
            ctx.holds("T3'", "%s only moves values into empty slots" % f.qualname)
    ctx.need("T3'", "reassign_arguments overrides", n, 1)
