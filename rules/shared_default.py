"""SD1: a mutable default value of a parameter ([] / {} / set() / list() / dict() / bytearray()) is ONE object for the whole process.
Mutating it in place, or keeping it on the object, carries what one call (one client, one parse) put there into every later call -
across objects.  An ownership rule over all functions of the given modules."""
import ast

from sa.model import walk_no_nested, norm

MUT = {"append", "extend", "insert", "remove", "pop", "clear", "update", "setdefault", "add", "discard", "sort", "reverse", "popitem", "appendleft"}


def _mutable(d):
    return (isinstance(d, (ast.List, ast.Dict, ast.Set)) or (isinstance(d, ast.Call) and isinstance(d.func, ast.Name) and d.func.id in (
        "list", "dict", "set", "bytearray", "deque", "defaultdict", "OrderedDict") and not d.args))


def shared_defaults(ctx, modules, rule="SD1"):
    ctx.rule(rule, "no parameter default that is a mutable object is modified in place or kept on an object")
    n = 0
    for f in ctx.program.all_funcs():
        if f.module.name not in modules:
            continue
        for p, d in f.defaults().items():
            if d is None or not _mutable(d):
                continue
            n += 1
            rebound = [a for a in walk_no_nested(f.node) if isinstance(a, ast.Assign) and any(isinstance(t, ast.Name) and t.id == p for t in a.targets)]
            bad = None
            for x in walk_no_nested(f.node):
                if isinstance(x, ast.Call) and isinstance(x.func, ast.Attribute) and x.func.attr in MUT and isinstance(x.func.value, ast.Name) \
                        and x.func.value.id == p:
                    bad = (x, "%s.%s(...)" % (p, x.func.attr))
                elif isinstance(x, ast.AugAssign) and isinstance(x.target, ast.Name) and x.target.id == p:
                    bad = (x, "%s %s= ..." % (p, type(x.op).__name__))
                elif isinstance(x, (ast.Assign, ast.Delete)) and any(isinstance(t, ast.Subscript) and isinstance(t.value, ast.Name) and t.value.id == p
                                                                     for t in (x.targets if hasattr(x, "targets") else [])):
                    bad = (x, "%s[...] is assigned / deleted" % p)
                elif isinstance(x, ast.Assign) and isinstance(x.value, ast.Name) and x.value.id == p and any(
                        isinstance(t, ast.Attribute) for t in x.targets):
                    bad = (x, "%s is kept as %s" % (p, norm(x.targets[0])))
                if bad:
                    break
            if bad and not (rebound and all(r_.lineno < bad[0].lineno for r_ in rebound) and not any(
                    isinstance(r_._parent, (ast.If, ast.For, ast.While, ast.Try)) and False for r_ in rebound)):
                ctx.violation(rule, f, "shared-default:%s" % p, "the default of parameter `%s` (%s) is one object for the whole process and %s: what "
                              "one call leaves there is seen by every later call that relies on the default, on any object"
                              % (p, norm(d), bad[1]), node=bad[0],
                              witness="the second call (or the second client / parser of the process) starts with the first one's data")
            else:
                ctx.holds(rule, "%s: the mutable default of `%s` is only read%s" % (f.qualname, p, " (or re-bound before it is changed)" if rebound else ""))
    if n == 0:
        ctx.holds(rule, "no parameter of %s has a mutable default" % ", ".join(sorted(modules)))
