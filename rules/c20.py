"""C20 - Registered custom commands are parsed and printed per definition (thin).

Y1 registry write/lookup agreement, Y2 documented definition keys are
understood, Y3 = the generic interpreter/serializer disciplines (G2-G7, E3,
E4, S1/S2), which are stated on the interpreter and therefore hold for any
definition.
"""
import ast
import os
import re

from sa.model import AnalysisError, walk_no_nested, norm, call_name
from sa.util import fact_atom, cmp_parts, const_value, raise_name
from .proles import ParserRoles
from . import c01, c03


def run(ctx):
    R = ParserRoles(ctx, "Y")
    ctx.explanation = (
        "(Y1) add_commands stores a class into the very namespace the lookup reads (both use globals() of commands.py), "
        "under its __name__ and only if it carries the suffix the lookup appends; the lookup raises UnknownCommand for "
        "an absent name before touching anything else, so unregistered names stay unknown; (Y2) every key of the "
        "documented definition format (README example, CommandArg / CommandExtraArg) is read by the interpreter or the "
        "serializer - keys that are silently ignored are listed; (Y3) the disciplines of the generic argument "
        "interpreter and of the table well-formedness rules (G2, G4, G5, G6, G7, T2) hold on the interpreter itself and "
        "therefore for every registered definition, not only for the built-in tables.")
    ctx.not_decided = "the accepted language per definition (product of definitions x uses) and the serializer round trip for custom commands."
    lk, ac = R.lookup, R.add_commands

    # ---- Y1 -----------------------------------------------------------------------
    ctx.rule("Y1", "registration and lookup use the same namespace, key and suffix; absent names are rejected first")
    gl_names = {t.id for a in walk_no_nested(ac.node) if isinstance(a, ast.Assign) and isinstance(a.value, ast.Call) and call_name(a.value) == "globals"
                and not a.value.args for t in a.targets if isinstance(t, ast.Name)}

    ns_kind, ns_name = R.command_namespace()

    def is_globals(e):
        if ns_kind == "registry":
            return isinstance(e, ast.Name) and e.id == ns_name  # the explicit registry the lookup reads
        return (isinstance(e, ast.Call) and call_name(e) == "globals") or (isinstance(e, ast.Name) and e.id in gl_names)
    stores = [st for st in walk_no_nested(ac.node) if isinstance(st, ast.Assign) and any(
        isinstance(t, ast.Subscript) and is_globals(t.value) for t in st.targets)]
    if not stores:
        ctx.violation("Y1", ac, "no-registration", "add_commands does not store into globals()", node=ac.node,
                      witness="a registered command stays unknown to the parser")
    for st in stores:
        key = st.targets[0].slice
        if norm(key).endswith(".__name__") and isinstance(st.value, ast.Name) and norm(key).startswith(st.value.id + "."):
            ctx.holds("Y1", "add_commands: %s" % norm(st))
        else:
            ctx.violation("Y1", ac, "registration-key", "a command is registered under %s, not under its own __name__" % norm(key), node=st)
        cfg = ctx.cfg(ac)

        def suffix(fc):
            e, pol = fact_atom(fc)
            return pol is True and isinstance(e, ast.Call) and call_name(e) == "endswith" and e.args and const_value(ctx.program, ac, e.args[0]) == "Command"
        if all(cfg.guarded(n, suffix) for n in cfg.nodes_for(st)):
            ctx.holds("Y1", "only names ending in 'Command' are registered")
        else:
            ctx.notice("Y1", "add_commands registers names without the 'Command' suffix test (such names can never be looked up)")
    reads = [c for c in walk_no_nested(lk.node) if isinstance(c, ast.Call) and call_name(c) == "globals"]
    if ns_kind == "registry":
        reads = [c for c in walk_no_nested(lk.node) if isinstance(c, ast.Name) and c.id == ns_name]
    if reads and lk.module is ac.module:
        ctx.holds("Y1", "lookup reads globals() of the same module (%s)" % lk.module.relpath)
    else:
        ctx.violation("Y1", lk, "namespace-mismatch", "the lookup does not read the namespace add_commands writes", node=lk.node,
                      witness="registered commands are not found")
    from sa.template import template, shape
    shapes = [shape(template(n)) for n in walk_no_nested(lk.node) if isinstance(n, (ast.BinOp, ast.Call, ast.JoinedStr))]
    shapes = [x for x in shapes if x is not None and x.endswith("Command")]
    if shapes and all(x == "\0Command" for x in shapes):
        ctx.holds("Y1", "lookup appends the suffix 'Command' to the capitalised lower-cased name")
    else:
        ctx.violation("Y1", lk, "suffix-mismatch", "the lookup does not build '<Name>Command'", node=lk.node)
    # absent name -> UnknownCommand before any attribute access on the class
    cfgl = ctx.cfg(lk)
    subs = [s_ for s_ in walk_no_nested(lk.node) if isinstance(s_, ast.Subscript) and isinstance(s_.ctx, ast.Load) and isinstance(s_.value, ast.Name)
            and any(isinstance(a, ast.Assign) and isinstance(a.value, ast.Call) and call_name(a.value) == "globals"
                    and any(isinstance(t, ast.Name) and t.id == s_.value.id for t in a.targets) for a in walk_no_nested(lk.node))]

    def present(fc):
        e, pol = fact_atom(fc)
        cp = cmp_parts(e)
        return bool(cp and cp[1] in ("In", "NotIn") and ((cp[1] == "In") == pol))
    from .c02 import expr_guards, _atom
    bad = []
    for s_ in subs:
        inexpr = any(present_fact(e, pol) for e, pol in expr_guards(s_))
        nodes = cfgl.node_containing(s_)
        if not inexpr and not (nodes and all(cfgl.guarded(n, present) for n in nodes)):
            bad.append(s_)
    if bad:
        ctx.violation("Y1", lk, "absent-name-indexed", "the namespace is indexed (%s) before the name was found present" % norm(bad[0]), node=bad[0],
                      witness="an unregistered name raises KeyError instead of UnknownCommand")
    else:
        ctx.holds("Y1", "namespace indexed only after the membership test (%d sites)" % len(subs))
    if any(raise_name(r) == "UnknownCommand" for r in walk_no_nested(lk.node) if isinstance(r, ast.Raise)):
        ctx.holds("Y1", "absent names raise UnknownCommand")
    else:
        ctx.violation("Y1", lk, "no-unknown-command", "the lookup never raises UnknownCommand", node=lk.node)

    # ---- Y2 -----------------------------------------------------------------------
    ctx.rule("Y2", "keys of the documented definition format are read by the interpreter / serializer")
    documented = {"slot": set(), "extra": set()}
    for cname, kind in (("CommandArg", "slot"), ("CommandExtraArg", "extra")):
        c = R.cmod.classes.get(cname)
        if c is not None:
            for st in c.node.body:
                if isinstance(st, ast.AnnAssign) and isinstance(st.target, ast.Name):
                    documented[kind].add(st.target.id)
    readme = os.path.join(ctx.repo, "README.rst")
    readme_keys = set()
    if os.path.exists(readme):
        txt = open(readme, encoding="utf-8").read()
        m = re.search(r"Extending the parser(.*?)Basic usage", txt, re.S)
        if m:
            readme_keys = set(re.findall(r'"(\w+)"\s*:', m.group(1)))
    used = {"slot": set(), "extra": set()}
    for f in (R.check_next_arg, R.iscomplete, R.tosieve, R.valid_value, R.valid_type):
        if f is None:
            continue
        for n in walk_no_nested(f.node):
            key = obj = None
            if isinstance(n, ast.Subscript) and isinstance(n.slice, ast.Constant) and isinstance(n.slice.value, str):
                key, obj = n.slice.value, n.value
            elif isinstance(n, ast.Call) and call_name(n) == "get" and n.args and isinstance(n.args[0], ast.Constant) and isinstance(n.func, ast.Attribute):
                key, obj = n.args[0].value, n.func.value
            elif isinstance(n, ast.Compare) and isinstance(n.left, ast.Constant) and isinstance(n.left.value, str) and len(n.comparators) == 1:
                key, obj = n.left.value, n.comparators[0]
            if key is None:
                continue
            level = "extra" if "extra_arg" in norm(obj) else "slot"
            used[level].add(key)
    readme_slot = {k for k in readme_keys if k not in ("write_tag",)} - {"required"} | ({"required"} & readme_keys)
    allkeys = documented["slot"] | documented["extra"] | readme_keys
    if len(allkeys) < 6:
        raise AnalysisError("Y2", "documented keys not found (CommandArg / README)")
    essential = {"slot": {"name", "type", "required", "values", "extra_arg", "extension", "extension_values"},
                 "extra": {"type", "values", "valid_for"}}
    for level, keys in (("slot", documented["slot"] | (readme_keys - documented["extra"])), ("extra", documented["extra"])):
        for k in sorted(keys):
            if k in used[level]:
                ctx.holds("Y2", "%s-level key %r is read by the interpreter/serializer" % (level, k))
            elif k in essential[level]:
                ctx.violation("Y2", R.check_next_arg, "key-ignored:%s:%s" % (level, k), "the documented %s-level definition key %r is never read: "
                              "definitions using it are silently misinterpreted" % (level, k), node=R.check_next_arg.node,
                              witness="a custom command whose definition restricts values / names an extension is not checked accordingly")
            else:
                ctx.notice("Y2", "documented %s-level key %r is accepted but ignored by the interpreter and the serializer" % (level, k))

    # ---- Y4 -----------------------------------------------------------------------
    ctx.rule("Y4", "registration hands a definition to the interpreter as it was written (no key of it is rewritten)")
    keys = {"type", "values", "name", "valid_for", "extension", "extension_values"}
    todo, seen_f = [R.add_commands], set()
    nst = 0
    while todo:
        g = todo.pop()
        if g.qualname in seen_f:
            continue
        seen_f.add(g.qualname)
        for n in walk_no_nested(g.node):
            if isinstance(n, ast.Call) and isinstance(n.func, ast.Name) and n.func.id in R.cmod.funcs and R.cmod.funcs[n.func.id] is not R.lookup:
                todo.append(R.cmod.funcs[n.func.id])
            if isinstance(n, ast.Assign):
                for t in n.targets:
                    if isinstance(t, ast.Subscript) and isinstance(t.slice, ast.Constant) and t.slice.value in keys:
                        nst += 1
                        v = n.value
                        if isinstance(v, ast.Call) and isinstance(v.func, ast.Name) and v.func.id in ("dict", "list", "tuple") and len(v.args) == 1 \
                                and v.func.id != "list":
                            v = v.args[0]
                        same = isinstance(v, ast.Subscript) and isinstance(v.slice, ast.Constant) and v.slice.value == t.slice.value
                        if not same:
                            ctx.violation("Y4", g, "definition-rewritten:%s" % t.slice.value, "%s stores %s under the key %r of an argument "
                                          "definition: the interpreter no longer reads what the command's author wrote (a scalar type and a list "
                                          "of types are not checked the same way)" % (g.qualname, norm(n.value)[:50], t.slice.value), node=n,
                                          witness='a registered command whose tag parameter is declared "stringlist" no longer accepts a single string')
    if not any(f_.rule == "Y4" for f_ in ctx.findings):
        ctx.holds("Y4", "%s and the %d module function(s) it calls store nothing under the keys %s of a definition"
                  % (R.add_commands.qualname, len(seen_f) - 1, sorted(keys)))

    # ---- Y5 -----------------------------------------------------------------------
    ctx.rule("Y5", "a definition's `type` may be a list: it is never used as a dictionary key / set member")
    n5 = 0
    for g in R.cmod.all_funcs():
        for n in walk_no_nested(g.node):
            key = None
            if isinstance(n, ast.Call) and isinstance(n.func, ast.Attribute) and n.func.attr in ("get", "setdefault", "pop") and n.args \
                    and not (isinstance(n.func.value, ast.Name) and n.func.value.id in ("os",)):
                key = n.args[0]
            elif isinstance(n, ast.Subscript) and not isinstance(n.slice, (ast.Slice, ast.Constant)):
                key = n.slice
            if key is None:
                continue
            # the key itself is <definition>["type"] (of a slot or of its extra_arg)
            if isinstance(key, ast.Subscript) and isinstance(key.slice, ast.Constant) and key.slice.value == "type" \
                    and not (isinstance(n, ast.Subscript) and n is key):
                recv_ = n.func.value if isinstance(n, ast.Call) else n.value
                # mappings only: a list indexed by a type would be a TypeError of another kind, not our concern
                n5 += 1
                ctx.violation("Y5", g, "type-as-key:%s" % norm(key)[:30], "%s looks %s up in %s: the `type` of a definition may be written as a list "
                              "(['string', 'stringlist']), which is not hashable" % (g.qualname, norm(key)[:40], norm(recv_)[:30]), node=n,
                              witness="a registered command whose tag parameter has a list type makes parse() raise TypeError on a rejected use")
    if not n5:
        ctx.holds("Y5", "no mapping in commands.py is keyed by a definition's `type`")

    # ---- Y3 -----------------------------------------------------------------------
    c01.t2(ctx, R)
    c01.t5(ctx, R)
    from .geval import with_g11
    with_g11(ctx, R, [c01.g2, c01.g4, c01.g5, c01.g6, c03.g7, c03.g9])
    # what a custom command records is what THIS script wrote for it: string lists are collected per `[ ... ]` (P14 of C01) and every
    # parser attribute the token handlers write is re-initialised per parse (H2 of C13)
    c01.p14(ctx, R)
    from .c13 import h2
    h2(ctx, R)
    # the names and tags of a registered command are tokens like any other (letters, digits, underscore): the token rules (L1-L4 of C01)
    c01.lexer_rules(ctx, R)
    # ---- G10 ----------------------------------------------------------------------
    ctx.rule("G10", "a command is closed by `;` only when every required argument of its definition was given")
    from sa.util import fact_call
    cmdf = R.command
    cfgc = ctx.cfg(cmdf)
    ups = [c for c in walk_no_nested(cmdf.node) if isinstance(c, ast.Call) and call_name(c) == R.up.name]

    def semicolon(fc):
        e, pol = fact_atom(fc)
        cp = cmp_parts(e)
        return bool(cp and cp[1] == "Eq" and pol is True and const_value(ctx.program, cmdf, cp[2]) == "semicolon")
    closing = [c for c in ups if all(cfgc.guarded(x, semicolon) for x in cfgc.node_containing(c))]
    if not closing:
        raise AnalysisError("G10", "the `;` branch of the command state function was not found")

    def complete(fc):
        c_, pol = fact_call(fc)
        return c_ is not None and call_name(c_) == "iscomplete" and pol is True
    # either the branch tests iscomplete() itself, or it relies on the completion check, which then must refuse an incomplete command
    direct = all(all(cfgc.guarded(x, complete) for x in cfgc.node_containing(c)) for c in closing)
    via = False
    if not direct:
        comp = R.completion
        cfgk = ctx.cfg(comp)
        trues = [r for r in walk_no_nested(comp.node) if isinstance(r, ast.Return) and const_value(ctx.program, comp, r.value) is True]
        via = bool(trues) and all(all(cfgk.guarded(x, complete) for x in cfgk.nodes_for(r)) for r in trues) and all(
            all(cfgc.guarded(x, lambda fc: (fact_call(fc)[0] is not None and call_name(fact_call(fc)[0]) == comp.name and fact_call(fc)[1] is True))
                for x in cfgc.node_containing(c)) for c in closing)
    if direct or via:
        ctx.holds("G10", "%s: `;` closes a command only after iscomplete()" % cmdf.qualname)
    else:
        # identified by the function's role (its private name may change)
        ctx.violation("G10", "Parser.<command state function>", "semicolon-closes-incomplete", "`;` closes the current command without any test that its required arguments "
                      "were all given (the completion check answers True for an incomplete command)", node=closing[0], file=cmdf.file,
                      witness='a registered command with two required strings is accepted as `mycmd "only-one";` (the suite pins `reject;`)')
    # "its required extension": the extension gates (E2-E7 of C07) decide whether a registered command's require is honoured
    from .c07 import gates
    gates(ctx, R)
    # printing of custom commands goes through the generic serializer (S1-S5 of C04); re-registration must not meet stale per-name state (H1 of C13)
    from .c04 import serializer_rules
    from .c13 import h1
    serializer_rules(ctx, R)
    h1(ctx, R)


def present_fact(e, pol):
    from .c02 import _atom
    e, pol = _atom(e, pol)
    cp = cmp_parts(e)
    return bool(cp and cp[1] in ("In", "NotIn") and ((cp[1] == "In") == pol))
