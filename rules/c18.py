"""C18 - Parse errors point at the offending place.

Z1 token yielded before the position advances, Z2 line/column formulas, Z3
error_pos/error assembly, Z4 lazy consumption of the token stream, Z5 (=X2)
replay sets the position back to the start of the replayed token.
"""
import ast

from sa.model import AnalysisError, walk_no_nested, norm, call_name, mangle
from sa.util import const_value, contains
from .proles import ParserRoles
from .c02 import x2, funnel


def run(ctx):
    R = ParserRoles(ctx, "Z")
    ctx.explanation = (
        "(Z1) in Lexer.scan no position write lies on any path from the loop head to the yield, so while a handler "
        "raises, the position is the start of the current token; (Z2) curlineno is 1 + the number of LF bytes before "
        "the position and curcolno is the position minus the index of the last LF before it (accepted equivalent "
        "forms: slice+count or count/rfind with bounds), both in bytes; (Z3) the funnel's handler builds error_pos "
        "from exactly those two calls and len() of the loop's current token value, and the text from the same line "
        "number; (Z4) parse iterates the generator directly (no list/tuple/sorted/reversed around it), so no position "
        "depends on later input; (Z5) the only foreign position write is the bounded replay of rule X2 (distance = "
        "exact token width).")
    ctx.not_decided = "'never before the first token that makes the script invalid' for errors detected late (behavioural)."
    scan = R.scan
    cfg = ctx.cfg(scan)
    # the byte length reported for the offending token is the extent the token rules give it: the rules themselves (L1-L4 of C01)
    from .c01 import lexer_rules
    lexer_rules(ctx, R)

    # ---- Z1 / Z2 by evaluation ------------------------------------------------------
    ctx.rule("Z1", "no position write between the lexer loop head and the yield")
    ctx.rule("Z2", "curlineno = 1 + #LF before pos ; curcolno = pos - index of last LF before pos")
    try:
        lev = lexer_eval(ctx, R)
    except RecursionError:
        lev = None
    if lev is not None and lev[0] == "bad":
        ctx.violation(lev[3] if len(lev) > 3 else "Z2", scan, "model:lexer-position", "for the text %r: %s" % (lev[1], lev[2]), node=scan.node,
                      witness="parse(%r): the error is reported at another place than the offending token" % (lev[1],))
    elif lev is not None:
        ctx.holds("Z1", "%s: at each of %d yields / lexical errors over %d sample texts (LF and CRLF, comments and multi-byte text before the "
                  "token, a replayed `{`) the lexer's state describes the start of the current token" % (scan.qualname, lev[1], len(LEXER_SAMPLES)))
        ctx.holds("Z2", "curlineno() / curcolno() interpreted in those %d states give the token's line and 1-based byte column" % lev[1])
    loops = [n for n in walk_no_nested(scan.node) if isinstance(n, ast.While)]
    if len(loops) != 1 and lev is None:
        raise AnalysisError("Z1", "Lexer.scan: expected one loop")
    if lev is not None:
        yields = [n for n in cfg.stmt_nodes() if isinstance(n.ast, ast.Expr) and isinstance(n.ast.value, (ast.Yield, ast.YieldFrom))]
        return _after_z2(ctx, R, scan, loops, yields, lev if lev[0] == "ok" else None)
    return _syntactic_z1_z2(ctx, R, scan, cfg, loops)


def _syntactic_z1_z2(ctx, R, scan, cfg, loops):
    head = [n for n in cfg.nodes_for(loops[0]) if n.kind == "join"][0]
    yields = [n for n in cfg.stmt_nodes() if isinstance(n.ast, ast.Expr) and isinstance(n.ast.value, (ast.Yield, ast.YieldFrom))]
    if not yields:
        raise AnalysisError("Z1", "Lexer.scan does not yield")
    posw = [n for n in cfg.stmt_nodes() if isinstance(n.ast, (ast.Assign, ast.AugAssign)) and any(
        isinstance(t, ast.Attribute) and t.attr == "pos" for t in (n.ast.targets if isinstance(n.ast, ast.Assign) else [n.ast.target]))
        and contains(loops[0], n.ast)]
    for y in yields:
        bad = [w for w in posw if y in cfg.reach(w, avoid=[head], exc=False)]
        if bad:
            ctx.violation("Z1", scan, "advance-before-yield", "the position is updated (%s) before the token is yielded: while the parser handles "
                          "the token the position already points behind it" % norm(bad[0].ast), node=bad[0].ast,
                          witness="`keep;\\nfoo;`: the unknown command is reported at the column after `foo` (or on the next line)")
        else:
            ctx.holds("Z1", "%s: yield precedes the position update in its iteration" % scan.qualname)
        # what is yielded: (rule name, matched text of that rule)
        v = y.ast.value.value
        if isinstance(v, ast.Tuple) and len(v.elts) == 2 and "lastgroup" in norm(v.elts[0]) and "group" in norm(v.elts[1]):
            ctx.holds("Z1", "yielded value is (rule name, matched text)")
        else:
            ctx.violation("Z1", scan, "yield-shape", "the lexer yields %s, not (rule name, matched text)" % norm(v), node=y.ast)

    # ---- Z2 ----------------------------------------------------------------------
    ln = R.Lexer.methods.get("curlineno")
    col = R.Lexer.methods.get("curcolno")
    if ln is None or col is None:
        raise AnalysisError("Z2", "Lexer.curlineno / curcolno not found")

    def single_return(f):
        rs = [r for r in walk_no_nested(f.node) if isinstance(r, ast.Return) and r.value is not None]
        body = [s for s in f.node.body if not (isinstance(s, ast.Expr) and isinstance(s.value, ast.Constant))]
        if len(rs) != 1 or len(body) != 1:
            return None
        return rs[0].value

    def is_self(e, attr):
        return isinstance(e, ast.Attribute) and e.attr == attr and isinstance(e.value, ast.Name)

    def is_lf(e, f):
        return const_value(ctx.program, f, e) == b"\n"

    def line_ok(e, f):
        # X + 1  /  1 + X
        if not (isinstance(e, ast.BinOp) and isinstance(e.op, ast.Add)):
            return False
        for a, b in ((e.left, e.right), (e.right, e.left)):
            if const_value(ctx.program, f, b) == 1 and isinstance(a, ast.Call) and isinstance(a.func, ast.Attribute) and a.func.attr == "count" \
                    and a.args and is_lf(a.args[0], f):
                recv = a.func.value
                # text[:pos].count(LF)
                if len(a.args) == 1 and isinstance(recv, ast.Subscript) and isinstance(recv.slice, ast.Slice) and is_self(recv.value, "text") \
                        and recv.slice.lower is None and recv.slice.upper is not None and is_self(recv.slice.upper, "pos") and recv.slice.step is None:
                    return True
                # text.count(LF, 0, pos)
                if len(a.args) == 3 and is_self(recv, "text") and const_value(ctx.program, f, a.args[1]) == 0 and is_self(a.args[2], "pos"):
                    return True
        return False

    def col_ok(e, f):
        # pos - text.rfind(LF, 0, pos)   |  pos - text[:pos].rfind(LF)
        if not (isinstance(e, ast.BinOp) and isinstance(e.op, ast.Sub) and is_self(e.left, "pos")):
            return False
        a = e.right
        if not (isinstance(a, ast.Call) and isinstance(a.func, ast.Attribute) and a.func.attr == "rfind" and a.args and is_lf(a.args[0], f)):
            return False
        recv = a.func.value
        if len(a.args) == 3 and is_self(recv, "text") and const_value(ctx.program, f, a.args[1]) == 0 and is_self(a.args[2], "pos"):
            return True
        if len(a.args) == 1 and isinstance(recv, ast.Subscript) and isinstance(recv.slice, ast.Slice) and is_self(recv.value, "text") \
                and recv.slice.lower is None and recv.slice.upper is not None and is_self(recv.slice.upper, "pos"):
            return True
        return False

    def sampled(f, which):
        """The position function evaluated for every offset of a few texts (LF and CRLF lines, empty lines, no final newline) and
        compared with the definition.  'ok' / a counterexample text / None when the interpreter cannot follow the function."""
        from sa import fd
        import bisect as _bisect
        import re as _re
        texts = [b"", b"a", b"ab\ncd", b"\n\nx\n", b"a\r\nbc\r\n\r\nd", b"keep;\n# c\nstop ;"]
        selfp = f.params[0]

        def oracle(interp, e, name, recv, args, kw, st):
            if name and name.startswith("self.") and name[5:] in R.Lexer.methods and R.Lexer.methods[name[5:]] is not f:
                return fd.Inline(R.Lexer.methods[name[5:]])
            fn = e.func
            if isinstance(fn, ast.Attribute) and isinstance(fn.value, ast.Name) and fn.value.id == "re" and fn.attr == "finditer" \
                    and len(args) == 2 and all(isinstance(a, fd.Const) for a in args):
                try:
                    return [(fd.Const([fd.Rec("Match", start=m_.start(), end=m_.end()) for m_ in _re.finditer(args[0].v, args[1].v)]), None)]
                except Exception:
                    return None
            if isinstance(recv, fd.Const) and isinstance(recv.v, fd.Rec) and recv.v.cls == "Match" and name in ("start", "end") and not args:
                return [(fd.Const(recv.v.fields[name]), None)]
            if name in ("bisect_right", "bisect", "bisect_left") and len(args) == 2 and all(isinstance(a, fd.Const) for a in args):
                return [(fd.Const(getattr(_bisect, "bisect_right" if name == "bisect" else name)(args[0].v, args[1].v)), None)]
            return None
        n = 0
        for text in texts:
            for pos in range(len(text) + 1):
                it = fd.Interp(f.node, R.Lexer.name, oracle, loop_unroll=len(text) + 2, max_depth=3)
                env = {"%s.text" % selfp: fd.Const(text), "%s.pos" % selfp: fd.Const(pos)}
                for an in [n_ for n_ in R.Lexer.methods["__init__"].node.body if isinstance(n_, ast.Assign)]:
                    for t_ in an.targets:
                        if isinstance(t_, ast.Attribute) and t_.attr not in ("text", "pos") and isinstance(an.value, ast.Constant):
                            env["%s.%s" % (selfp, t_.attr)] = fd.Const(an.value.value)
                try:
                    paths = it.run(env)
                except fd.TooManyPaths:
                    return None
                if len(paths) != 1 or paths[0].kind != "return" or not isinstance(paths[0].value, fd.Const):
                    return None
                want = text[:pos].count(b"\n") + 1 if which == "line" else pos - text.rfind(b"\n", 0, pos)
                n += 1
                if paths[0].value.v != want:
                    return (text, pos, paths[0].value.v, want)
        return "ok:%d" % n

    e = single_return(ln)
    if e is not None and line_ok(e, ln):
        ctx.holds("Z2", "curlineno: %s" % norm(e))
    elif isinstance(sampled(ln, "line"), str):
        ctx.holds("Z2", "curlineno: not one of the recognised formulas; evaluated for every offset of six texts (%s offsets): equal to "
                        "1 + the number of LF before the offset on all of them (a sample, not a proof)" % sampled(ln, "line")[3:])
    elif sampled(ln, "line") is not None:
        t_, p_, g_, w_ = sampled(ln, "line")
        ctx.violation("Z2", ln, "line-value", "curlineno gives %r for offset %d of %r; 1 + the number of LF bytes before the offset is %d"
                      % (g_, p_, t_, w_), node=ln.node, witness="an error at that offset is reported on the wrong line")
    else:
        ctx.violation("Z2", ln, "line-formula", "curlineno computes %s, which is not 1 + the number of LF bytes before the position"
                      % (norm(e) if e is not None else "<several statements>"), node=ln.node,
                      witness="an error on the second line of a script is reported on another line (or differently for CRLF files)")
    e = single_return(col)
    if e is not None and col_ok(e, col):
        ctx.holds("Z2", "curcolno: %s" % norm(e))
    elif isinstance(sampled(col, "col"), str):
        ctx.holds("Z2", "curcolno: not one of the recognised formulas; evaluated for every offset of six texts (%s offsets): equal to the "
                        "offset minus the index of the last LF before it on all of them (a sample, not a proof)" % sampled(col, "col")[3:])
    elif sampled(col, "col") is not None:
        t_, p_, g_, w_ = sampled(col, "col")
        ctx.violation("Z2", col, "column-value", "curcolno gives %r for offset %d of %r; the offset minus the index of the last LF before it is %d"
                      % (g_, p_, t_, w_), node=col.node, witness="the reported column of an offending token is off")
    else:
        ctx.violation("Z2", col, "column-formula", "curcolno computes %s, which is not the position minus the index of the last LF before it"
                      % (norm(e) if e is not None else "<several statements>"), node=col.node,
                      witness="the reported column of an offending token is off (e.g. 0-based, or counted from the file start)")

    return _after_z2(ctx, R, scan, loops, yields)


def _after_z2(ctx, R, scan, loops, yields, lev=None):
    # ---- Z3 ----------------------------------------------------------------------
    ctx.rule("Z3", "error_pos = (curlineno(), curcolno(), len(<current token value>)); error text uses the same line")
    tr, caught = funnel(ctx, R, "Z3")
    fors = [x for x in ast.walk(tr) if isinstance(x, ast.For) and "scan" in norm(x.iter)]
    if not fors:
        raise AnalysisError("Z3", "token loop not found")
    tgt = fors[0].target
    tval = tgt.elts[1].id if isinstance(tgt, ast.Tuple) and len(tgt.elts) == 2 and isinstance(tgt.elts[1], ast.Name) else None
    holders_read = set()
    for h in tr.handlers:
        hev = None
        if lev is not None:
            try:
                hev = handler_eval(ctx, R, h, fors, lev)
            except RecursionError:
                hev = None
        if hev is not None and hev[0] == "bad":
            ctx.violation("Z3", R.parse, "model:error-pos", hev[1], node=h, witness="line/column/length of the reported position do not describe the "
                          "offending token")
            continue
        if hev is not None:
            ctx.holds("Z3", "handler `except %s`: in %d (text, lexer state, current token) moments error_pos is the token's (line, 1-based byte "
                      "column, byte length) and the error text names that line" % (norm(h.type)[:40] if h.type is not None else "", hev[1]))
            holders_read |= {x.attr for x in ast.walk(h) if isinstance(x, ast.Attribute) and x.attr in token_holders(fors[0], tval)}
            continue
        poss = [a for a in walk_no_nested(h) if isinstance(a, ast.Assign) and any(isinstance(t, ast.Attribute) and t.attr == "error_pos" for t in a.targets)]
        if len(poss) != 1 or not isinstance(poss[0].value, ast.Tuple) or len(poss[0].value.elts) != 3:
            ctx.violation("Z3", R.parse, "error-pos-shape", "error_pos is not assigned a (line, column, length) triple in the handler", node=h)
            continue
        def local_value(e, h=h):
            # a component computed into a local of the handler first (`lineno = self.lexer.curlineno()`)
            if isinstance(e, ast.Name):
                ds = [a for a in walk_no_nested(h) if isinstance(a, ast.Assign) and len(a.targets) == 1 and isinstance(a.targets[0], ast.Name)
                      and a.targets[0].id == e.id]
                if len(ds) == 1 and ds[0].lineno <= e.lineno:
                    return ds[0].value
            return e
        e0, e1, e2 = [local_value(x) for x in poss[0].value.elts]
        raw0, raw1 = poss[0].value.elts[0], poss[0].value.elts[1]
        ok0 = position_source(ctx, R, h, raw0) == "line"
        ok1 = position_source(ctx, R, h, raw1) == "column"
        ok2 = isinstance(e2, ast.Call) and call_name(e2) == "len" and e2.args and isinstance(e2.args[0], ast.Name) and e2.args[0].id == tval
        if ok0 and ok1 and ok2:
            ctx.holds("Z3", "error_pos = (%s, %s, %s)" % (norm(e0), norm(e1), norm(e2)))
        else:
            ctx.violation("Z3", R.parse, "error-pos-components", "error_pos is (%s, %s, %s); expected (lexer.curlineno(), lexer.curcolno(), len(%s))"
                          % (norm(e0), norm(e1), norm(e2), tval), node=poss[0],
                          witness="line/column/length of the reported position do not describe the offending token")
        errs = [a for a in walk_no_nested(h) if isinstance(a, ast.Assign) and any(isinstance(t, ast.Attribute) and t.attr == "error" for t in a.targets)]
        for a in errs:
            v = a.value
            first = None
            from sa.template import template, holes
            hs = holes(template(v))
            if hs:
                first = local_value(hs[0].expr)
            if first is not None and (norm(first).endswith("error_pos[0]") or (isinstance(first, ast.Call) and call_name(first) == "curlineno")
                                      or (hs and position_source(ctx, R, h, hs[0].expr) == "line")):
                ctx.holds("Z3", "error text line = %s" % norm(first))
            else:
                ctx.violation("Z3", R.parse, "error-line-source", "the line number in the error text is %s, not the one stored in error_pos"
                              % (norm(first) if first is not None else "?"), node=a)
        # the position is read before anything in the handler could move it
        if poss and errs and poss[0].lineno > errs[0].lineno:
            ctx.violation("Z3", R.parse, "error-before-pos", "the error text is built before error_pos is computed", node=errs[0])
    # an attribute standing for the current token in the handler is the current token whenever something can be raised
    if holders_read:
        pcfg = ctx.cfg(R.parse)
        hold = token_holders(fors[0], tval)
        quiet = ("print", "debug", "log", "len", "isinstance", "str", "bytes", "strip", "decode", "format", "join")
        for a in sorted(holders_read):
            sets = [x for st_ in hold[a] for x in pcfg.nodes_for(st_)]
            bad = None
            for x in pcfg.stmt_nodes():
                if x.ast is None or not contains(fors[0], x.ast) or x in sets or x.ast is fors[0]:
                    continue
                risky = isinstance(x.ast, ast.Raise) or any(isinstance(c, ast.Call) and not any(q in (call_name(c) or "") for q in quiet)
                                                              for c in ast.walk(x.ast) if not isinstance(x.ast, (ast.For, ast.While, ast.If, ast.Try)))
                if risky and not pcfg.guarded(x, lambda f: False, kill_pred=lambda m: m.ast is fors[0], establish=lambda m: m in sets, exc=True):
                    bad = x
                    break
            if bad is None:
                ctx.holds("Z3", "self.%s is set to the current token before anything in the iteration can raise" % a)
            else:
                ctx.violation("Z3", R.parse, "token-holder-stale:%s" % a, "the handler takes the token length from self.%s, which still holds the "
                              "PREVIOUS token when %s raises" % (a, norm(bad.ast)[:60]), node=bad.ast,
                              witness="a surplus argument is reported with the length of the token before it")
            ini = [x for f_ in (R.reset, R.Parser.methods.get("__init__")) if f_ is not None for x in walk_no_nested(f_.node)
                   if isinstance(x, ast.Assign) and any(isinstance(t, ast.Attribute) and t.attr == a for t in x.targets)
                   and const_value(ctx.program, f_, x.value) == b""]
            if ini:
                ctx.holds("Z3", "self.%s is b'' before the first token" % a)
            else:
                ctx.violation("Z3", R.parse, "token-value-undefined", "self.%s is not initialised to b'' before the token loop: a lexical error on "
                              "the first token makes the handler fail" % a, node=fors[0])
        return _z4(ctx, R, scan, loops, yields, fors)
    # the token value is defined before the loop (lexical errors are raised before the first assignment)
    pre = [a for a in walk_no_nested(R.parse.node) if isinstance(a, (ast.Assign, ast.AnnAssign)) and a.lineno < fors[0].lineno and any(
        isinstance(t, ast.Name) and t.id == tval for t in (a.targets if isinstance(a, ast.Assign) else [a.target])) and getattr(a, "value", None) is not None]
    if pre and const_value(ctx.program, R.parse, pre[0].value) == b"":
        ctx.holds("Z3", "%s is b'' before the first token (length 0 for lexical errors at the start)" % tval)
    else:
        ctx.violation("Z3", R.parse, "token-value-undefined", "%s is not initialised to b'' before the token loop: a lexical error on the first "
                      "token makes the handler fail" % tval, node=fors[0])

    return _z4(ctx, R, scan, loops, yields, fors)


def _z4(ctx, R, scan, loops, yields, fors):
    # ---- Z4 ----------------------------------------------------------------------
    ctx.rule("Z4", "the token stream is consumed lazily")
    it = fors[0].iter
    lazy_local = False
    if isinstance(it, ast.Name):
        # a local that holds the generator itself (kept so that it can be closed in a finally clause): every binding of the name
        # is the scan call or None
        defs = [a for a in walk_no_nested(R.parse.node) if isinstance(a, (ast.Assign, ast.AnnAssign)) and a.value is not None and any(
            isinstance(t, ast.Name) and t.id == it.id for t in (a.targets if isinstance(a, ast.Assign) else [a.target]))]
        lazy_local = bool(defs) and all((isinstance(a.value, ast.Call) and call_name(a.value) == "scan") or (
            isinstance(a.value, ast.Constant) and a.value.value is None) for a in defs) and any(isinstance(a.value, ast.Call) for a in defs)
    if isinstance(it, ast.Call) and call_name(it) == "scan":
        ctx.holds("Z4", "for ... in %s" % norm(it))
    elif lazy_local:
        ctx.holds("Z4", "for ... in %s, a local bound to the generator returned by scan()" % norm(it))
    else:
        ctx.violation("Z4", R.parse, "eager-tokens", "the token loop iterates %s: all tokens are produced before the first is handled, so every "
                      "error is reported at the position of the last token (or of the first lexical error)" % norm(it), node=fors[0],
                      witness="`foo;\\nkeep;\\nkeep;` reports the unknown command on line 3")
    for c in walk_no_nested(R.parse.node):
        if isinstance(c, ast.Call) and call_name(c) in ("list", "tuple", "sorted", "reversed") and any("scan" in norm(a) for a in c.args):
            ctx.violation("Z4", R.parse, "eager-tokens", "%s materialises the token stream" % norm(c)[:50], node=c)
    # the generator itself must not buffer: scan yields inside its loop
    if not loops:
        ctx.notice("Z4", "Lexer.scan has no while loop of its own; laziness is that of the generator it delegates to")
    elif all(contains(loops[0], y.ast) for y in yields):
        ctx.holds("Z4", "Lexer.scan yields inside its scanning loop (one token per step)")
    else:
        ctx.violation("Z4", scan, "yield-after-loop", "Lexer.scan yields outside the scanning loop", node=scan.node)

    z6(ctx, R)
    x2(ctx, R, rule="X2")
    # an error is reported at the token that causes it only if the check runs while that token is the current one: the extension gates
    # (E2-E4 of C07) must sit at the lookup / at the tag, not at a later token
    from .c07 import gates
    gates(ctx, R)


LEXER_SAMPLES = [
    b"",
    b"keep;\nstop;",
    b"# c\r\nif true\r\n{\r\n  keep;\r\n}\r\n",
    b'if hasflag "a"\n{ stop; }\n$$$',
    b'/* m\n l */ keep ;\n\n"caf\xc3\xa9" :x [1K,\n2]',
    b"keep;$$$",
    b"a /* x\ny */$ z",
    b"\n\n  \xc3\xa9\xc3\xa9 keep",
    b'x text:\nhello\n.\n;\nfoo {\n{',
    b'"a"\xc3\xa9',
    b'if header "a\nb\r\nc" [\n"x\n", "y"] foo\n$',
]
_WS = b" \t\r\n\x0b\x0c"


def lexer_eval(ctx, R):
    """Z1/Z2 by evaluation: Lexer.__init__ and Lexer.scan interpreted (finite-domain interpreter, stdlib regex engine on the code's
    constant token patterns) over sample texts, with a consumer that - like the parser's replay - may ask for a one-byte token once
    more.  At every yield, and where a lexical error is raised, curlineno() / curcolno() interpreted in the lexer's state of that moment
    must give the line / 1-based byte column of the first byte of the token (of the byte sequence that is no token).
    -> ("ok", n) | ("bad", text, what) | None when the interpreter cannot follow the code."""
    if hasattr(ctx, "_lexer_eval"):
        return ctx._lexer_eval
    ctx._lexer_eval = None
    ctx._lexer_eval = _lexer_eval(ctx, R)
    return ctx._lexer_eval


def _lexer_eval(ctx, R):
    from sa import fd
    from sa.consteval import Evaluator, TOP
    from sa.util import module_resolver
    L = R.Lexer
    init, scan = L.methods.get("__init__"), R.scan
    ln, col = L.methods.get("curlineno"), L.methods.get("curcolno")
    if init is None or ln is None or col is None or len(init.params) != 2 or len(scan.params) != 2:
        return None
    lr = Evaluator(ctx.program, R.pmod, R.Parser).lookup("lrules")
    if lr is TOP:
        return None
    resolve = module_resolver(ctx.program, R.pmod)

    def oracle(interp, e, name, recv, args, kw, st):
        if name and name.startswith("self.") and name[5:] in L.methods and L.methods[name[5:]].node is not interp.f:
            return fd.Inline(L.methods[name[5:]])
        if name and name.startswith("self.") and mangle(L.name, name[5:]) in L.methods:
            return fd.Inline(L.methods[mangle(L.name, name[5:])])
        return None
    env0 = {init.params[1]: fd.Const(list(lr))}
    cev = Evaluator(ctx.program, R.pmod, L)
    for a_, v_ in L.attrs.items():
        cv_ = cev.eval(v_)
        if cv_ is not TOP and isinstance(cv_, (int, str, bytes, tuple, frozenset, bool)):
            env0["%s.%s" % (init.params[0], a_)] = fd.Const(cv_)  # class-level constants read through the instance
    try:
        ps = fd.Interp(init.node, L.name, oracle, resolve=resolve, loop_unroll=len(lr) + 2).run(env0)
    except fd.TooManyPaths:
        return None
    if len(ps) != 1 or ps[0].kind != "return":
        return None
    sn = init.params[0]
    base = {k: v for k, v in ps[0].env.items() if k.startswith(sn + ".")}
    # what the parser does to the lexer to have a token delivered again (rule X2 bounds it; here it is replayed)
    rewind = None
    for f in R.Parser.methods.values():
        for n in walk_no_nested(f.node):
            if isinstance(n, ast.AugAssign) and isinstance(n.op, ast.Sub) and isinstance(n.target, ast.Attribute) and "lexer" in norm(n.target.value) \
                    and isinstance(n.value, ast.Constant) and isinstance(n.value.value, int):
                rewind = ("sub", n.target.attr, n.value.value)
            elif isinstance(n, ast.Expr) and isinstance(n.value, ast.Call) and isinstance(n.value.func, ast.Attribute) \
                    and "lexer" in norm(n.value.func.value) and n.value.func.attr in L.methods and not n.value.args and not n.value.keywords \
                    and n.value.func.attr not in ("scan", "curlineno", "curcolno"):
                rewind = ("call", n.value.func.attr)

    def position(snap):
        out = []
        for f in (ln, col):
            try:
                r = fd.Interp(f.node, L.name, oracle, resolve=resolve, loop_unroll=80).run(dict(snap))
            except fd.TooManyPaths:
                return None
            if len(r) != 1 or r[0].kind != "return" or not isinstance(r[0].value, fd.Const) or not isinstance(r[0].value.v, int):
                return None
            out.append(r[0].value.v)
        return tuple(out)

    def hook(interp, v, st):
        if interp.depth or rewind is None:
            return [st]
        tv = v.items[1] if isinstance(v, fd.Tup) and len(v.items) == 2 else fd.Const(v.v[1]) if isinstance(v, fd.Const) and isinstance(
            v.v, tuple) and len(v.v) == 2 else None
        if not (isinstance(tv, fd.Const) and tv.v == b"{") or any(x[0] == "rewind" for x in st.events):
            return [st]
        s2 = st.copy()
        s2.events.append(("rewind",))
        if rewind[0] == "sub":
            k = "%s.%s" % (sn, rewind[1])
            if not (isinstance(s2.env.get(k), fd.Const) and isinstance(s2.env[k].v, int)):
                return [st]
            s2.env[k] = fd.Const(s2.env[k].v - rewind[2])
            return [st, s2]
        m = L.methods[rewind[1]]
        rs = fd.Interp(m.node, L.name, oracle, resolve=resolve).run({}, s2)
        if len(rs) != 1 or rs[0].kind != "return":
            return [st]
        s3 = fd.State(rs[0].env, rs[0].events, rs[0].facts)
        return [st, s3]

    n = 0
    moments = []  # (text, lexer state, token value or None for a lexical error, offset of the token) on the paths without replay
    work = [(t, base, "") for t in LEXER_SAMPLES]
    finals = {}
    reuse_added = False
    for text, base_env, label in work:
        it = fd.Interp(scan.node, L.name, oracle, resolve=resolve, loop_unroll=4 * len(text) + 8, max_paths=200)
        it.yield_hook = hook
        env = dict(base_env)
        env[scan.params[1]] = fd.Const(text)
        try:
            paths = it.run(env)
        except fd.TooManyPaths:
            return None
        if not paths or it.unknowns:
            return None  # a call the interpreter could not follow (a generator it delegates to, a table of handlers ...)
        # the lexer is deterministic: two paths that differ in something else than the consumer's replay decision mean that the
        # interpreter had to guess a value
        sigs = [tuple(i for i, x in enumerate(p.events) if x[0] == "rewind") + (sum(1 for x in p.events if x[0] == "yield" and False),) for p in paths]
        if len(set(sigs)) != len(sigs) and len(paths) > 1:
            return None
        if any(isinstance(x[1], fd.Unknown) for p in paths for x in p.events if x[0] == "yield"):
            return None
        for p in paths:
            cur = 0
            last = None
            replay_from = None
            evs = [x for x in p.events if x[0] in ("yield", "rewind")]
            for i, ev in enumerate(evs):
                if ev[0] == "rewind":
                    replay_from = last
                    continue
                v = fd_concrete(ev[1])
                if not (isinstance(v, tuple) and len(v) == 2 and isinstance(v[1], bytes)):
                    return None
                got = None
                if replay_from is not None:
                    # the consumer asked for the token once more: it is delivered again - or the request had no effect on this
                    # lexer (whether it must have one is rule X2's matter); the positions are judged either way
                    after = cur
                    while after < len(text) and text[after] in _WS:
                        after += 1
                    cands = [c for c in (replay_from, after) if text.startswith(v[1], c)]
                    if len(cands) == 2 and cands[0] != cands[1]:
                        got = position(ev[2])
                        if got is None:
                            return None
                        fits = [c for c in cands if got == (text.count(b"\n", 0, c) + 1, c - text.rfind(b"\n", 0, c))]
                        cur = fits[0] if fits else cands[0]
                    elif cands:
                        cur = cands[0]
                    replay_from = None
                while cur < len(text) and text[cur] in _WS:
                    cur += 1
                if not text.startswith(v[1], cur):
                    return ("bad", text, "the lexer yields %r where the text continues with %r" % (v[1], text[cur:cur + 12]))
                got = got or position(ev[2])
                if got is None:
                    return None
                want = (text.count(b"\n", 0, cur) + 1, cur - text.rfind(b"\n", 0, cur))
                n += 1
                if got != want:
                    e_ = cur + len(v[1])
                    if got == (text.count(b"\n", 0, e_) + 1, e_ - text.rfind(b"\n", 0, e_)):
                        return ("bad", text, "%swhile the token %r (offset %d) is handled, the lexer's position is already BEHIND it: curlineno() / "
                                             "curcolno() give %r, the token starts at line %d, column %d" % (label, v[1], cur, got, want[0], want[1]), "Z1")
                    rw = " (after the parser asked for `{` once more)" if any(x[0] == "rewind" for x in evs[:i]) else ""
                    return ("bad", text, "%swhile the token %r (offset %d) is handled%s, curlineno() / curcolno() give %r; the token starts at line %d, "
                                         "column %d" % (label, v[1], cur, rw, got, want[0], want[1]))
                if not any(x[0] == "rewind" for x in evs):
                    moments.append((text, ev[2], v[1], cur))
                last = cur
                cur += len(v[1])
            if p.kind == "raise":
                while cur < len(text) and text[cur] in _WS:
                    cur += 1
                snap = {k: x for k, x in p.env.items() if k.startswith(scan.params[0] + ".")}
                got = position(snap)
                if got is None:
                    return None
                want = (text.count(b"\n", 0, cur) + 1, cur - text.rfind(b"\n", 0, cur))
                n += 1
                if not any(x[0] == "rewind" for x in evs):
                    moments.append((text, snap, None, cur))
                if got != want:
                    return ("bad", text, "%swhere the byte sequence %r (offset %d) is rejected as no token, curlineno() / curcolno() give %r; it starts at "
                                         "line %d, column %d" % (label, text[cur:cur + 8], cur, got, want[0], want[1]))
            elif p.kind == "return":
                while cur < len(text) and text[cur] in _WS:
                    cur += 1
                if cur != len(text):
                    return ("bad", text, "the lexer stops at offset %d of %d without an error" % (cur, len(text)))
            if not any(x[0] == "rewind" for x in evs) and not label:
                finals[text] = {k: x for k, x in p.env.items() if k.startswith(scan.params[0] + ".")}
        if not reuse_added and text == LEXER_SAMPLES[-1] and not label:
            # the same lexer object used again (a Parser is reusable): after a text was scanned and its error position asked for,
            # the positions reported for the next text must be those of the next text
            reuse_added = True
            for a_text, b_text in ((LEXER_SAMPLES[3], LEXER_SAMPLES[5]), (LEXER_SAMPLES[4], LEXER_SAMPLES[3]), (LEXER_SAMPLES[6], LEXER_SAMPLES[1])):
                st_env = finals.get(a_text)
                if st_env is None:
                    continue
                ok_ = True
                for f_ in (ln, col):
                    try:
                        r_ = fd.Interp(f_.node, L.name, oracle, resolve=resolve, loop_unroll=80).run(dict(st_env))
                    except fd.TooManyPaths:
                        ok_ = False
                        break
                    if len(r_) != 1:
                        ok_ = False
                        break
                    st_env = {k: x for k, x in r_[0].env.items() if k.startswith(f_.params[0] + ".")}
                if ok_:
                    work.append((b_text, st_env, "on a lexer that scanned %r before: " % a_text))
    return ("ok", n, moments, oracle, resolve)


def handler_eval(ctx, R, h, fors, lev):
    """Z3 by evaluation: the funnel's handler interpreted in each (text, lexer state, current token) moment collected by lexer_eval.
    error_pos must be (line, 1-based byte column, byte length) of the token (length free for lexical errors), and the text of the error
    must start with `line <that line>:` when it can be followed.  -> ("ok", n) | ("bad", what) | None"""
    from sa import fd
    L = R.Lexer
    moments, loracle, resolve = lev[2], lev[3], lev[4]
    parse = R.parse
    sn = parse.params[0]
    it_ = fors[0].iter
    targ = it_.args[0].id if isinstance(it_, ast.Call) and it_.args and isinstance(it_.args[0], ast.Name) else None
    tgt = fors[0].target
    if targ is None or not (isinstance(tgt, ast.Tuple) and len(tgt.elts) == 2 and all(isinstance(x, ast.Name) for x in tgt.elts)):
        return None
    tname, tval = tgt.elts[0].id, tgt.elts[1].id
    holders = token_holders(fors[0], tval)
    lex_attr = it_.func.value.attr if isinstance(it_.func, ast.Attribute) and isinstance(it_.func.value, ast.Attribute) else None
    if lex_attr is None:
        return None
    lsn = R.scan.params[0]
    synth = ast.FunctionDef(name="__handler__", args=ast.arguments(posonlyargs=[], args=[ast.arg(arg=sn)], kwonlyargs=[], kw_defaults=[], defaults=[]),
                            body=list(h.body), decorator_list=[], returns=None, type_comment=None, type_params=[])
    ast.copy_location(synth, h)

    def oracle(interp, e, name, recv, args, kw, st):
        if isinstance(recv, fd.Const) and isinstance(recv.v, fd.Rec) and recv.v.cls == "Lexer" and name in L.methods:
            env = {"%s.%s" % (L.methods[name].params[0], k): (x if isinstance(x, (fd.Const, fd.Unknown, fd.Tup)) else fd.Const(x))
                   for k, x in recv.v.fields.items()}
            rs = fd.Interp(L.methods[name].node, L.name, loracle, resolve=resolve, loop_unroll=80).run(env)
            if len(rs) == 1 and rs[0].kind == "return":
                return [(rs[0].value, None)]
            return None
        if name and name.startswith("self.") and ("print" in name or "debug" in name):
            return [(fd.Const(None), None)]
        if name and name.startswith("self.") and (name[5:] in R.Parser.methods or mangle(R.Parser.name, name[5:]) in R.Parser.methods):
            m = R.Parser.methods.get(name[5:]) or R.Parser.methods[mangle(R.Parser.name, name[5:])]
            return fd.Inline(m)
        return None
    n = 0
    for text, snap, token, start in moments:
        if not all(isinstance(v, fd.Const) for v in snap.values()):
            return None
        rec = fd.Rec("Lexer", **{k[len(lsn) + 1:]: v.v for k, v in snap.items()})
        env = {"%s.%s" % (sn, lex_attr): fd.Const(rec), targ: fd.Const(text), tname: fd.Const("identifier"),
               tval: fd.Const(token if token is not None else b"")}
        for a in holders:
            env["%s.%s" % (sn, a)] = fd.Const(token if token is not None else b"")
        if h.name:
            env[h.name] = fd.Const("MSG")
        try:
            ps = fd.Interp(synth, R.Parser.name, oracle, resolve=resolve, loop_unroll=80, max_paths=50).run(env)
        except fd.TooManyPaths:
            return None
        ps = [p for p in ps if p.kind == "return"] if len(ps) > 1 and all(p.kind in ("return", "raise") for p in ps) and sum(
            p.kind == "return" for p in ps) == 1 else ps
        if len(ps) != 1 or ps[0].kind != "return":
            return None
        got = fd_concrete(ps[0].env.get("%s.error_pos" % sn))
        if not (isinstance(got, tuple) and len(got) == 3):
            return None
        line, colno = text.count(b"\n", 0, start) + 1, start - text.rfind(b"\n", 0, start)
        n += 1
        what = "the token %r" % token if token is not None else "the byte sequence %r that is no token" % text[start:start + 8]
        if got[:2] != (line, colno) or (token is not None and got[2] != len(token)):
            return ("bad", "for %s at offset %d of %r the handler stores error_pos = %r; the token is at line %d, column %d%s"
                    % (what, start, text, got, line, colno, ", %d bytes long" % len(token) if token is not None else ""))
        msg = fd_concrete(ps[0].env.get("%s.error" % sn))
        if isinstance(msg, (str, bytes)):
            ms = msg.decode("utf-8", "replace") if isinstance(msg, bytes) else msg
            if not ms.startswith("line %d:" % line):
                return ("bad", "for %s at offset %d of %r the error text is %r; the token is on line %d" % (what, start, text, ms[:40], line))
    return ("ok", n)


def token_holders(loop, tval):
    """attributes that the token loop sets to the current token value (`self.__curtoken = tvalue`)"""
    out = {}
    for a in ast.walk(loop):
        if isinstance(a, ast.Assign) and isinstance(a.value, ast.Name) and a.value.id == tval:
            for t in a.targets:
                if isinstance(t, ast.Attribute) and isinstance(t.value, ast.Name):
                    out.setdefault(t.attr, []).append(a)
    return out


def fd_concrete(v):
    from sa import fd
    if isinstance(v, fd.Const):
        return v.v
    if isinstance(v, fd.Tup) and all(isinstance(x, fd.Const) for x in v.items):
        return tuple(x.v for x in v.items)
    return None


def z6(ctx, R):
    """parse() hands the caller's text to the lexer unchanged (shared with C03: the values in the tree are slices of that text)."""
    # ---- Z6 ----------------------------------------------------------------------
    ctx.rule("Z6", "positions are positions in the caller's text: parse() hands its input to the lexer unchanged (str -> UTF-8 bytes only)")
    pf = R.parse
    tparam = pf.params[1] if len(pf.params) > 1 else None
    scans = [c for c in ast.walk(pf.node) if isinstance(c, ast.Call) and isinstance(c.func, ast.Attribute) and c.func.attr == "scan"]
    if not scans or tparam is None:
        raise AnalysisError("Z6", "parse(): lexer.scan call not found")
    for c in scans:
        if not (c.args and isinstance(c.args[0], ast.Name) and c.args[0].id == tparam):
            ctx.violation("Z6", pf, "scan-of-derived-text", "the lexer scans %s, not the text parse() was given" % (norm(c.args[0]) if c.args else "nothing"),
                          node=c, witness="reported lines / columns refer to a different text than the caller's")
    bad = []
    for a in walk_no_nested(pf.node):
        if isinstance(a, (ast.Assign, ast.AugAssign)) and any(isinstance(t, ast.Name) and t.id == tparam for t in (a.targets if isinstance(a, ast.Assign) else [a.target])):
            v = a.value
            enc = isinstance(v, ast.Call) and isinstance(v.func, ast.Attribute) and v.func.attr == "encode" and isinstance(v.func.value, ast.Name) \
                and v.func.value.id == tparam and isinstance(a, ast.Assign)
            if not enc:
                bad.append(a)
    if bad:
        ctx.violation("Z6", pf, "input-rewritten", "parse() rewrites its input before scanning it (%s): every position the lexer reports is relative to "
                      "the rewritten text" % norm(bad[0])[:50], node=bad[0],
                      witness="a script starting with blank lines reports its errors on too small a line number")
    else:
        ctx.holds("Z6", "%s: the input is only encoded (str -> bytes) before it is scanned" % pf.qualname)


def position_source(ctx, R, scope, e):
    """'line' / 'column' when expression e (inside `scope`, the handler) is the lexer's current line / column: a call of
    curlineno() / curcolno(), a local holding one, or a component of `a, b = <lexer>.M(<lexer>.pos)` where curlineno() / curcolno()
    themselves are defined as M(self.pos)[0] / [1]."""
    ln = R.Lexer.methods.get("curlineno")
    col = R.Lexer.methods.get("curcolno")

    def via(f):
        """(M, index) when f's body is `return self.M(self.pos)[index]`"""
        if f is None:
            return None
        rs = [r for r in walk_no_nested(f.node) if isinstance(r, ast.Return) and r.value is not None]
        if len(rs) != 1:
            return None
        v = rs[0].value
        if isinstance(v, ast.Subscript) and isinstance(v.slice, ast.Constant) and isinstance(v.value, ast.Call) and isinstance(v.value.func, ast.Attribute) \
                and isinstance(v.value.func.value, ast.Name) and v.value.func.value.id == f.params[0] and len(v.value.args) == 1 \
                and isinstance(v.value.args[0], ast.Attribute) and v.value.args[0].attr == "pos":
            return (v.value.func.attr, v.slice.value)
        return None
    if isinstance(e, ast.Call) and call_name(e) == "curlineno" and "lexer" in norm(e.func):
        return "line"
    if isinstance(e, ast.Call) and call_name(e) == "curcolno" and "lexer" in norm(e.func):
        return "column"
    if isinstance(e, ast.Name):
        for a in walk_no_nested(scope):
            if isinstance(a, ast.Assign) and len(a.targets) == 1:
                t = a.targets[0]
                if isinstance(t, ast.Name) and t.id == e.id and a.lineno <= e.lineno:
                    return position_source(ctx, R, scope, a.value)
                if isinstance(t, (ast.Tuple, ast.List)) and any(isinstance(x, ast.Name) and x.id == e.id for x in t.elts) \
                        and isinstance(a.value, ast.Call) and isinstance(a.value.func, ast.Attribute) and "lexer" in norm(a.value.func.value) \
                        and len(a.value.args) == 1 and isinstance(a.value.args[0], ast.Attribute) and a.value.args[0].attr == "pos" \
                        and "lexer" in norm(a.value.args[0].value):
                    idx = [i for i, x in enumerate(t.elts) if isinstance(x, ast.Name) and x.id == e.id][0]
                    for f, what in ((ln, "line"), (col, "column")):
                        if via(f) == (a.value.func.attr, idx):
                            return what
    return None


def position_helpers(R):
    """names of Lexer methods that curlineno / curcolno are defined through (calling them is calling the position functions)"""
    out = {"curlineno", "curcolno"}
    for nm in ("curlineno", "curcolno"):
        f = R.Lexer.methods.get(nm)
        if f is not None:
            for c in walk_no_nested(f.node):
                if isinstance(c, ast.Call) and isinstance(c.func, ast.Attribute) and isinstance(c.func.value, ast.Name) and c.func.value.id == f.params[0] \
                        and c.func.attr in R.Lexer.methods:
                    out.add(c.func.attr)
    return out
