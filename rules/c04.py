"""C04 - print/parse round trip (thin).

S1 recorder/serializer shape agreement, S2 verbatim emission, S3 emitted
punctuation lexes back, S4 newline after a text: block, S5 coverage.
"""
import ast
import re

from sa import rx
from sa.model import mangle, AnalysisError, walk_no_nested, norm, call_name, stmt_of
from sa.util import fact_atom, cmp_parts, const_value, contains
from sa.consteval import TOP
from .proles import ParserRoles
from .c02 import expr_guards

LOSSY = {"strip", "lstrip", "rstrip", "replace", "split", "lower", "upper", "title", "capitalize", "splitlines",
         "expandtabs", "translate", "encode", "decode", "format"}


def run(ctx):
    R = ParserRoles(ctx, "S")
    ctx.explanation = (
        "Necessary conditions only: (S1) the serializer has a branch for every value shape the recorder can store (tag "
        "text, string text, list of strings, test command, list of tests) and the list/command branches are decided "
        "before the string branch; (S2) argument values flow from arguments/extra_arguments to target.write without a "
        "lossy transformer, except on list items that are not already complete quoted strings; (S3) every constant "
        "fragment the serializer writes is tokenised, by the automata of the CURRENT lexer rules, into exactly the "
        "punctuation its branch stands for; (S4) a text: block is followed by a newline before anything else is "
        "written; (S5) the serializer walks the same args_definition the recorder used, emits every slot present, "
        "every child of a control, and separators only between consecutive tests; (S6) interpreting tosieve's statements "
        "over constants (finite-domain, no execution) for every declared type spelling of the command table x every stored "
        "value shape, the value is written once, unchanged, after its tag, and a text: block is followed by a newline; (H1) no code modifies the definition "
        "tables (args_definition, must_follow, lrules) that printer and recorder share.")
    ctx.not_decided = "tree equality after re-parsing and idempotence of the output for all values (behavioural)."
    serializer_rules(ctx, R)
    # recorder side of S1: what can end up in a string list / argument slot (shared with C01/C03)
    from . import c01
    c01.p14(ctx, R)
    c01.p15(ctx, R)
    from .c03 import g8
    from .geval import with_g11
    with_g11(ctx, R, [c01.g4, g8], aspects=("stored",))
    # printing must not change what the next parse sees: the definition tables are shared by printer and recorder (H1, shared with C13)
    from .c13 import h1
    h1(ctx, R, only={"args_definition", "must_follow", "lrules"})


def serializer_rules(ctx, R):
    # S6 first: the serializer interpreted per slot form and value shape.  When every scenario was followed, the rules that describe
    # ONE way of writing tosieve (a branch per value shape, a value variable, the slot loop over args_definition ...) are recorded,
    # not reported; S3 (what the written fragments lex as) is a clause of its own and stays.
    st6 = None
    try:
        st6 = s6(ctx, R)
    except AnalysisError:
        st6 = None
    prev = ctx.demote(("S1", "S2", "S4", "S5", "S"), "the evaluation of the serializer (S6)",
                      keep_keys=("index-with-eq", "slot-skipped", "children-not-emitted")) if st6 == "ok" else None
    try:
        _serializer_structural(ctx, R, st6 is not None)
    except AnalysisError as e:
        if st6 != "ok":
            raise
        ctx.notice(e.rule, "serializer idiom not recognised by the structural rule (%s); decided by the evaluation (S6)" % e.why)
    finally:
        if prev is not None:
            ctx.restore(prev)


def _serializer_structural(ctx, R, s6_done):
    f = R.tosieve
    cfg = ctx.cfg(f)
    target = next((p for p in f.params if p == "target"), None)
    if target is None:
        raise AnalysisError("S", "tosieve has no target parameter")
    writes = [c for c in walk_no_nested(f.node) if isinstance(c, ast.Call) and isinstance(c.func, ast.Attribute) and c.func.attr == "write"
              and isinstance(c.func.value, ast.Name) and c.func.value.id == target]
    ctx.need("S", "write sites in tosieve", len(writes), 8)

    # value variables: bound from self.arguments[...] / self.extra_arguments[...]
    valvars = set()
    for st in walk_no_nested(f.node):
        if isinstance(st, ast.Assign) and isinstance(st.value, ast.Subscript) and isinstance(st.value.value, ast.Attribute) \
                and st.value.value.attr in ("arguments", "extra_arguments"):
            for t in st.targets:
                if isinstance(t, ast.Name):
                    valvars.add(t.id)
    if not valvars:
        raise AnalysisError("S2", "tosieve: value variable not recognised")

    # ---- S1 ------------------------------------------------------------------------
    ctx.rule("S1", "serializer has a branch per recorded value shape; list and command shapes decided before the string branch")

    def is_list_test(e, pol):
        t = norm(e)
        return pol is True and (("type(" in t and ("== list" in t or "is list" in t)) or ("isinstance(" in t and "list" in t))

    def is_cmd_test(e, pol):
        t = norm(e)
        return pol is True and "isinstance(" in t and "Command" in t

    lists = [fc for fc in cfg.facts() if is_list_test(*fact_atom(fc))]
    cmds = [fc for fc in cfg.facts() if is_cmd_test(*fact_atom(fc))]
    tl = [fc for fc in cfg.facts() if "testlist" in norm(fc.expr) and fc.pol is True]
    def type_test(fc, word):
        e = fc.expr
        return fc.pol is True and isinstance(e, ast.Compare) and len(e.ops) == 1 and isinstance(e.ops[0], ast.In) \
            and isinstance(e.left, ast.Constant) and e.left.value == word
    strs = [fc for fc in cfg.facts() if type_test(fc, "string")]
    tags = [fc for fc in cfg.facts() if type_test(fc, "tag")]
    for what, fs in (("list of values", lists), ("command (test)", cmds), ("list of tests", tl), ("string text", strs), ("tag", tags)):
        if fs:
            ctx.holds("S1", "branch for %s" % what)
        else:
            ctx.violation("S1", f, "no-branch:%s" % what, "the serializer has no branch for a %s value" % what, node=f.node,
                          witness="a recorded %s is written with str()" % what)
    # the string branch is reached only for values that are neither list nor Command
    for fc in strs:
        def not_list(x):
            e, pol = fact_atom(x)
            t = norm(e)
            return pol is False and (("type(" in t and "list" in t) or ("isinstance(" in t and "list" in t))

        def not_cmd(x):
            e, pol = fact_atom(x)
            t = norm(e)
            return pol is False and "isinstance(" in t and "Command" in t
        tn = [p for p, _ in fc.pred]
        if all(cfg.guarded(t, not_list) and cfg.guarded(t, not_cmd) for t in tn):
            ctx.holds("S1", "string branch decided after the list and command branches")
        else:
            ctx.violation("S1", f, "string-shadows", "the string branch can be taken for a list or a command value (target.write(list) raises "
                          "TypeError)", node=fc.expr)

    # ---- S2 ------------------------------------------------------------------------
    ctx.rule("S2", "values reach target.write without a lossy transformer (except list items that are not complete quoted strings)")
    derived = set(valvars)
    for n in ast.walk(f.node):
        if isinstance(n, ast.comprehension) and any(isinstance(x, ast.Name) and x.id in derived for x in ast.walk(n.iter)):
            for x in ast.walk(n.target):
                if isinstance(x, ast.Name):
                    derived.add(x.id)
        if isinstance(n, ast.For) and any(isinstance(x, ast.Name) and x.id in derived for x in ast.walk(n.iter)):
            for x in ast.walk(n.target):
                if isinstance(x, ast.Name):
                    derived.add(x.id)
    nflow = 0
    for w in writes:
        a = w.args[0] if w.args else None
        if a is None or not any(isinstance(x, ast.Name) and x.id in derived for x in ast.walk(a)):
            continue
        nflow += 1
        bad = []
        for c in ast.walk(a):
            if isinstance(c, ast.Call) and isinstance(c.func, ast.Attribute) and c.func.attr in LOSSY \
                    and any(isinstance(x, ast.Name) and x.id in derived for x in ast.walk(c.func.value)):
                if c.func.attr == "format" and isinstance(c.func.value, ast.Constant):
                    continue
                # allowed: inside the else-arm of `v if <v is a complete quoted string> else <transform>`
                ok = False
                for e, pol in expr_guards(c):
                    t = norm(e)
                    if pol is False and "startswith('\"')" in t and "endswith('\"')" in t:
                        ok = True
                if not ok:
                    bad.append(c)
            if isinstance(c, ast.Subscript) and isinstance(c.slice, ast.Slice) and any(isinstance(x, ast.Name) and x.id in derived for x in ast.walk(c.value)):
                bad.append(c)
        if bad:
            ctx.violation("S2", f, "lossy:%s" % (bad[0].func.attr if isinstance(bad[0], ast.Call) else "slice"), "a recorded value is written "
                          "through %s: values containing the stripped/replaced characters do not survive" % norm(bad[0])[:60], node=w,
                          witness='`if header ["a\\"", "b"] "x" { keep; }` serialises to text the parser rejects')
        else:
            ctx.holds("S2", "%s" % norm(w)[:80])
    ctx.need("S2", "value-carrying writes", nflow, 3)

    # ---- S3 ------------------------------------------------------------------------
    ctx.rule("S3", "constant fragments written by the serializer lex (under the current rules) into the punctuation they stand for")
    expected = {" ": [], "\n": [], ";\n": ["semicolon"], " {\n": ["left_cbracket"], "}": ["right_cbracket"], "(": ["left_parenthesis"],
                ")": ["right_parenthesis"], ", ": ["comma"], "[{}]": ["left_bracket", "identifier", "right_bracket"],
                '"%s"': ["string"], "%s%s": ["identifier"], '"{}"': ["string"], "{}{}": ["identifier"]}
    frags = []
    from sa.template import template as _tpl, shape as _shape, Lit as _Lit
    for c in ast.walk(f.node):
        # f-strings: the literal skeleton with {} for every hole is the fragment
        if isinstance(c, ast.JoinedStr) and enclosing_name(c) in ("tosieve",):
            t_ = _tpl(c)
            if t_ is not None and any(isinstance(p_, _Lit) for p_ in t_):
                frags.append((c, _shape(t_).replace("\0", "{}")))
            continue
        if isinstance(c, ast.Constant) and isinstance(c.value, str) and enclosing_name(c) in ("tosieve",) \
                and not isinstance(getattr(c, "_parent", None), (ast.JoinedStr, ast.FormattedValue)):
            p = c._parent
            if isinstance(p, ast.Call) and c in p.args and isinstance(p.func, ast.Attribute) and p.func.attr == "write":
                frags.append((c, c.value))
            elif isinstance(p, ast.Attribute) and p.attr in ("format", "join"):
                frags.append((c, c.value))
            elif isinstance(p, ast.BinOp) and isinstance(p.op, ast.Mod) and p.left is c:
                frags.append((c, c.value))
            elif isinstance(p, ast.BinOp) and isinstance(p.op, ast.Add) and isinstance(p.right if p.left is c else p.left, ast.Name) \
                    and isinstance(f.defaults().get((p.right if p.left is c else p.left).id), ast.Constant) \
                    and isinstance(f.defaults()[(p.right if p.left is c else p.left).id].value, str):
                # `";" + newline` with newline="\n" by default: the fragment under the default
                d_ = f.defaults()[(p.right if p.left is c else p.left).id].value
                frags.append((c, c.value + d_ if p.left is c else d_ + c.value))
            elif isinstance(p, ast.Call) and call_name(p) in ("__print", "_Command__print") or (
                    isinstance(p, ast.Call) and isinstance(p.func, ast.Attribute) and p.func.attr.endswith("print") and c in p.args):
                frags.append((c, c.value))
    ctx.need("S3", "constant fragments", len(frags), 8)
    produced = set()
    for node, text in frags:
        sample = text.replace("{}", "x").replace("%s", "x")
        try:
            tk = tokenize(R, sample.encode())
        except rx.Undecidable as e_:
            raise AnalysisError("S3", "the fragment %r cannot be tokenised with the current lexer rules by the regex model (%s)" % (text, e_))
        produced.update(tk)
        unk = [t for t in tk if t.startswith("<unknown")]
        if unk:
            ctx.violation("S3", f, "fragment-unlexable:%r" % text, "the serializer writes %r, which contains %s for the current lexer" % (text, unk[0]),
                          node=node, witness="the output of tosieve() does not parse back")
    for need in ("semicolon", "left_cbracket", "right_cbracket", "left_parenthesis", "right_parenthesis", "comma", "left_bracket", "right_bracket"):
        if need in produced:
            ctx.holds("S3", "some fragment produces %s" % need)
        else:
            ctx.violation("S3", f, "punctuation-missing:%s" % need, "no fragment written by the serializer lexes as %s: that construct cannot be "
                          "printed in a form the parser reads back" % need, node=f.node)
    for node, text in frags:
        sample = text.replace("{}", "x").replace("%s", "x")
        try:
            toks = tokenize(R, sample.encode())
        except rx.Undecidable as e:
            ctx.notice("S3", "fragment %r not analysable: %s" % (text, e))
            continue
        want = expected.get(text)
        if want is None:
            ctx.notice("S3", "fragment %r is not in the expectation table; it lexes as %s" % (text, toks))
            continue
        if toks == want:
            ctx.holds("S3", "%r -> %s" % (text, toks or "whitespace"))
        else:
            ctx.violation("S3", f, "fragment:%r" % text, "the serializer writes %r, which the current lexer reads as %s instead of %s"
                          % (text, toks, want), node=node, witness="the output of tosieve() does not parse back")

    # ---- S4 ------------------------------------------------------------------------
    ctx.rule("S4", "a text: block is followed by a newline before anything else is written (decided by the evaluation of rule S6: "
                   "every slot form holding a text: block)")
    if not s6_done:
        s6(ctx, R)

    # ---- S5 ------------------------------------------------------------------------
    ctx.rule("S5", "coverage: same args_definition, every present slot, every child, separators between consecutive tests only")
    fors = [x for x in walk_no_nested(f.node) if isinstance(x, ast.For)]
    slot_loop = [x for x in fors if "args_definition" in norm(x.iter)]
    if slot_loop and not isinstance(slot_loop[0].iter, ast.Call) and not isinstance(slot_loop[0].iter, ast.Subscript):
        ctx.holds("S5", "iterates %s" % norm(slot_loop[0].iter))
    else:
        ctx.violation("S5", f, "slot-iteration", "the serializer does not iterate the full args_definition", node=f.node)
    if slot_loop:
        skips = [x for x in walk_no_nested(slot_loop[0]) if isinstance(x, ast.Continue)]
        # the write of the tag itself (first-level statement of the `"tag" in atype` branch) does not count as "value written"
        tag_ifs = [i for i in walk_no_nested(slot_loop[0]) if isinstance(i, ast.If) and isinstance(i.test, ast.Compare) and len(i.test.ops) == 1
                   and isinstance(i.test.ops[0], ast.In) and isinstance(i.test.left, ast.Constant) and i.test.left.value == "tag"]
        tag_writes = set()
        for i in tag_ifs:
            for st_ in i.body:
                if isinstance(st_, ast.Expr) and isinstance(st_.value, ast.Call) and st_.value in writes:
                    tag_writes.add(id(st_.value))
        nbad = 0
        for sk in skips:
            nd = cfg.nodes_for(sk)[0]

            def absent(fc):
                e, pol = fact_atom(fc)
                cp = cmp_parts(e)
                return bool(cp and cp[1] in ("In", "NotIn") and norm(cp[2]).endswith("arguments") and ((cp[1] == "NotIn") == pol))

            def handled(m):
                return m.kind == "stmt" and isinstance(m.ast, ast.Expr) and isinstance(m.ast.value, ast.Call) and (
                    (m.ast.value in writes and id(m.ast.value) not in tag_writes and m.ast.value.args
                     and const_value(ctx.program, f, m.ast.value.args[0]) != " ")
                    or call_name(m.ast.value) == "tosieve")
            # within one iteration: start the query at the loop head by treating the tag write as a reset
            def kill(m):
                return m.kind == "stmt" and isinstance(m.ast, ast.Expr) and isinstance(m.ast.value, ast.Call) and id(m.ast.value) in tag_writes
            if cfg.guarded(nd, absent, kill_pred=kill, establish=handled):
                continue
            nbad += 1
            ctx.violation("S5", f, "slot-skipped", "a slot (or a tag's parameter) that is present can be skipped without being written: the "
                          "`continue` at line %d is not restricted to `name not in arguments / extra_arguments`" % sk.lineno, node=sk,
                          witness='`header :COUNT "ge" ...` or `vacation :seconds 0`: the tag is printed without its parameter')
        if not nbad:
            ctx.holds("S5", "%d `continue` in the slot loop, each after a membership test `slot not present` or after the value was written" % len(skips))
    # position of the last test of a list is found by identity: Command must not define __eq__ if .index() is used
    uses_index = any(isinstance(c, ast.Call) and call_name(c) == "index" and c.args and isinstance(c.func.value, ast.Name) and c.func.value.id in valvars
                     for c in walk_no_nested(f.node))
    if uses_index:
        eqs = [c.name for c in ctx.program.all_classes() if ctx.program.is_subclass(c, "Command") and ("__eq__" in c.methods)]
        if eqs:
            ctx.violation("S5", f, "index-with-eq", "the serializer finds the last test of a list with list.index(), but %s defines __eq__: a test equal "
                          "to an earlier one is taken for the earlier one" % eqs, node=f.node,
                          witness="`anyof (true, true)` is printed as `anyof (true, true, )`")
        else:
            ctx.holds("S5", "list.index() on tests is identity-based (no Command class defines __eq__)")
    child_loop = [x for x in fors if "children" in norm(x.iter)]
    if child_loop and isinstance(child_loop[0].iter, ast.Attribute) and any(
            isinstance(c, ast.Call) and call_name(c) == "tosieve" for c in ast.walk(child_loop[0])):
        ctx.holds("S5", "every child is serialised")
    else:
        ctx.violation("S5", f, "children-not-emitted", "children of a control are not all serialised", node=f.node)
    # (separators of a test list: decided by the test-list scenario of rule S6)


def s6(ctx, R):
    """Finite-domain evaluation of tosieve's per-slot code: one abstract run per (declared type spelling, stored value shape).

    The declared types are the spellings found in the command table plus the documented single-name form; the value shapes are the ones the
    recorder stores (tag text, quoted string, text: block, number text, list of quoted strings).  No repository code is executed: the
    statements of tosieve are interpreted over constants by sa/fd.py and the sequence of target.write arguments is inspected."""
    from sa import fd
    ctx.rule("S6", "per declared type spelling and value shape: the value is written once, unchanged, and a text: block is followed by a newline")
    f = R.tosieve
    table = R.table()
    slot_types, extra_types = [], []
    for e in table.values():
        for a in e["args_definition"] or []:
            if a["type"] not in slot_types:
                slot_types.append(a["type"])
            if "extra_arg" in a and a["extra_arg"].get("type") not in extra_types:
                extra_types.append(a["extra_arg"].get("type"))
    for base in ("string", "number", "stringlist"):  # README: "extra_arg": {"type": "number"}
        if base not in extra_types:
            extra_types.append(base)
    QUOTED, BLOCK, NUMBER, LIST = '"v"', "text:\nline\n.", "10", ['"a"', '"b"']
    BLOCK_CRLF = "text:\r\nline\r\n.\r"  # the token as the lexer delivers it for a script with CRLF line endings
    # further list values: an item occurring twice (separators must not depend on where an EQUAL item stands), and the item shapes the
    # recorder can store (escaped quotes, a trailing backslash, blanks, brackets)
    LIST_DUP = ['"a"', '"b"', '"a"']
    LIST_SHAPES = ['"a"', '""', '"a\\"b"', '"x\\""', '"\\\\"', '"a, b"', '"[x]"', '" a "']

    def names(t):
        return [t] if isinstance(t, str) else list(t)

    def shapes(t):
        ns = names(t)
        out = []
        if "string" in ns or "stringlist" in ns:
            out += [("quoted string", QUOTED), ("text: block", BLOCK), ("text: block with CRLF lines", BLOCK_CRLF)]
        if "stringlist" in ns:
            out.append(("string list", LIST))
            out.append(("string list with a repeated item", LIST_DUP))
            out.append(("string list of all item shapes", LIST_SHAPES))
        if "number" in ns:
            out.append(("number", NUMBER))
            out.append(("number zero", "0"))
            out.append(("number given as the integer 0 (the factory passes numbers through)", 0))
        return out
    scenarios = []
    for t in slot_types:
        if "tag" in names(t):
            scenarios.append(("tag slot", {"name": "slot", "type": t, "required": False}, ":tag", None, ("tag", ":tag")))
            # the recorder keeps the tag as the script spelled it; so must the printer (the fixed point is compared text for text)
            scenarios.append(("tag slot, tag written in mixed case", {"name": "slot", "type": t, "required": False}, ":TaG", None, ("tag", ":TaG")))
            for x in extra_types:
                for label, v in shapes(x):
                    scenarios.append(("tag slot with parameter type %r" % (x,), {"name": "slot", "type": t, "required": False, "extra_arg": {"type": x}},
                                      ":tag", v, (label, v)))
        else:
            for label, v in shapes(t):
                scenarios.append(("positional slot type %r" % (t,), {"name": "slot", "type": t, "required": True}, v, None, (label, v)))
    # a tag whose parameter is restricted to some tags (valid_for), written by the user in another letter case: the recorder kept the
    # parameter, the serializer must print it
    for x in extra_types[:2]:
        for label, v in shapes(x)[:1]:
            scenarios.append(("tag slot with a valid_for parameter of type %r, tag written in upper case" % (x,),
                              {"name": "slot", "type": ["tag"], "required": False, "extra_arg": {"type": x, "valid_for": [":tag"]}},
                              ":TAG", v, (label, v)))
    TESTS = ["T1", "T2", "T3"]  # stand-ins for test objects: their own tosieve() writes <T1> ...
    for t in slot_types:
        if names(t) == ["testlist"]:
            scenarios.append(("test-list slot", {"name": "slot", "type": t, "required": True}, TESTS, None, ("test list", TESTS)))
        if names(t) == ["test"]:
            # a single test (`not <test>`, `if <test>`): printed by its own tosieve
            scenarios.append(("test slot", {"name": "slot", "type": t, "required": True}, TESTS[0], None, ("test", "<%s>" % TESTS[0])))
    printer = next((m for n, m in R.Command.methods.items() if n.lstrip("_") == "print"), None)

    def oracle(interp, e, name, recv, args, kw, st):
        if name == "write" and isinstance(e.func, ast.Attribute) and isinstance(e.func.value, ast.Name) and e.func.value.id == "target":
            return [(fd.Const(None), ("write", args[0] if args else None))]
        if name == "tosieve" and isinstance(recv, fd.Const) and recv.v in TESTS:
            return [(fd.Const(None), ("write", fd.Const("<%s>" % recv.v)))]  # a test of the list prints itself
        if isinstance(recv, fd.Const) and isinstance(recv.v, str) and recv.v in TESTS and isinstance(e.func, ast.Attribute) and (
                e.func.attr in R.Command.methods or mangle(R.Command.name, e.func.attr) in R.Command.methods):
            return [(fd.Const("<%s>" % recv.v), None)]  # ... or hands its text back (a private rendering method)
        if name == "isinstance" and len(args) == 2 and isinstance(args[0], fd.Const) and isinstance(e.args[1], ast.Name) \
                and ctx.program.cls(e.args[1].id) is not None:
            if isinstance(args[0].v, str) and args[0].v in TESTS:
                return [(fd.Const(e.args[1].id in (R.Command.name, "TestCommand")), None)]  # the stand-ins are test commands
            return [(fd.Const(False), None)]  # a str / list / int constant is not an instance of a class of the package
        if name and name.startswith("self."):
            m = name[5:]
            g = R.Command.methods.get(m) or next((x for n, x in R.Command.methods.items() if n.lstrip("_") == m.lstrip("_")), None)
            if m == "has_arguments":
                ad_ = st.env.get("self.args_definition")
                return [(fd.Const(not (isinstance(ad_, fd.Const) and ad_.v == [])), None)]
            if m == "get_type" and isinstance(st.env.get("self._type"), fd.Const):
                return [(st.env["self._type"], None)]
            if g is printer and g is not None:
                return [(fd.Const(None), ("print", args[0] if args else None))]
            if g is not None and g not in (R.tosieve,) and m not in ("get_type",):
                return fd.Inline(g)
        fn = e.func
        if isinstance(fn, ast.Name) and fn.id in R.cmod.funcs and fn.id not in interp.f.__dict__.get("_locals", ()):
            # a helper of the module, possibly handed the command itself (`definition_index(self)`)
            g = R.cmod.funcs[fn.id]
            sp = None
            for p_, a_ in zip(g.params, e.args):
                if isinstance(a_, ast.Name) and a_.id == interp.selfname:
                    sp = p_
            return fd.Inline(g, self_param=sp)
        if isinstance(fn, ast.Name) and fn.id in R.cmod.classes and not kw:
            # a record type of the module (NamedTuple / dataclass): the fields in declaration order
            c = R.cmod.classes[fn.id]
            bases = {norm(b).split(".")[-1] for b in c.node.bases}
            decos = {norm(d).split(".")[-1].split("(")[0] for d in c.node.decorator_list}
            flds = [st_.target.id for st_ in c.node.body if isinstance(st_, ast.AnnAssign) and isinstance(st_.target, ast.Name)]
            if ("NamedTuple" in bases or "dataclass" in decos) and len(flds) == len(args) and all(isinstance(a, fd.Const) for a in args):
                return [(fd.Const(fd.Rec(c.name, **{k: a.v for k, a in zip(flds, args)})), None)]
        return None
    from sa.util import module_resolver
    _mod_resolve = module_resolver(ctx.program, R.cmod)
    class_exprs = {}
    for st_ in R.Command.node.body:
        if isinstance(st_, ast.Assign) and len(st_.targets) == 1 and isinstance(st_.targets[0], ast.Name) and isinstance(st_.value, ast.Call):
            nm_ = st_.targets[0].id
            class_exprs[mangle(R.Command.name, nm_) if nm_.startswith("__") and not nm_.endswith("__") else nm_] = st_.value
    n = 0
    undecided = 0
    # a text: block is written the same way at every nesting depth
    scenarios = [sc + (0,) for sc in scenarios] + [(sc[0] + " (in a nested block)",) + sc[1:] + (4,) for sc in scenarios
                                                    if sc[4][0].startswith("text: block")]
    for what, slot, val, extra, (label, expect), indent in scenarios:
        n += 1
        env = {"self.args_definition": fd.Const([slot]), "self.arguments": fd.Const({"slot": val}),
               "self.extra_arguments": fd.Const({"slot": extra} if extra is not None else {}), "self.accept_children": fd.Const(False),
               "self.name": fd.Const("cmd"), "indentlevel": fd.Const(indent)}
        it = fd.Interp(f.node, R.Command.name, oracle, loop_unroll=max(2, len(expect) + 1 if isinstance(expect, list) else 2), max_depth=5,
                       resolve=_mod_resolve)
        it.class_attr_exprs = class_exprs
        try:
            paths = it.run(env)
        except fd.TooManyPaths:
            raise AnalysisError("S6", "path explosion in tosieve for %s" % what)
        key = "%s/%s" % (what, label)
        problems = []
        if getattr(ctx, "_dbg_s6", False):
            print("S6-UNK", what, label, sorted(set(it.unknowns)), len(paths))
        guessed = bool(set(it.unknowns) - {"self.get_type"})  # a call the interpreter could not follow: some paths are guesses
        for p in paths:
            if p.kind == "raise":
                problems.append("raises %s" % p.value)
                continue
            ws = [x[1] for x in p.events if x[0] == "write"]
            # what matters is the text that comes out, however many write() calls produce it
            consts = [w.v if isinstance(w, fd.Const) else None for w in ws]
            if label == "test list":
                if any(not isinstance(w, str) for w in consts):
                    problems.append("writes %r for a test list" % (consts,))
                    continue
                text = "".join(consts)
                want = "(%s)" % ", ".join("<%s>" % t_ for t_ in TESTS)
                if text.count(want) != 1:
                    problems.append("writes %r for a list of three tests (expected %r once)" % (text, want))
                continue
            if label.startswith("string list"):
                if any(not isinstance(w, str) for w in consts):
                    if label == "string list":
                        continue  # an item writer the interpreter cannot follow: judged by the item rule below
                    problems.append("writes %r for a list value" % (consts,))
                    continue
                text = "".join(consts)
                want = "[%s]" % ", ".join(expect)
                if text.count(want) != 1:
                    problems.append("writes %r for the list value %r (expected %r once)" % (text, expect, want))
                continue
            if any(not isinstance(w, str) for w in consts):
                problems.append("writes %r: not all of it is text" % (consts,))
                continue
            text = "".join(consts)
            if not isinstance(expect, str):
                expect = str(expect)
            if text.count(expect) != 1:
                problems.append("writes %r: the value %r does not appear exactly once, unchanged" % (text, expect))
                continue
            i = text.index(expect)
            nxt = text[i + len(expect):i + len(expect) + 1]
            if label.startswith("text: block") and nxt != "\n":
                problems.append("writes %r after the text: block instead of a newline" % (nxt,))
            if extra is not None and not text[:i].lower().endswith(":tag "):
                problems.append("the tag and a space do not precede its parameter (%r)" % (text[:i],))
        if problems and guessed and (len(problems) < len(paths) or all(x.startswith("raises ") for x in problems)):
            # not every path shows the problem and some paths rest on a guess: nothing is known about this scenario
            ctx.notice("S6", "%s holding a %s: not followed (%s)" % (what, label, sorted(set(it.unknowns) - {"self.get_type"})[:3]))
            undecided += 1
            continue
        if problems:
            ctx.violation("S6", f, "slot-shape:%s" % key, "tosieve, %s holding a %s: %s" % (what, label, problems[0]), node=f.node,
                          witness="a command using this slot form serialises to text that does not re-parse to the same tree")
        else:
            ctx.holds("S6", "%s holding a %s (%d paths)" % (what, label, len(paths)))
    # the end of a command: `;` after an action, nothing after a test, the block (every child, once, in order) after a control -
    # with or without arguments (`else` has none)
    for what, typ, slotdef, kids, want in (
            ("a control with a block and no argument (else)", "control", [], ["T1", "T2"], ("block", ["<T1>", "<T2>"])),
            ("a control with a test and a block (if)", "control", [{"name": "slot", "type": ["test"], "required": True}], ["T2", "T3"], ("block", ["<T2>", "<T3>"])),
            ("a control with an empty block", "control", [], [], ("block", [])),
            ("an action without argument (keep)", "action", [], None, ("semicolon", None)),
            ("a test without argument (true)", "test", [], None, ("nothing", None))):
        env = {"self.args_definition": fd.Const(slotdef), "self.arguments": fd.Const({"slot": "T1"} if slotdef else {}),
               "self.extra_arguments": fd.Const({}), "self.accept_children": fd.Const(kids is not None), "self.children": fd.Const(list(kids or [])),
               "self.name": fd.Const("cmd"), "self._type": fd.Const(typ), "indentlevel": fd.Const(0)}
        it = fd.Interp(f.node, R.Command.name, oracle, loop_unroll=4, max_depth=5, resolve=_mod_resolve)
        it.class_attr_exprs = class_exprs
        try:
            paths = it.run(env)
        except fd.TooManyPaths:
            paths = []
        n += 1
        if len(paths) != 1 or paths[0].kind != "return" or set(it.unknowns):
            ctx.notice("S6", "%s: not followed" % what)
            undecided += 1
            continue
        evs = [x for x in paths[0].events if x[0] in ("write", "print")]
        if not all(isinstance(x[1], fd.Const) and isinstance(x[1].v, str) for x in evs):
            ctx.notice("S6", "%s: not followed (a written value is not constant)" % what)
            undecided += 1
            continue
        # everything that comes out, written directly or handed to the line printer, blanks and line ends aside (their places are
        # rule S3's business)
        text = "".join(x[1].v for x in evs)
        flat = "".join(text.split())
        head = "cmd" + ("<T1>" if slotdef else "")
        tail = flat[len(head):] if flat.startswith(head) else flat
        if want[0] == "block":
            ok_ = flat == head + "{" + "".join(want[1]) + "}"
            shown = "` {`, %s, `}`" % ", ".join(want[1]) if want[1] else "` {`, `}`"
        elif want[0] == "semicolon":
            ok_ = flat == head + ";"
            shown = "`;`"
        else:
            ok_ = flat == head
            shown = "nothing"
        if ok_:
            ctx.holds("S6", "%s ends with %s" % (what, shown))
        else:
            ctx.violation("S6", f, "command-end:%s" % what, "tosieve, %s: after the name%s it writes %r; expected %s" % (
                what, " and the argument" if slotdef else "", tail, shown), node=f.node,
                witness="`if true { keep; } else { stop; }` is written without the else block (or without its terminator): the output is "
                        "rejected or means something else")
    ctx.need("S6", "slot form x value shape scenarios", n - undecided, 12)
    s6_status = "ok" if undecided == 0 and not any(f_.rule == "S6" for f_ in ctx.findings) else "partial"
    # items of a string list: the recorder stores complete quoted-string tokens (P14); each must be written back unchanged
    comps = [c for c in walk_no_nested(f.node) if isinstance(c, (ast.ListComp, ast.GeneratorExp)) and len(c.generators) == 1
             and isinstance(c.generators[0].iter, ast.Name) and isinstance(c.generators[0].target, ast.Name)]
    items = ['"a"', '""', '"a\\"b"', '"x\\""', '"\\\\"', '"a, b"', '"[x]"', '" a "']
    if not comps:
        ctx.notice("S6", "string-list items are not written through a comprehension: item discipline not evaluated")
    for c in comps:
        var = c.generators[0].target.id
        it = fd.Interp(f.node, R.Command.name, oracle, resolve=_mod_resolve, max_depth=5)
        it.class_attr_exprs = class_exprs
        bad = None
        for item in items:
            st = fd.State()
            st.env[var] = fd.Const(item)
            # the other parameters of tosieve at their defaults (a line terminator, an indentation)
            for p_, d_ in f.defaults().items():
                if isinstance(d_, ast.Constant):
                    st.env[p_] = fd.Const(d_.value)
            res = it.eval(c.elt, st)
            for v, _ in res:
                if not (isinstance(v, fd.Const) and v.v == item):
                    bad = bad or (item, v)
        if bad:
            ctx.violation("S6", f, "list-item-altered", "the string-list writer turns the stored item %s into %r" % (bad[0], bad[1]), node=c,
                          witness="a list item holding an escaped quote loses its escaping: the output does not re-parse to the same tree")
        else:
            ctx.holds("S6", "string-list items are written unchanged (%d item shapes, including escaped quotes at the end)" % len(items))
    return s6_status if not any(f_.rule == "S6" for f_ in ctx.findings) else "partial"


def enclosing_name(node):
    p = node
    while p is not None:
        if isinstance(p, ast.FunctionDef):
            return p.name
        p = getattr(p, "_parent", None)
    return None


def tokenize(R, data):
    """Tokenise constant bytes with the automata of the current lexer rules
    (whitespace skipped first, then the rules in listed order, each with its
    proved selection discipline).  Model of Lexer.scan on a constant."""
    ws = rx.Pattern(R.ws_pattern, R.ws_flags)
    out = []
    pos = 0
    n = len(data)

    def match(P, disc, start):
        S = P.initial()
        best = None
        i = start
        while True:
            sym = data[i] if i < n else rx.EOF
            nx = P.step(S, sym)
            if rx.Pattern.is_final(nx):
                best = i
                if disc == "shortest":
                    return best
            if sym == rx.EOF:
                break
            S = rx._strip(nx)
            if not S:
                break
            i += 1
        return best

    while pos < n:
        e = match(ws, "longest", pos)
        if e is not None and e > pos:
            pos = e
            continue
        hit = None
        for name, pat in R.lrules:
            P = R.pattern(name)
            disc = rx.discipline(P) or "longest"
            e = match(P, disc, pos)
            if e is not None and e > pos:
                hit = (name, e)
                break
        if hit is None:
            out.append("<unknown %r>" % data[pos:pos + 1])
            pos += 1
            continue
        out.append(hit[0])
        pos = hit[1]
    return out
