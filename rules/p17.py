"""P17 (C01, C03): a test whose leading argument is optional (`hasflag "x"`, non_deterministic_args) only learns that it is complete
when the token AFTER it arrives: `{` after a lone test, `,` or `)` inside a test list.  Each of these tokens must therefore reach the
point where reassign_arguments() is called BEFORE the branch of the argument handler that consumes the token for the enclosing
construct.  A static ordering rule over the statements of the handler; the set of tokens that trigger the reassignment is read from the
constant list that guards the reassign call."""
import ast

from sa.model import AnalysisError, walk_no_nested, norm, call_name
from sa.util import const_value
from sa.consteval import TOP

ENDS_A_TEST = ("left_cbracket", "comma", "right_parenthesis")


def _tokens_of_test(ctx, f, test, var):
    """token classes for which `test` can be true, as far as it speaks about the token variable; None = it does not mention it"""
    out = None
    for c in ast.walk(test):
        if isinstance(c, ast.Compare) and len(c.ops) == 1 and isinstance(c.left, ast.Name) and c.left.id == var:
            v = const_value(ctx.program, f, c.comparators[0])
            if v is TOP:
                continue
            vals = set(v) if isinstance(v, (list, tuple, set)) else {v}
            if isinstance(c.ops[0], (ast.Eq, ast.In)):
                out = vals if out is None else out | vals
    return out


def _reassign_triggers(ctx, R, g=None):
    """tokens for which the handler g (default: the single-argument handler) calls reassign_arguments()"""
    g = g or R.argument
    var = g.params[1] if len(g.params) > 1 else None
    trig = set()
    # the token tests that hold on every path to the call (nested `if`, a flag, or an early return on the negated test)
    from sa.util import fact_atom
    cfg = ctx.cfg(g)
    for c in walk_no_nested(g.node):
        if isinstance(c, ast.Call) and call_name(c) == "reassign_arguments":
            nodes = cfg.node_containing(c)
            for fc in cfg.facts():
                e, pol = fact_atom(fc)
                if pol is True and isinstance(e, ast.Compare):
                    toks = _tokens_of_test(ctx, g, e, var)
                    if toks and nodes and all(cfg.guarded(nd, lambda x, fc=fc: x is fc) for nd in nodes):
                        trig |= toks
    for c in walk_no_nested(g.node):
        if isinstance(c, ast.Call) and call_name(c) == "reassign_arguments":
            p = getattr(c, "_parent", None)
            while p is not None and p is not g.node:
                if isinstance(p, ast.If):
                    # the condition itself, or a flag holding it
                    tests = [p.test]
                    if isinstance(p.test, ast.Name):
                        tests = [a.value for a in walk_no_nested(g.node) if isinstance(a, ast.Assign) and any(
                            isinstance(t, ast.Name) and t.id == p.test.id for t in a.targets)]
                    for t_ in tests:
                        toks = _tokens_of_test(ctx, g, t_, var)
                        if toks:
                            trig |= toks
                p = getattr(p, "_parent", None)
    return trig


def p17(ctx, R):
    ctx.rule("P17", "a token that can follow a test (`{`, `,`, `)`) reaches the reassignment of a test with an optional leading argument "
                    "before the enclosing construct consumes it")
    table = R.table()
    nd = sorted(e["name"] for e in table.values() if not e["abstract"] and e.get("non_deterministic_args") and e.get("_type") == "test")
    if not nd:
        ctx.holds("P17", "no test command has non-deterministic arguments")
        return
    f = R.arguments
    var = f.params[1] if len(f.params) > 1 else None
    trig = _reassign_triggers(ctx, R)
    own = _reassign_triggers(ctx, R, f)  # ... or the arguments handler settles the test itself for some tokens
    if not trig and not own:
        raise AnalysisError("P17", "the tokens that trigger reassign_arguments() were not found in %s" % R.argument.qualname)
    body = list(f.node.body)

    def calls_argument(st, tok=None):
        if any(isinstance(c, ast.Call) and call_name(c) and call_name(c).lstrip("_") == R.argument.name.lstrip("_") for c in ast.walk(st)):
            return tok is None or tok in trig
        return any(isinstance(c, ast.Call) and call_name(c) == "reassign_arguments" for c in ast.walk(st))

    for tok in ENDS_A_TEST:
        if tok not in trig and tok not in own:
            ctx.violation("P17", R.argument, "no-trigger:%s" % tok, "`%s` after a test with an optional leading argument (%s) does not make the "
                          "parser settle that test's arguments (the reassignment is triggered by %s only)" % (tok, ", ".join(nd), sorted(trig | own)),
                          node=R.argument.node, witness='`require ["imap4flags"]; if anyof(hasflag "x") { stop; }` (valid, RFC 5232) is rejected')
            continue
        consume = None
        reach = None
        for i, st in enumerate(body):
            if isinstance(st, ast.If):
                toks = _tokens_of_test(ctx, f, st.test, var)
                if toks and tok in toks and not calls_argument(st, tok) and consume is None:
                    consume = i
            if calls_argument(st, tok) and reach is None:
                toks = _tokens_of_test(ctx, f, st.test, var) if isinstance(st, ast.If) else None
                if toks is None or tok in toks:
                    reach = i
        if consume is None or (reach is not None and reach < consume):
            ctx.holds("P17", "%s: `%s` reaches the reassignment of the current test before any branch consumes it" % (f.qualname, tok))
        else:
            ctx.violation("P17", f, "consumed-first:%s" % tok, "%s handles `%s` for the enclosing test list before the current test (%s, whose leading "
                          "argument is optional) could settle its arguments: the test is left incomplete and the token is attributed to it"
                          % (f.qualname, tok, ", ".join(nd)), node=body[consume],
                          witness='`require ["imap4flags"]; if anyof(hasflag "x", true) { stop; }` (valid, RFC 5232) is rejected: '
                                  "`bad argument true for command hasflag`")
