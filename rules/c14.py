"""C14 - Emulated rename never loses or overwrites a script.

R1 delete-after-copy, R2 no overwrite (both listing components), R3 content
passthrough, R4 only the two names, R5 null-flow, R6 exits, R7 native path.
"""
import ast

from sa import fd
from sa.model import AnalysisError, walk_no_nested, norm, stmt_of, call_name
from sa.util import fact_call, module_resolver, self_calls, fact_atom, cmp_parts, const_value, bound_arg
from sa.consteval import TOP
from .roles import ClientRoles
from .c10 import sender_sites


def run(ctx):
    R = ClientRoles(ctx, "R")
    ctx.explanation = (
        "Dominance facts over the emulated branch of Client.renamescript, valid for every server behaviour at every "
        "step: (R1) deletescript(old) is reached only on the success edge of putscript(new, ...) and, when the old "
        "script was the active one, of setactive(new); (R2) putscript(new, ...) is reached only after `new` was "
        "tested absent against BOTH components of the listing (the active name and the list of other names); (R3) the "
        "content uploaded is the unmodified value returned by getscript(old), after its None test; (R4) the only "
        "names handed to server operations are the parameters old/new, unmodified, in their roles; (R5) a listing "
        "that may be None is tested before it is unpacked; (R6) True is returned only on the success edge of the "
        "delete and every other exit is False or an Error, confirmed by finite-domain enumeration of the step "
        "outcomes; (R7) with the capability present exactly the native RENAMESCRIPT is sent and none of the emulation "
        "steps.")
    ctx.not_decided = "content equality modulo line endings (depends on C17 decoders), the server's own atomicity."
    rename_rules(ctx, R)
    # the existence tests and the copied content come from the listing / script decoders (D1, D2, D4, D5 of C17)
    from .c17 import decoder_rules
    decoder_rules(ctx, R)
    # the names given by the caller must reach the server as the same names: the argument encoding of C08 (W2 escaping, W3/W6 literals)
    from .c08 import wire_rules
    wire_rules(ctx, R, verbs=False)
    # "when the server lacks RENAMESCRIPT" is read from the capability table, which must be this connection's (A8 of C10)
    from .c10 import a8
    a8(ctx, R)


def rename_rules(ctx, R, only=None):
    f = R.methods.get("renamescript")
    if f is None:
        raise AnalysisError("R", "Client.renamescript not found")
    outer = f
    STEPS = ("listscripts", "getscript", "putscript", "setactive", "deletescript")
    helper_call = None
    if not all(self_calls(f, opn) for opn in STEPS):
        # the emulation may live in a helper that renamescript calls with (old, new)
        for c in self_calls(f):
            g = R.methods.get(c.func.attr)
            if g is not None and g is not f and c.func.attr not in STEPS and all(self_calls(g, opn) for opn in STEPS):
                if [norm(a) for a in c.args] != f.params[1:3] or len(g.params) < 3:
                    raise AnalysisError("R", "emulation helper %s is not called with (old, new)" % g.qualname)
                f, helper_call = g, c
                break
    # steps collected as (method, arguments) pairs and run through a LIST inside all()/any(): every step is executed, whatever the
    # earlier ones answered (a list is built completely before all() looks at it; a generator would stop at the first refusal)
    stepnames = {"putscript", "setactive", "deletescript"}
    collected = [a for a in walk_no_nested(f.node) if isinstance(a, ast.Attribute) and a.attr in stepnames and isinstance(a.value, ast.Name)
                 and a.value.id == f.params[0] and not (isinstance(getattr(a, "_parent", None), ast.Call) and a._parent.func is a)]
    if collected:
        eager = [c for c in walk_no_nested(f.node) if isinstance(c, ast.Call) and call_name(c) in ("all", "any") and c.args
                 and isinstance(c.args[0], (ast.ListComp, ast.List))]
        if eager:
            ctx.rule("R1", "deletescript(old) only on the success edge of putscript(new, ...) (and of setactive(new) when old was active)")
            ctx.violation("R1", f, "steps-run-eagerly", "the copy / activate / delete steps are collected (%s ...) and run by %s over a list: the "
                          "list is built completely, so deletescript(old) is sent even when putscript(new) was refused" % (
                              norm(collected[0]), norm(eager[0])[:40]), node=eager[0],
                          witness="server answers NO to PUTSCRIPT (quota): the old script is deleted and nothing replaces it")
    cfg = ctx.cfg(f)
    params = f.params[1:]
    if len(params) < 2:
        raise AnalysisError("R", "renamescript takes fewer than two names")
    old, new = params[0], params[1]
    ops = {}
    for opn in STEPS:
        cs = self_calls(f, opn)
        if not cs:
            raise AnalysisError("R", "emulation step %s not found in renamescript" % opn)
        ops[opn] = cs

    def call_fact(opn, pol):
        def pred(fact):
            e, p = fact_call(fact)
            return p is pol and isinstance(e, ast.Call) and any(e is c for c in ops[opn])
        return pred

    def nodes_of(call):
        ns = cfg.node_containing(call)
        if not ns:
            raise AnalysisError("R", "call %s not located in CFG" % norm(call))
        return ns

    # listing components
    comp_active = comp_list = None
    listing_var = None
    for st in walk_no_nested(f.node):
        if isinstance(st, ast.Assign) and isinstance(st.targets[0], (ast.Tuple, ast.List)) and len(st.targets[0].elts) == 2:
            src = st.value
            if (isinstance(src, ast.Call) and any(src is c for c in ops["listscripts"])) or (
                    isinstance(src, ast.Name) and any(
                        isinstance(d, ast.Assign) and isinstance(d.value, ast.Call) and any(d.value is c for c in ops["listscripts"])
                        and any(isinstance(t, ast.Name) and t.id == src.id for t in d.targets) for d in walk_no_nested(f.node))):
                a, b = st.targets[0].elts
                if isinstance(a, ast.Name) and isinstance(b, ast.Name):
                    comp_active, comp_list = a.id, b.id
                    unpack_stmt = st
                    if isinstance(src, ast.Name):
                        listing_var = src.id
    if comp_active is None:
        raise AnalysisError("R", "unpacking of the listing into (active, others) not recognised")

    # ---- R5 null-flow ---------------------------------------------------------
    ctx.rule("R5", "a listing that may be None is tested before being unpacked")
    lst = R.methods.get("listscripts")
    may_none = lst is not None and any(isinstance(r, ast.Return) and (r.value is None or (
        isinstance(r.value, ast.Constant) and r.value.value is None)) for r in walk_no_nested(lst.node))
    if not may_none:
        ctx.holds("R5", "listscripts never returns None")
    elif listing_var is None:
        ctx.violation("R5", f, "unpack-of-none", "the result of listscripts() is unpacked directly although it is None when the server "
                      "answers NO", node=unpack_stmt, witness="server answers NO to LISTSCRIPTS: TypeError instead of False")
    else:
        def not_none(fact):
            e, pol = fact_atom(fact)
            if isinstance(e, ast.Name) and e.id == listing_var:
                return pol is True
            cp = cmp_parts(e)
            if cp and isinstance(cp[0], ast.Name) and cp[0].id == listing_var and isinstance(cp[2], ast.Constant) and cp[2].value is None:
                return (cp[1] == "Is" and pol is False) or (cp[1] == "IsNot" and pol is True)
            return False
        if all(cfg.guarded(n, not_none) for n in cfg.nodes_for(unpack_stmt)):
            ctx.holds("R5", "%s: listing tested for None before unpacking" % f.qualname)
        else:
            ctx.violation("R5", f, "unpack-of-none", "the listing is unpacked on a path where it may be None", node=unpack_stmt,
                          witness="server answers NO to LISTSCRIPTS: TypeError instead of False")

    # ---- R1 delete after copy ------------------------------------------------------
    ctx.rule("R1", "deletescript(old) only on the success edge of putscript(new, ...) (and of setactive(new) when old was active)")
    for c in ops["deletescript"]:
        for n in nodes_of(c):
            if cfg.guarded(n, call_fact("putscript", True)):
                ctx.holds("R1", "%s: delete dominated by successful put" % f.qualname)
            else:
                p = cfg.unguarded_path(n, call_fact("putscript", True))
                ctx.violation("R1", f, "delete-without-copy", "deletescript(old) is reachable without putscript(new, ...) having succeeded",
                              node=c, path=cfg.describe_path(p) if p else None,
                              witness="server answers NO to PUTSCRIPT (quota): the old script is deleted and nothing replaces it")

            def act_ok(fact):
                if call_fact("setactive", True)(fact):
                    return True
                e, pol = fact_atom(fact)
                cp = cmp_parts(e)
                if cp and cp[1] in ("Eq", "NotEq"):
                    names = {norm(cp[0]), norm(cp[2])}
                    if names == {comp_active, old}:
                        return pol is (cp[1] == "NotEq")
                return False
            if cfg.guarded(n, act_ok):
                ctx.holds("R1", "%s: delete of an active script only after setactive(new) succeeded" % f.qualname)
            else:
                ctx.violation("R1", f, "delete-without-activation", "the old active script can be deleted although activating the copy "
                              "failed or was skipped", node=c,
                              witness="server answers NO to SETACTIVE: no script is active any more")

    # ---- R2 no overwrite ------------------------------------------------------------
    ctx.rule("R2", "putscript(new, ...) only after `new` was tested absent against the active name AND the list of other names")

    def absent_from(component, kind):
        def pred(fact):
            e, pol = fact_atom(fact)
            cp = cmp_parts(e)
            if not cp:
                return False
            a, op, b = cp
            if kind == "list" and op in ("In", "NotIn") and norm(a) == new and norm(b) == component:
                return pol is (op == "NotIn")
            if kind == "name" and op in ("Eq", "NotEq") and {norm(a), norm(b)} == {new, component}:
                return pol is (op == "NotEq")
            return False
        return pred

    for c in ops["putscript"]:
        for n in nodes_of(c):
            for comp, kind, what in ((comp_list, "list", "the list of non-active scripts"), (comp_active, "name", "the active script")):
                if cfg.guarded(n, absent_from(comp, kind)):
                    ctx.holds("R2", "%s: put guarded by absence of new from %s" % (f.qualname, what))
                else:
                    ctx.violation("R2", f, "overwrite:%s" % kind, "putscript(new, ...) is reachable although `new` was not tested against %s"
                                  % what, node=c,
                                  witness="a script named like the target exists%s: its content is replaced" % (
                                      " and is the active one" if kind == "name" else ""))

    # ---- R3 content ------------------------------------------------------------------
    ctx.rule("R3", "the uploaded content is the unmodified result of getscript(old), after its None test")
    put = R.methods.get("putscript")
    for c in ops["putscript"]:
        content = bound_arg(c, put, put.params[2]) if put and len(put.params) > 2 else (c.args[1] if len(c.args) > 1 else None)
        if not isinstance(content, ast.Name):
            ctx.violation("R3", f, "content-modified", "the content passed to putscript is %s, not the downloaded script itself"
                          % (norm(content) if content is not None else "missing"), node=c)
            continue
        defs = [d for d in walk_no_nested(f.node) if isinstance(d, ast.Assign) and any(
            isinstance(t, ast.Name) and t.id == content.id for t in d.targets)]
        if len(defs) != 1 or not (isinstance(defs[0].value, ast.Call) and any(defs[0].value is g for g in ops["getscript"])):
            ctx.violation("R3", f, "content-modified", "the uploaded content %s is not bound once to getscript(old)" % content.id, node=c,
                          witness="the renamed script differs from the original")
            continue

        def got(fact):
            e, pol = fact_atom(fact)
            if isinstance(e, ast.Name) and e.id == content.id:
                return pol is True
            cp = cmp_parts(e)
            if cp and isinstance(cp[0], ast.Name) and cp[0].id == content.id and isinstance(cp[2], ast.Constant) and cp[2].value is None:
                return (cp[1] == "Is" and pol is False) or (cp[1] == "IsNot" and pol is True)
            return False
        # getscript answers None for a failed download and "" for an empty script: a truthiness test cannot tell them apart
        truthy = [fc for fc in cfg.facts() if isinstance(fact_atom(fc)[0], ast.Name) and fact_atom(fc)[0].id == content.id]
        if truthy:
            ctx.violation("R3", f, "empty-script-is-failure", "the downloaded script is tested for truth (%s): an existing script with empty "
                          "content is treated like a failed download" % norm(truthy[0].expr)[:40], node=truthy[0].ast or f.node,
                          witness="renamescript of a script whose content is empty returns False and renames nothing")
        elif all(cfg.guarded(n, got) for n in nodes_of(c)):
            ctx.holds("R3", "%s: put uploads %s = getscript(old), tested for None" % (f.qualname, content.id))
        else:
            ctx.violation("R3", f, "content-none", "putscript can be called although getscript(old) failed (None)", node=c,
                          witness="server answers NO to GETSCRIPT: an empty/garbage script is uploaded under the new name and the old one deleted")

    # ---- R4 names ------------------------------------------------------------------
    ctx.rule("R4", "operations in the emulation are called with the parameters old/new, unmodified, in their roles")
    want = {"getscript": old, "deletescript": old, "putscript": new, "setactive": new}
    reassigned = [d for d in walk_no_nested(f.node) if isinstance(d, (ast.Assign, ast.AugAssign)) and any(
        isinstance(t, ast.Name) and t.id in (old, new) for t in (d.targets if isinstance(d, ast.Assign) else [d.target]))]
    for d in reassigned:
        ctx.violation("R4", f, "name-reassigned", "a name parameter is modified inside renamescript: %s" % norm(d), node=d)
    for opn, w in want.items():
        for c in ops[opn]:
            a = c.args[0] if c.args else None
            if isinstance(a, ast.Name) and a.id == w:
                ctx.holds("R4", "%s(%s)" % (opn, w))
            else:
                ctx.violation("R4", f, "wrong-name:%s" % opn, "%s is called with %s instead of %s" % (opn, norm(a) if a is not None else "nothing", w),
                              node=c, witness="a script other than the one being renamed is touched")
    others = [c for c in self_calls(f) if c.func.attr in R.methods and c.func.attr not in want and c.func.attr not in (
        "listscripts", R.sender.name) and R.sender.name in R.graph.reach_from([c.func.attr])]
    for c in others:
        ctx.violation("R4", f, "extra-operation:%s" % c.func.attr, "the emulation performs an extra server operation: %s" % norm(c), node=c)

    # ---- R6 exits ------------------------------------------------------------------
    ctx.rule("R6", "True only on the success edge of the delete; finite-domain enumeration of all step outcomes")

    def oracle(interp, e, name, recv, args, kw, st):
        if name and name.startswith("self."):
            m = name[5:]
            if m == "listscripts":
                return [(fd.Const(None), ("list", None)), (fd.Tup([fd.Unknown("active"), fd.Unknown("scripts")]), ("list", "ok"))]
            if m == "getscript":
                return [(fd.Const(None), ("get", None)), (fd.Unknown("body"), ("get", "ok"))]
            if m in ("putscript", "setactive", "deletescript"):
                return [(fd.Const(True), (m, True)), (fd.Const(False), (m, False))]
            if m == R.sender.name:
                return [(fd.Tup([fd.Const("OK"), fd.Unknown("d")]), ("native", "OK")), (fd.Tup([fd.Const("NO"), fd.Unknown("d")]), ("native", "NO"))]
        return None

    it = fd.Interp(f.node, R.cls.name, oracle, resolve=module_resolver(ctx.program, R.module))
    try:
        paths = it.run({})
    except fd.TooManyPaths:
        raise AnalysisError("R6", "path explosion")
    npaths = 0
    bad = None
    for p in paths:
        ev = [x for x in p.events if x[0] in ("list", "get", "putscript", "setactive", "deletescript", "native")]
        if any(x[0] == "native" for x in ev):
            continue
        npaths += 1
        names = [x[0] for x in ev]
        if p.kind == "raise" and p.value != "Error":
            bad = bad or ("raises %s after steps %s" % (p.value, ev), p)
            continue
        if "deletescript" in names:
            i = names.index("deletescript")
            if ("putscript", True) not in ev[:i]:
                bad = bad or ("deletes the old script after steps %s" % ev[:i], p)
        if "putscript" in names:
            i = names.index("putscript")
            if ("get", "ok") not in ev[:i] or ("list", "ok") not in ev[:i]:
                bad = bad or ("uploads the copy after steps %s" % ev[:i], p)
        if p.kind == "return":
            t = fd.truth(p.value)
            if t is not False and ("deletescript", True) not in ev:
                bad = bad or ("returns %r after steps %s" % (p.value, ev), p)
            if t is not True and ("deletescript", True) in ev:
                bad = bad or ("returns %r although every step succeeded (%s)" % (p.value, ev), p)
    if npaths < 6:
        raise AnalysisError("R6", "only %d emulation paths enumerated" % npaths)
    if bad:
        ctx.violation("R6", f, "exit-discipline", "emulated rename %s" % bad[0], node=bad[1].node or f.node)
    else:
        ctx.holds("R6", "%s: %d emulation paths: True iff the delete succeeded; other exits False/Error" % (f.qualname, npaths))

    # ---- R7 native path -------------------------------------------------------------
    ctx.rule("R7", "with the server capability present only the native RENAMESCRIPT is sent")
    sites = [(c, v) for (g, c, v) in sender_sites(ctx, R) if g is outer]
    nat = [c for c, v in sites if v == "RENAMESCRIPT"]
    emu_f, emu_cfg, emu_old, emu_new = f, cfg, old, new
    if outer is not f:
        f, cfg = outer, ctx.cfg(outer)
        old, new = outer.params[1], outer.params[2]

        def nodes_of(call):  # noqa: F811 - locate in the outer function from here on
            ns = cfg.node_containing(call)
            if not ns:
                raise AnalysisError("R", "call %s not located in CFG" % norm(call))
            return ns
    if not nat:
        ctx.violation("R7", f, "no-native", "renamescript never sends RENAMESCRIPT", node=f.node)
    else:
        def cap(pol):
            def pred(fact):
                e, p_ = fact_atom(fact)
                cp = cmp_parts(e)
                if cp and cp[1] in ("In", "NotIn") and const_value(ctx.program, f, cp[0]) == "VERSION":
                    return p_ is ((cp[1] == "In") == pol)
                return False
            return pred
        for c in nat:
            a = bound_arg(c, R.sender, R.sender.params[2]) if len(R.sender.params) > 2 else None
            good = isinstance(a, ast.List) and len(a.elts) == 2 and all(
                isinstance(el, ast.Call) and isinstance(el.func, ast.Attribute) and el.func.attr == "encode"
                and isinstance(el.func.value, ast.Name) for el in a.elts) and [el.func.value.id for el in a.elts] == [old, new]
            if good:
                ctx.holds("R7", "RENAMESCRIPT carries (old, new) in that order")
            else:
                ctx.violation("R7", f, "native-args", "RENAMESCRIPT is not sent with (old, new): %s" % norm(c)[:80], node=c)
            if all(cfg.guarded(n, cap(True)) for n in nodes_of(c)):
                ctx.holds("R7", "native rename only when the capability is announced")
            else:
                ctx.violation("R7", f, "native-unguarded", "RENAMESCRIPT is sent although the server did not announce support", node=c)
        if helper_call is not None:
            if not all(cfg.guarded(n, cap(False)) for n in nodes_of(helper_call)):
                ctx.violation("R7", f, "emulation-with-native", "the emulation is reachable although the server supports RENAMESCRIPT", node=helper_call)
        else:
            for opn in want:
                for c in ops[opn]:
                    if not all(cfg.guarded(n, cap(False)) for n in nodes_of(c)):
                        ctx.violation("R7", f, "emulation-with-native", "emulation step %s is reachable although the server supports RENAMESCRIPT"
                                      % opn, node=c)
