"""C14 - Emulated rename never loses or overwrites a script.

R1 delete-after-copy, R2 no overwrite (both listing components), R3 content
passthrough, R4 only the two names, R5 null-flow, R6 exits, R7 native path.
"""
import ast

from sa import fd
from sa.model import AnalysisError, walk_no_nested, norm, stmt_of, call_name
from sa.util import fact_call, module_resolver, self_calls, fact_atom, cmp_parts, const_value, bound_arg
from sa.consteval import TOP
from .roles import ClientRoles
from .c10 import sender_sites


def run(ctx):
    R = ClientRoles(ctx, "R")
    ctx.explanation = (
        "Dominance facts over the emulated branch of Client.renamescript, valid for every server behaviour at every "
        "step: (R1) deletescript(old) is reached only on the success edge of putscript(new, ...) and, when the old "
        "script was the active one, of setactive(new); (R2) putscript(new, ...) is reached only after `new` was "
        "tested absent against BOTH components of the listing (the active name and the list of other names); (R3) the "
        "content uploaded is the unmodified value returned by getscript(old), after its None test; (R4) the only "
        "names handed to server operations are the parameters old/new, unmodified, in their roles; (R5) a listing "
        "that may be None is tested before it is unpacked; (R6) True is returned only on the success edge of the "
        "delete and every other exit is False or an Error, confirmed by finite-domain enumeration of the step "
        "outcomes; (R7) with the capability present exactly the native RENAMESCRIPT is sent and none of the emulation "
        "steps.")
    ctx.not_decided = "content equality modulo line endings (depends on C17 decoders), the server's own atomicity."
    rename_rules(ctx, R)
    # the existence tests and the copied content come from the listing / script decoders (D1, D2, D4, D5 of C17)
    from .c17 import decoder_rules
    decoder_rules(ctx, R)
    # the names given by the caller must reach the server as the same names: the argument encoding of C08 (W2 escaping, W3/W6 literals)
    from .c08 import wire_rules
    wire_rules(ctx, R, verbs=False)
    # "when the server lacks RENAMESCRIPT" is read from the capability table, which must be this connection's (A8 of C10)
    from .c10 import a8
    a8(ctx, R)
    # the copied content is what the readers make of the GETSCRIPT reply, however it is segmented (M1-M7 of C05)
    from .c05 import reader_rules
    reader_rules(ctx, R)


def rename_eval(ctx, R):
    """Finite-domain evaluation of renamescript() on a server WITHOUT the RENAMESCRIPT capability: for three listings (refused;
    no active script; an active script), every kind of (old, new) pair and every combination of server answers to the steps, the
    operations the client performs (with their arguments) and its result are compared with the reference emulation: nothing is sent
    unless old exists and new does not; copy; activate the copy when old was active; delete old only after that; True iff the
    delete succeeded.  Returns a list of (rule, key, message, witness), or None when the interpreter cannot follow the code."""
    cached = getattr(ctx, "_rename_eval", "unset")
    if cached != "unset":
        return cached
    f = R.methods["renamescript"]
    own = f.params[1:]
    if len(own) < 2:
        return None
    selfp = f.params[0]
    STEPS = {"getscript": "get", "putscript": "put", "setactive": "setactive", "deletescript": "delete"}

    def reference(L, old, new, get, put, act, dele):
        if L is None:
            return False, []
        active, scripts = L
        if not (old == active or old in scripts):
            return False, []
        if new == active or new in scripts:
            return False, []
        ev = [("get", old)]
        if get is None:
            return False, ev
        ev.append(("put", new, get))
        if not put:
            return False, ev
        if active == old:
            ev.append(("setactive", new))
            if not act:
                return False, ev
        ev.append(("delete", old))
        return bool(dele), ev

    def run(L, old, new, get, put, act, dele):
        answers = {"get": get, "put": put, "setactive": act, "delete": dele}

        def oracle(interp, e, name, recv, args, kw, st):
            if name and name.startswith("self."):
                mn = name[5:]
                if mn == "listscripts":
                    return [(fd.Const(L if L is None else (L[0], list(L[1]))), None)]
                if mn in STEPS:
                    k = STEPS[mn]
                    vals = tuple(a.v if isinstance(a, fd.Const) else "?" for a in args)
                    return [(fd.Const(answers[k]), (k,) + vals)]
                if mn == R.sender.name:
                    return [(fd.Tup([fd.Const("NO"), fd.Unknown("d")]), ("native",))]
                if mn in R.methods and R.methods[mn] is not f and not mn.startswith("__dprint") and mn != "_Client__dprint":
                    g = R.methods[mn]
                    if R.sender.name in R.graph.reach_from([mn]) and mn not in ("listscripts",):
                        # a helper of the emulation (it reaches the sender through the steps): followed
                        return fd.Inline(g)
                    return fd.Inline(g)
            return None
        it = fd.Interp(f.node, R.cls.name, oracle, loop_unroll=6, max_depth=4, resolve=module_resolver(ctx.program, R.module))
        env = {own[0]: fd.Const(old), own[1]: fd.Const(new)}
        for cand in ("__capabilities", "_Client__capabilities", "capabilities"):
            env["%s.%s" % (selfp, cand)] = fd.Const({})
        paths = it.run(env)
        if len(paths) != 1:
            return None
        p = paths[0]
        ev = [x for x in p.events if x and x[0] in ("get", "put", "setactive", "delete", "native")]
        if p.kind == "raise":
            return ("raise:%s" % p.value, ev)
        t = fd.truth(p.value)
        if t is None:
            return None
        return (t, ev)
    problems = []
    cases = [(None, "a", "x"),
             ((None, ["a", "b", "c"]), "a", "x"), ((None, ["a", "b", "c"]), "a", "b"), ((None, ["a", "b", "c"]), "z", "x"), ((None, ["a", "b", "c"]), "b", "b"),
             (("a", ["b", "c"]), "a", "x"), (("a", ["b", "c"]), "b", "x"), (("a", ["b", "c"]), "z", "x"), (("a", ["b", "c"]), "b", "a"),
             (("a", ["b", "c"]), "b", "c"), (("a", ["b", "c"]), "b", "b"), (("a", ["b", "c"]), "a", "a"), (("a", ["b", "c"]), "a", "c"),
             # names are the caller's octets: blanks, letter case and a trailing dot are part of them
             ((None, ["a", "b", "c"]), "a", " x "), ((None, ["a", "b", "c", "x"]), "a", " x "), (("a", ["b", " b"]), " b", "B."),
             (("a", ["b", "c", "B"]), "c", "b ")]
    n = 0
    try:
        for L, old, new in cases:
            for get in (None, "", "keep;\n"):
                for put in (True, False):
                    for act in (True, False):
                        for dele in (True, False):
                            want = reference(L, old, new, get, put, act, dele)
                            got = run(L, old, new, get, put, act, dele)
                            if got is None:
                                raise _Undecided()
                            n += 1
                            if got != want:
                                gv, gev = got
                                wv, wev = want
                                # which discipline is broken
                                rule, key = "R6", "result"
                                names_g = [x[0] for x in gev]
                                if L is None:
                                    rule, key = "R5", "listing-refused"
                                elif [x[0] for x in gev] == [x[0] for x in wev] and gev != wev and [x[2:] for x in gev] == [x[2:] for x in wev]:
                                    rule, key = "R4", "operations"  # the right steps, on other names than the caller's
                                elif "delete" in names_g and (("put", new, get) not in gev or not put or (L[0] == old and (("setactive", new) not in gev or not act))):
                                    rule, key = "R1", "delete-without-copy"
                                elif "put" in names_g and "put" not in [x[0] for x in wev]:
                                    rule, key = ("R2", "overwrite") if wev == [] else ("R3", "content")
                                elif [x for x in gev if x[0] == "put"] != [x for x in wev if x[0] == "put"]:
                                    rule, key = "R3", "content"
                                elif gev != wev:
                                    rule, key = "R4", "operations"
                                problems.append((rule, "%s:%r,%r->%r" % (key, L, old, new),
                                                 "on a server listing %r, renamescript(%r, %r) with the answers getscript=%r putscript=%r setactive=%r "
                                                 "deletescript=%r performs %r and gives %r; the emulation must perform %r and give %r"
                                                 % (L, old, new, get, put, act, dele, gev, gv, wev, wv),
                                                 "a script is lost, overwritten or reported renamed although it was not"))
                                if len(problems) > 40:
                                    raise StopIteration
    except _Undecided:
        problems = None
    except StopIteration:
        pass
    except fd.TooManyPaths:
        problems = None
    except AnalysisError:
        raise
    except Exception:
        problems = None
    ctx._rename_eval = problems
    ctx._rename_eval_n = n
    return problems


class _Undecided(Exception):
    pass


def rename_rules(ctx, R, only=None):
    f = R.methods.get("renamescript")
    if f is None:
        raise AnalysisError("R", "Client.renamescript not found")
    ev_ = rename_eval(ctx, R)
    if ev_ is not None:
        for rid, txt in (("R1", "deletescript(old) only after the copy (and its activation when old was active) succeeded"),
                         ("R2", "putscript(new, ...) only when new is neither the active script nor one of the others"),
                         ("R3", "the uploaded content is the downloaded one, unmodified; None means failure, '' is a script"),
                         ("R4", "the steps are called with old / new in their roles, nothing else is sent"),
                         ("R5", "a refused listing ends the emulation"), ("R6", "True iff the delete succeeded")):
            ctx.rule(rid, txt)
        seen_ = set()
        for rule, key, msg, wit in ev_:
            k2 = (rule, key.split(":")[0])
            if k2 in seen_:
                continue
            seen_.add(k2)
            ctx.violation(rule, f, "model:%s" % key, msg, node=f.node, witness=wit)
        for rid in ("R1", "R2", "R3", "R4", "R5", "R6"):
            if not any(r_ == rid for r_, _, _, _ in ev_):
                ctx.holds(rid, "emulated rename evaluated for 13 (listing, old, new) cases x 24 combinations of server answers (%d runs): "
                               "operations and result equal the reference emulation" % getattr(ctx, "_rename_eval_n", 0))
        _native_rule(ctx, R, f)
        return
    outer = f
    STEPS = ("listscripts", "getscript", "putscript", "setactive", "deletescript")
    helper_call = None
    if not all(self_calls(f, opn) for opn in STEPS):
        # the emulation may live in a helper that renamescript calls with (old, new)
        for c in self_calls(f):
            g = R.methods.get(c.func.attr)
            if g is not None and g is not f and c.func.attr not in STEPS and all(self_calls(g, opn) for opn in STEPS):
                if [norm(a) for a in c.args] != f.params[1:3] or len(g.params) < 3:
                    raise AnalysisError("R", "emulation helper %s is not called with (old, new)" % g.qualname)
                f, helper_call = g, c
                break
    # steps collected as (method, arguments) pairs and run through a LIST inside all()/any(): every step is executed, whatever the
    # earlier ones answered (a list is built completely before all() looks at it; a generator would stop at the first refusal)
    stepnames = {"putscript", "setactive", "deletescript"}
    collected = [a for a in walk_no_nested(f.node) if isinstance(a, ast.Attribute) and a.attr in stepnames and isinstance(a.value, ast.Name)
                 and a.value.id == f.params[0] and not (isinstance(getattr(a, "_parent", None), ast.Call) and a._parent.func is a)]
    if collected:
        eager = [c for c in walk_no_nested(f.node) if isinstance(c, ast.Call) and call_name(c) in ("all", "any") and c.args
                 and isinstance(c.args[0], (ast.ListComp, ast.List))]
        if eager:
            ctx.rule("R1", "deletescript(old) only on the success edge of putscript(new, ...) (and of setactive(new) when old was active)")
            ctx.violation("R1", f, "steps-run-eagerly", "the copy / activate / delete steps are collected (%s ...) and run by %s over a list: the "
                          "list is built completely, so deletescript(old) is sent even when putscript(new) was refused" % (
                              norm(collected[0]), norm(eager[0])[:40]), node=eager[0],
                          witness="server answers NO to PUTSCRIPT (quota): the old script is deleted and nothing replaces it")
    cfg = ctx.cfg(f)
    params = f.params[1:]
    if len(params) < 2:
        raise AnalysisError("R", "renamescript takes fewer than two names")
    old, new = params[0], params[1]
    ops = {}
    for opn in STEPS:
        cs = self_calls(f, opn)
        if not cs:
            raise AnalysisError("R", "emulation step %s not found in renamescript" % opn)
        ops[opn] = cs

    def call_fact(opn, pol):
        def pred(fact):
            e, p = fact_call(fact)
            return p is pol and isinstance(e, ast.Call) and any(e is c for c in ops[opn])
        return pred

    def nodes_of(call):
        ns = cfg.node_containing(call)
        if not ns:
            raise AnalysisError("R", "call %s not located in CFG" % norm(call))
        return ns

    # listing components
    comp_active = comp_list = None
    listing_var = None
    for st in walk_no_nested(f.node):
        if isinstance(st, ast.Assign) and isinstance(st.targets[0], (ast.Tuple, ast.List)) and len(st.targets[0].elts) == 2:
            src = st.value
            if (isinstance(src, ast.Call) and any(src is c for c in ops["listscripts"])) or (
                    isinstance(src, ast.Name) and any(
                        isinstance(d, ast.Assign) and isinstance(d.value, ast.Call) and any(d.value is c for c in ops["listscripts"])
                        and any(isinstance(t, ast.Name) and t.id == src.id for t in d.targets) for d in walk_no_nested(f.node))):
                a, b = st.targets[0].elts
                if isinstance(a, ast.Name) and isinstance(b, ast.Name):
                    comp_active, comp_list = a.id, b.id
                    unpack_stmt = st
                    if isinstance(src, ast.Name):
                        listing_var = src.id
    if comp_active is None:
        raise AnalysisError("R", "unpacking of the listing into (active, others) not recognised")

    # ---- R5 null-flow ---------------------------------------------------------
    ctx.rule("R5", "a listing that may be None is tested before being unpacked")
    lst = R.methods.get("listscripts")
    may_none = lst is not None and any(isinstance(r, ast.Return) and (r.value is None or (
        isinstance(r.value, ast.Constant) and r.value.value is None)) for r in walk_no_nested(lst.node))
    if not may_none:
        ctx.holds("R5", "listscripts never returns None")
    elif listing_var is None:
        ctx.violation("R5", f, "unpack-of-none", "the result of listscripts() is unpacked directly although it is None when the server "
                      "answers NO", node=unpack_stmt, witness="server answers NO to LISTSCRIPTS: TypeError instead of False")
    else:
        def not_none(fact):
            e, pol = fact_atom(fact)
            if isinstance(e, ast.Name) and e.id == listing_var:
                return pol is True
            cp = cmp_parts(e)
            if cp and isinstance(cp[0], ast.Name) and cp[0].id == listing_var and isinstance(cp[2], ast.Constant) and cp[2].value is None:
                return (cp[1] == "Is" and pol is False) or (cp[1] == "IsNot" and pol is True)
            return False
        if all(cfg.guarded(n, not_none) for n in cfg.nodes_for(unpack_stmt)):
            ctx.holds("R5", "%s: listing tested for None before unpacking" % f.qualname)
        else:
            ctx.violation("R5", f, "unpack-of-none", "the listing is unpacked on a path where it may be None", node=unpack_stmt,
                          witness="server answers NO to LISTSCRIPTS: TypeError instead of False")

    # ---- R1 delete after copy ------------------------------------------------------
    ctx.rule("R1", "deletescript(old) only on the success edge of putscript(new, ...) (and of setactive(new) when old was active)")
    for c in ops["deletescript"]:
        for n in nodes_of(c):
            if cfg.guarded(n, call_fact("putscript", True)):
                ctx.holds("R1", "%s: delete dominated by successful put" % f.qualname)
            else:
                p = cfg.unguarded_path(n, call_fact("putscript", True))
                ctx.violation("R1", f, "delete-without-copy", "deletescript(old) is reachable without putscript(new, ...) having succeeded",
                              node=c, path=cfg.describe_path(p) if p else None,
                              witness="server answers NO to PUTSCRIPT (quota): the old script is deleted and nothing replaces it")

            def act_ok(fact):
                if call_fact("setactive", True)(fact):
                    return True
                e, pol = fact_atom(fact)
                cp = cmp_parts(e)
                if cp and cp[1] in ("Eq", "NotEq"):
                    names = {norm(cp[0]), norm(cp[2])}
                    if names == {comp_active, old}:
                        return pol is (cp[1] == "NotEq")
                return False
            if cfg.guarded(n, act_ok):
                ctx.holds("R1", "%s: delete of an active script only after setactive(new) succeeded" % f.qualname)
            else:
                ctx.violation("R1", f, "delete-without-activation", "the old active script can be deleted although activating the copy "
                              "failed or was skipped", node=c,
                              witness="server answers NO to SETACTIVE: no script is active any more")

    # ---- R2 no overwrite ------------------------------------------------------------
    ctx.rule("R2", "putscript(new, ...) only after `new` was tested absent against the active name AND the list of other names")

    def absent_from(component, kind):
        def pred(fact):
            e, pol = fact_atom(fact)
            cp = cmp_parts(e)
            if not cp:
                return False
            a, op, b = cp
            if kind == "list" and op in ("In", "NotIn") and norm(a) == new and norm(b) == component:
                return pol is (op == "NotIn")
            if kind == "name" and op in ("Eq", "NotEq") and {norm(a), norm(b)} == {new, component}:
                return pol is (op == "NotEq")
            return False
        return pred

    for c in ops["putscript"]:
        for n in nodes_of(c):
            for comp, kind, what in ((comp_list, "list", "the list of non-active scripts"), (comp_active, "name", "the active script")):
                if cfg.guarded(n, absent_from(comp, kind)):
                    ctx.holds("R2", "%s: put guarded by absence of new from %s" % (f.qualname, what))
                else:
                    ctx.violation("R2", f, "overwrite:%s" % kind, "putscript(new, ...) is reachable although `new` was not tested against %s"
                                  % what, node=c,
                                  witness="a script named like the target exists%s: its content is replaced" % (
                                      " and is the active one" if kind == "name" else ""))

    # ---- R3 content ------------------------------------------------------------------
    ctx.rule("R3", "the uploaded content is the unmodified result of getscript(old), after its None test")
    put = R.methods.get("putscript")
    for c in ops["putscript"]:
        content = bound_arg(c, put, put.params[2]) if put and len(put.params) > 2 else (c.args[1] if len(c.args) > 1 else None)
        if not isinstance(content, ast.Name):
            ctx.violation("R3", f, "content-modified", "the content passed to putscript is %s, not the downloaded script itself"
                          % (norm(content) if content is not None else "missing"), node=c)
            continue
        defs = [d for d in walk_no_nested(f.node) if isinstance(d, ast.Assign) and any(
            isinstance(t, ast.Name) and t.id == content.id for t in d.targets)]
        if len(defs) != 1 or not (isinstance(defs[0].value, ast.Call) and any(defs[0].value is g for g in ops["getscript"])):
            ctx.violation("R3", f, "content-modified", "the uploaded content %s is not bound once to getscript(old)" % content.id, node=c,
                          witness="the renamed script differs from the original")
            continue

        def got(fact):
            e, pol = fact_atom(fact)
            if isinstance(e, ast.Name) and e.id == content.id:
                return pol is True
            cp = cmp_parts(e)
            if cp and isinstance(cp[0], ast.Name) and cp[0].id == content.id and isinstance(cp[2], ast.Constant) and cp[2].value is None:
                return (cp[1] == "Is" and pol is False) or (cp[1] == "IsNot" and pol is True)
            return False
        # getscript answers None for a failed download and "" for an empty script: a truthiness test cannot tell them apart
        truthy = [fc for fc in cfg.facts() if isinstance(fact_atom(fc)[0], ast.Name) and fact_atom(fc)[0].id == content.id]
        if truthy:
            ctx.violation("R3", f, "empty-script-is-failure", "the downloaded script is tested for truth (%s): an existing script with empty "
                          "content is treated like a failed download" % norm(truthy[0].expr)[:40], node=truthy[0].ast or f.node,
                          witness="renamescript of a script whose content is empty returns False and renames nothing")
        elif all(cfg.guarded(n, got) for n in nodes_of(c)):
            ctx.holds("R3", "%s: put uploads %s = getscript(old), tested for None" % (f.qualname, content.id))
        else:
            ctx.violation("R3", f, "content-none", "putscript can be called although getscript(old) failed (None)", node=c,
                          witness="server answers NO to GETSCRIPT: an empty/garbage script is uploaded under the new name and the old one deleted")

    # ---- R4 names ------------------------------------------------------------------
    ctx.rule("R4", "operations in the emulation are called with the parameters old/new, unmodified, in their roles")
    want = {"getscript": old, "deletescript": old, "putscript": new, "setactive": new}
    reassigned = [d for d in walk_no_nested(f.node) if isinstance(d, (ast.Assign, ast.AugAssign)) and any(
        isinstance(t, ast.Name) and t.id in (old, new) for t in (d.targets if isinstance(d, ast.Assign) else [d.target]))]
    for d in reassigned:
        ctx.violation("R4", f, "name-reassigned", "a name parameter is modified inside renamescript: %s" % norm(d), node=d)
    for opn, w in want.items():
        for c in ops[opn]:
            a = c.args[0] if c.args else None
            if isinstance(a, ast.Name) and a.id == w:
                ctx.holds("R4", "%s(%s)" % (opn, w))
            else:
                ctx.violation("R4", f, "wrong-name:%s" % opn, "%s is called with %s instead of %s" % (opn, norm(a) if a is not None else "nothing", w),
                              node=c, witness="a script other than the one being renamed is touched")
    others = [c for c in self_calls(f) if c.func.attr in R.methods and c.func.attr not in want and c.func.attr not in (
        "listscripts", R.sender.name) and R.sender.name in R.graph.reach_from([c.func.attr])]
    for c in others:
        ctx.violation("R4", f, "extra-operation:%s" % c.func.attr, "the emulation performs an extra server operation: %s" % norm(c), node=c)

    # ---- R6 exits ------------------------------------------------------------------
    ctx.rule("R6", "True only on the success edge of the delete; finite-domain enumeration of all step outcomes")

    def oracle(interp, e, name, recv, args, kw, st):
        if name and name.startswith("self."):
            m = name[5:]
            if m == "listscripts":
                return [(fd.Const(None), ("list", None)), (fd.Tup([fd.Unknown("active"), fd.Unknown("scripts")]), ("list", "ok"))]
            if m == "getscript":
                return [(fd.Const(None), ("get", None)), (fd.Unknown("body"), ("get", "ok"))]
            if m in ("putscript", "setactive", "deletescript"):
                return [(fd.Const(True), (m, True)), (fd.Const(False), (m, False))]
            if m == R.sender.name:
                return [(fd.Tup([fd.Const("OK"), fd.Unknown("d")]), ("native", "OK")), (fd.Tup([fd.Const("NO"), fd.Unknown("d")]), ("native", "NO"))]
        return None

    it = fd.Interp(f.node, R.cls.name, oracle, resolve=module_resolver(ctx.program, R.module))
    try:
        paths = it.run({})
    except fd.TooManyPaths:
        raise AnalysisError("R6", "path explosion")
    npaths = 0
    bad = None
    for p in paths:
        ev = [x for x in p.events if x[0] in ("list", "get", "putscript", "setactive", "deletescript", "native")]
        if any(x[0] == "native" for x in ev):
            continue
        npaths += 1
        names = [x[0] for x in ev]
        if p.kind == "raise" and p.value != "Error":
            bad = bad or ("raises %s after steps %s" % (p.value, ev), p)
            continue
        if "deletescript" in names:
            i = names.index("deletescript")
            if ("putscript", True) not in ev[:i]:
                bad = bad or ("deletes the old script after steps %s" % ev[:i], p)
        if "putscript" in names:
            i = names.index("putscript")
            if ("get", "ok") not in ev[:i] or ("list", "ok") not in ev[:i]:
                bad = bad or ("uploads the copy after steps %s" % ev[:i], p)
        if p.kind == "return":
            t = fd.truth(p.value)
            if t is not False and ("deletescript", True) not in ev:
                bad = bad or ("returns %r after steps %s" % (p.value, ev), p)
            if t is not True and ("deletescript", True) in ev:
                bad = bad or ("returns %r although every step succeeded (%s)" % (p.value, ev), p)
    if npaths < 6:
        raise AnalysisError("R6", "only %d emulation paths enumerated" % npaths)
    if bad:
        ctx.violation("R6", f, "exit-discipline", "emulated rename %s" % bad[0], node=bad[1].node or f.node)
    else:
        ctx.holds("R6", "%s: %d emulation paths: True iff the delete succeeded; other exits False/Error" % (f.qualname, npaths))

    # ---- R7 native path -------------------------------------------------------------
    ctx.rule("R7", "with the server capability present only the native RENAMESCRIPT is sent")
    sites = [(c, v) for (g, c, v) in sender_sites(ctx, R) if g is outer]
    nat = [c for c, v in sites if v == "RENAMESCRIPT"]
    emu_f, emu_cfg, emu_old, emu_new = f, cfg, old, new
    if outer is not f:
        f, cfg = outer, ctx.cfg(outer)
        old, new = outer.params[1], outer.params[2]

        def nodes_of(call):  # noqa: F811 - locate in the outer function from here on
            ns = cfg.node_containing(call)
            if not ns:
                raise AnalysisError("R", "call %s not located in CFG" % norm(call))
            return ns
    if not nat:
        ctx.violation("R7", f, "no-native", "renamescript never sends RENAMESCRIPT", node=f.node)
    else:
        def cap(pol):
            def pred(fact):
                e, p_ = fact_atom(fact)
                cp = cmp_parts(e)
                if cp and cp[1] in ("In", "NotIn") and const_value(ctx.program, f, cp[0]) == "VERSION":
                    return p_ is ((cp[1] == "In") == pol)
                return False
            return pred
        for c in nat:
            a = bound_arg(c, R.sender, R.sender.params[2]) if len(R.sender.params) > 2 else None
            good = isinstance(a, ast.List) and len(a.elts) == 2 and all(
                isinstance(el, ast.Call) and isinstance(el.func, ast.Attribute) and el.func.attr == "encode"
                and isinstance(el.func.value, ast.Name) for el in a.elts) and [el.func.value.id for el in a.elts] == [old, new]
            if good:
                ctx.holds("R7", "RENAMESCRIPT carries (old, new) in that order")
            else:
                ctx.violation("R7", f, "native-args", "RENAMESCRIPT is not sent with (old, new): %s" % norm(c)[:80], node=c)
            if all(cfg.guarded(n, cap(True)) for n in nodes_of(c)):
                ctx.holds("R7", "native rename only when the capability is announced")
            else:
                ctx.violation("R7", f, "native-unguarded", "RENAMESCRIPT is sent although the server did not announce support", node=c)
        if helper_call is not None:
            if not all(cfg.guarded(n, cap(False)) for n in nodes_of(helper_call)):
                ctx.violation("R7", f, "emulation-with-native", "the emulation is reachable although the server supports RENAMESCRIPT", node=helper_call)
        else:
            for opn in want:
                for c in ops[opn]:
                    if not all(cfg.guarded(n, cap(False)) for n in nodes_of(c)):
                        ctx.violation("R7", f, "emulation-with-native", "emulation step %s is reachable although the server supports RENAMESCRIPT"
                                      % opn, node=c)


def _native_rule(ctx, R, f):
    """R7 by evaluation: with the capability announced, exactly one RENAMESCRIPT (old, new) is sent, none of the emulation steps is
    performed, and the result is the server's answer."""
    ctx.rule("R7", "with the server capability present only the native RENAMESCRIPT is sent")
    own = f.params[1:]
    selfp = f.params[0]
    for code, want in (("OK", True), ("NO", False)):
        def oracle(interp, e, name, recv, args, kw, st, code=code):
            if name and name.startswith("self."):
                mn = name[5:]
                if mn == R.sender.name:
                    vals = tuple(a.v if isinstance(a, fd.Const) else "?" for a in args)
                    return [(fd.Tup([fd.Const(code), fd.Unknown("d")]), ("native",) + vals)]
                if mn in ("listscripts", "getscript", "putscript", "setactive", "deletescript"):
                    return [(fd.Const(None), ("step", mn))]
                if mn in R.methods and R.methods[mn] is not f:
                    return fd.Inline(R.methods[mn])
            return None
        it = fd.Interp(f.node, R.cls.name, oracle, loop_unroll=4, max_depth=4, resolve=module_resolver(ctx.program, R.module))
        env = {own[0]: fd.Const("old"), own[1]: fd.Const("new")}
        for cand in ("__capabilities", "_Client__capabilities", "capabilities"):
            env["%s.%s" % (selfp, cand)] = fd.Const({"VERSION": "1.0", "SIEVE": "fileinto"})
        try:
            paths = it.run(env)
        except fd.TooManyPaths:
            raise AnalysisError("R7", "path explosion on the native path")
        if len(paths) != 1 or paths[0].kind != "return" or fd.truth(paths[0].value) is None:
            raise AnalysisError("R7", "native rename path not evaluable")
        ev = [x for x in paths[0].events if x and x[0] in ("native", "step")]
        from .c08 import formatter_accepts_text
        ok_args = [[b"old", b"new"]] + ([["old", "new"]] if formatter_accepts_text(ctx, R) else [])  # (a formatter that encodes text itself)
        if len(ev) == 1 and ev[0][:2] == ("native", "RENAMESCRIPT") and list(ev[0][2:3]) and ev[0][2] in ok_args and len(ev[0]) == 3 \
                and fd.truth(paths[0].value) is want:
            ctx.holds("R7", "capability announced, server answers %s: one RENAMESCRIPT (old, new), result %s" % (code, want))
        else:
            ctx.violation("R7", f, "native-path:%s" % code, "with RENAMESCRIPT announced and answered %s, renamescript performs %r and returns %r; "
                          "expected the single command RENAMESCRIPT \"old\" \"new\" and %r" % (code, ev, fd.truth(paths[0].value), want), node=f.node,
                          witness="the rename is emulated (or sent with the wrong names) although the server supports it")
