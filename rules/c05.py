"""C05 - ManageSieve replies are read identically however the bytes are segmented.

Segmentation is observable only through recv().  M1/M2 establish that two
accessor functions own recv and the buffer; M3/M4 that each accessor's result
is a function of the byte stream alone (loops until the requested size / the
delimiter is there); M5 that literal sizes are passed on unchanged.
"""
import ast

from sa import rx
from sa.model import AnalysisError, walk_no_nested, norm, mangle, call_name, stmt_of
from sa.util import establishes_empty, attr_calls, self_calls, fact_atom, const_value, raise_name, attr_writes, attr_reads, contains
from sa.consteval import TOP, Evaluator
from sa.cfg import assigned_targets, names_in
from .roles import ClientRoles


def run(ctx):
    R = ClientRoles(ctx, "M")
    ctx.explanation = (
        "Ownership and loop-shape facts over sievelib/managesieve.py that make the reply readers functions of the byte "
        "stream alone: (M1) recv() is called only in the line reader and the block reader; (M2) only they (and "
        "connection set-up code assigning the empty constant) touch the read buffer; (M3) the block reader's recv is "
        "inside a loop that ends only when the requested number of bytes has been accumulated, asks for the "
        "remaining count, and consumes buffered bytes first; (M4) the line reader's recv is inside a loop whose only "
        "normal exit is 'delimiter found', returns the prefix before the delimiter and keeps exactly the rest; (M5) "
        "literal sizes reach the block reader unchanged from a digits-only size pattern. Given the trusted model of "
        "socket.recv these clauses imply segmentation independence for every schedule.")
    ctx.not_decided = "nothing beyond the trusted model of socket.recv (returns 1..n bytes, b'' at end of stream, raises on timeout)."
    ctx.assumptions = ["socket.recv(n) returns between 1 and n bytes, b'' only at end of stream, raises socket.timeout on silence",
                       "end-of-stream behaviour is outside the property (reported as NOTICE only)"]
    reader_rules(ctx, R)
    # the buffer belongs to one connection: a new one does not start with the previous one's leftovers (A8 of C10)
    from .c10 import a8
    a8(ctx, R)


def reader_rules(ctx, R):
    # ---- M7: the property itself, on samples ----------------------------------------
    ctx.rule("M7", "assembler + readers interpreted over sample reply streams: the same result under every segmentation")
    mev = m7_status(ctx, R)
    if mev is not None and mev[0] == "bad":
        ctx.violation("M7", R.assembler or R.line_reader, "model:segmentation", mev[1], node=(R.assembler or R.line_reader).node,
                      witness="the same server output, cut differently by the transport, is read differently")
    elif mev is not None:
        ctx.holds("M7", "%d deliveries of %d reply streams (status lines, quoted and literal listings, a script literal, NO with a literal "
                  "text, replies back to back; one segment, a cut at every position, one octet per segment, pairs of cuts) are read to the "
                  "same (code, text, content) and error fields" % (mev[1], len(STREAMS)))
    else:
        ctx.notice("M7", "the interpreter cannot follow the readers; the structural rules M1-M6 decide")
    # M3-M6 describe ONE way of reading exactly (slice the buffer, ask for the remaining count, search from the start ...): they are
    # sufficient, not necessary.  When the evaluation followed the readers through every delivery they do not report any more.
    ctx._m7_ok = bool(mev is not None and mev[0] == "ok")
    prev = ctx.demote(("M3", "M4", "M5", "M6"), "the evaluation of the readers (M7)",
                      keep_keys=("size-group-not-digits", "timeout-not-error", "delimiter-not-crlf")) if ctx._m7_ok else None
    try:
        _reader_rules_structural(ctx, R)
    except AnalysisError as e:
        if mev is None:
            raise
        ctx.notice(e.rule, "reader idiom not recognised by the structural rule (%s); the readers are decided by evaluation (M7)" % e.why)
    finally:
        if prev is not None:
            ctx.restore(prev)


def m7_status(ctx, R):
    """The result of the reader evaluation, computed once per run (rules of C09 / C15 that describe one way of writing the readers
    consult it before they report)."""
    if not hasattr(ctx, "_m7"):
        try:
            ctx._m7 = reader_eval(ctx, R, thorough=(ctx.tier == "thorough"))
        except RecursionError:
            ctx._m7 = None
        ctx._m7_ok = bool(ctx._m7 is not None and ctx._m7[0] == "ok")
    return ctx._m7


def _reader_rules_structural(ctx, R):
    blk, lin = R.block_reader, R.line_reader

    m1(ctx, R)
    m2(ctx, R)

    # ---- M3 exact-size reader -----------------------------------------------------
    ctx.rule("M3", "block reader: recv inside a loop that ends only when the requested size is accumulated; requests the remaining "
                   "count; buffered bytes first")
    cfg = ctx.cfg(blk)
    size_param = blk.params[1] if len(blk.params) > 1 else None
    if size_param is None:
        raise AnalysisError("M3", "block reader has no size parameter")
    recvs = R.recv_sites[blk.name]
    for c in recvs:
        nodes = cfg.node_containing(c)
        if not nodes:
            raise AnalysisError("M3", "recv call not found in CFG")
        node = nodes[0]
        cyc = cfg.cycle_nodes(node, exc=False)
        if not cyc:
            ctx.violation("M3", blk, "single-recv", "the block reader issues a single recv(%s): when the transport delivers fewer "
                          "bytes than requested the literal is returned short" % norm(c.args[0] if c.args else c),
                          node=c,
                          witness="reply `{12}\\r\\n` + 12 octets delivered in 3 segments: GETSCRIPT returns a truncated script "
                                  "and the rest of the literal is parsed as protocol lines")
            continue
        # variables updated inside the cycle
        updated = set()
        for x in cyc:
            if x.kind == "stmt" and x.ast is not None and not isinstance(x.ast, (ast.If, ast.While, ast.For, ast.Try)):
                updated |= assigned_targets(x.ast)
        # exit tests of the cycle
        exits = [t for t in cyc if t.kind == "test" and any(s not in cyc for f_, _ in t.succ for s, _l in f_.succ)]
        dep = [t for t in exits if {norm(nm) for nm in ast.walk(t.expr) if isinstance(nm, (ast.Name, ast.Attribute))} & updated]
        if not dep:
            ctx.violation("M3", blk, "loop-exit-independent", "the loop around recv does not terminate on a quantity updated from the "
                          "received data", node=c)
        else:
            ctx.holds("M3", "%s: recv inside a loop exiting on %s" % (blk.qualname, norm(dep[0].expr)))
        # the request is the remaining count
        a = c.args[0] if c.args else None
        ok_req = False
        if a is not None:
            reads = {norm(nm) for nm in ast.walk(a) if isinstance(nm, (ast.Name, ast.Attribute))}
            if reads & updated:
                ok_req = True
            if any(isinstance(x, ast.Call) and call_name(x) == "len" for x in ast.walk(a)) and size_param in names_in(a):
                ok_req = True
        if ok_req:
            ctx.holds("M3", "%s: recv requests the remaining count (%s)" % (blk.qualname, norm(a)))
        else:
            ctx.violation("M3", blk, "request-not-remaining", "recv is asked for %s, which is not the number of bytes still missing: "
                          "bytes of the next reply can be swallowed" % (norm(a) if a is not None else "nothing"), node=c)
        # empty recv leaves the loop
        eof = False
        for tn in cyc:
            if tn.kind != "test":
                continue
            for t, _lab in tn.succ:
                if t.kind == "fact" and t not in cyc:
                    # leaves the loop: straight into a raise?
                    r = cfg.reach(t, avoid=[node], exc=False)
                    if any(x.kind == "stmt" and isinstance(x.ast, ast.Raise) for x in r) and cfg.exit not in r and \
                            any(isinstance(nm, ast.Name) for nm in ast.walk(t.expr)):
                        eof = True
        if not eof:
            ctx.notice("M3", "block reader loop has no end-of-stream exit (recv returning b'' would spin); outside the property")
    # buffered bytes first
    def deletes_prefix(st):
        """`del buf[:k]` on the read buffer (in-place form of buf = buf[k:])"""
        return isinstance(st, ast.Delete) and any(isinstance(t, ast.Subscript) and isinstance(t.value, ast.Attribute)
                                                  and mangle(R.cls.name, t.value.attr) == R.buffer_attr and isinstance(t.slice, ast.Slice)
                                                  and t.slice.lower is None for t in st.targets)
    bufstores = [x for x in cfg.stmt_nodes() if (isinstance(x.ast, ast.Assign) and any(
        isinstance(t, ast.Attribute) and mangle(R.cls.name, t.attr) == R.buffer_attr for t in x.ast.targets)) or deletes_prefix(x.ast)]

    def buf_empty(fact):
        e, pol = fact_atom(fact)
        return pol is False and any(isinstance(x, ast.Attribute) and mangle(R.cls.name, x.attr) == R.buffer_attr
                                    for x in ast.walk(e))

    for c in recvs:
        for node in cfg.node_containing(c):
            if not bufstores:
                ctx.violation("M3", blk, "buffer-not-consumed", "the block reader never consumes the read buffer", node=c,
                              witness="bytes already received with the previous line are skipped: the literal is read from the wrong offset")
            elif cfg.dominates(bufstores + cfg.facts(buf_empty), node, exc=False):
                ctx.holds("M3", "%s: buffered bytes are consumed before recv" % blk.qualname)
            else:
                ctx.violation("M3", blk, "recv-before-buffer", "recv is reachable without the buffered bytes having been consumed first",
                              node=c)
    # returns: the accumulator
    rets = [r for r in walk_no_nested(blk.node) if isinstance(r, ast.Return)]
    if not rets or any(r.value is None for r in rets):
        ctx.violation("M3", blk, "returns-nothing", "the block reader has a path returning no data", node=blk.node)

    # accumulated length + remaining request == announced size (affine invariant at loop entry)
    inv = block_invariant(ctx, blk, size_param)
    if inv is True:
        ctx.holds("M3", "%s: on entry to the receive loop len(accumulator) + remaining == requested size on every path" % blk.qualname)
    elif inv is None:
        pass  # no loop: already reported as single-recv
    else:
        ctx.violation("M3", blk, "size-invariant", "the receive loop of the block reader does not read up to the announced size: %s" % inv,
                      node=blk.node, witness="a literal whose first octets arrived with the previous line is returned short by that many octets")

    # the result is a value of its own: a name bound to the buffer OBJECT (no slice, no copy) changes when the buffer is emptied in place
    for a in walk_no_nested(blk.node):
        if isinstance(a, ast.Assign) and isinstance(a.value, ast.Attribute) and mangle(R.cls.name, a.value.attr) == R.buffer_attr \
                and any(isinstance(t, ast.Name) for t in a.targets):
            inplace = [x for x in walk_no_nested(blk.node) if (isinstance(x, ast.Delete) and any(
                isinstance(t, ast.Subscript) and isinstance(t.value, ast.Attribute) and mangle(R.cls.name, t.value.attr) == R.buffer_attr for t in x.targets))
                or (isinstance(x, ast.Call) and isinstance(x.func, ast.Attribute) and x.func.attr in ("clear", "extend", "append", "pop")
                    and isinstance(x.func.value, ast.Attribute) and mangle(R.cls.name, x.func.value.attr) == R.buffer_attr)
                or (isinstance(x, ast.AugAssign) and isinstance(x.target, ast.Attribute) and mangle(R.cls.name, x.target.attr) == R.buffer_attr)]
            # ... on a path that runs from the binding to the modification without the attribute being bound to another object
            rebinds = [x for st_ in walk_no_nested(blk.node) if isinstance(st_, ast.Assign) and any(
                isinstance(t, ast.Attribute) and mangle(R.cls.name, t.attr) == R.buffer_attr for t in st_.targets) for x in cfg.nodes_for(st_)]
            bind_nodes = cfg.nodes_for(a)
            inplace = [x for x in inplace if any(cfg.path_exists(b, m, avoid=rebinds, exc=False)
                                                 for b in bind_nodes for m in (cfg.node_containing(x) if isinstance(x, ast.Call) else cfg.nodes_for(x)))]
            if inplace:
                ctx.violation("M3", blk, "result-aliases-buffer", "%s binds the buffer object itself (%s) and then modifies the buffer in place (%s): "
                              "the bytes already taken change under the result" % (blk.qualname, norm(a), norm(inplace[0])[:40]), node=a,
                              witness="a literal cut inside its body loses its head: the wrong script / name is returned, replies stay in step")
    # ... and the loop body keeps it: what is subtracted from the remaining count is the length of what was appended
    for lp in [x for x in walk_no_nested(blk.node) if isinstance(x, ast.While)]:
        adds = [a for a in walk_no_nested(lp) if isinstance(a, ast.AugAssign) and isinstance(a.op, ast.Add) and isinstance(a.target, ast.Name)]
        subs = [a for a in walk_no_nested(lp) if isinstance(a, ast.AugAssign) and isinstance(a.op, ast.Sub) and isinstance(a.target, ast.Name)]
        test_names = {n.id for n in ast.walk(lp.test) if isinstance(n, ast.Name)}
        for sb in subs:
            if sb.target.id not in test_names:
                continue
            v = sb.value
            chunk = v.args[0].id if isinstance(v, ast.Call) and call_name(v) == "len" and len(v.args) == 1 and isinstance(v.args[0], ast.Name) else None
            appended = {a.value.id for a in adds if isinstance(a.value, ast.Name)}
            if chunk is not None and chunk in appended:
                ctx.holds("M3", "%s: the remaining count decreases by len(%s), the chunk appended in that iteration" % (blk.qualname, chunk))
            else:
                ctx.violation("M3", blk, "remaining-count-step", "the remaining count %s is decreased by %s, which is not the length of the chunk "
                              "appended in that iteration (%s)" % (sb.target.id, norm(v), sorted(appended) or "nothing appended"), node=sb,
                              witness="a literal completed by two further recv() calls is returned short; its tail is parsed as the next lines")

    # ---- M6 chunk uses ------------------------------------------------------------
    ctx.rule("M6", "the bytes returned by recv are used only in segmentation-independent ways (append to buffer, len, emptiness, debug print as is)")
    for rd in (blk, lin):
        for c in R.recv_sites[rd.name]:
            st = stmt_of(c)
            if isinstance(st, ast.Assign) and isinstance(st.targets[0], ast.Name) and st.value is c:
                cv = st.targets[0].id
            elif isinstance(st, ast.AugAssign):
                ctx.holds("M6", "%s: recv result appended directly (%s)" % (rd.qualname, norm(st)[:50]))
                continue
            else:
                ctx.violation("M6", rd, "chunk-consumed-inline", "the result of recv is consumed inside %s" % norm(st)[:60], node=c)
                continue
            bad = []
            # the chunk may travel through plain copies (`nval = data`): every copy is held to the same discipline
            cvs = {cv}
            grew = True
            while grew:
                grew = False
                for a_ in walk_no_nested(rd.node):
                    if isinstance(a_, ast.Assign) and isinstance(a_.value, ast.Name) and a_.value.id in cvs and len(a_.targets) == 1 \
                            and isinstance(a_.targets[0], ast.Name) and a_.targets[0].id not in cvs:
                        cvs.add(a_.targets[0].id)
                        grew = True
            for n_ in walk_no_nested(rd.node):
                if isinstance(n_, ast.Name) and n_.id in cvs and isinstance(n_.ctx, ast.Load):
                    p_ = n_._parent
                    ok = False
                    if isinstance(p_, ast.Assign) and p_.value is n_ and len(p_.targets) == 1 and isinstance(p_.targets[0], ast.Name):
                        ok = True  # a copy (followed above)
                    # shown as it is in a debug line: `%r` / repr() / !r never look inside the bytes
                    q_ = p_
                    if isinstance(q_, ast.Tuple):
                        q_ = q_._parent
                    if isinstance(q_, ast.BinOp) and isinstance(q_.op, ast.Mod) and isinstance(q_.left, ast.Constant) and isinstance(q_.left.value, str) \
                            and "%s" not in q_.left.value and "%r" in q_.left.value and isinstance(q_._parent, ast.Call) and "print" in (call_name(q_._parent) or ""):
                        ok = True
                    if isinstance(p_, ast.FormattedValue) and p_.conversion == 114:
                        ok = True
                    if isinstance(p_, ast.Call) and isinstance(p_.func, ast.Name) and p_.func.id == "repr":
                        ok = True
                    if isinstance(p_, ast.AugAssign) and p_.value is n_ and isinstance(p_.op, ast.Add):
                        ok = True
                    elif isinstance(p_, ast.Call) and call_name(p_) == "len" and p_.args == [n_]:
                        ok = True
                    elif isinstance(p_, ast.Call) and isinstance(p_.func, ast.Attribute) and "print" in p_.func.attr and p_.args == [n_]:
                        ok = True
                    elif isinstance(p_, (ast.If, ast.While)) and p_.test is n_:
                        ok = True
                    elif isinstance(p_, ast.UnaryOp) and isinstance(p_.op, ast.Not):
                        ok = True
                    elif isinstance(p_, ast.BinOp) and isinstance(p_.op, ast.Add) and isinstance(p_._parent, (ast.Assign, ast.AugAssign)):
                        ok = True  # buf = buf + chunk
                    elif isinstance(p_, ast.Compare) and len(p_.comparators) == 1 and isinstance(p_.comparators[0], ast.Constant) \
                            and p_.comparators[0].value in (b"", None):
                        ok = True
                    if not ok:
                        bad.append(n_)
            if bad:
                b0 = bad[0]
                q = b0._parent
                while not isinstance(q, ast.stmt) and not isinstance(q, ast.Call):
                    q = q._parent
                ctx.violation("M6", rd, "chunk-dependent:%s" % norm(q)[:50], "a single recv chunk is processed on its own (%s): the outcome depends on "
                              "where the transport cut the stream" % norm(q)[:70], node=b0,
                              witness="a multi-byte character or a CRLF split across two segments makes the read fail or differ")
            else:
                ctx.holds("M6", "%s: chunk `%s` only appended / measured / tested for emptiness" % (rd.qualname, cv))

    # ---- M4 delimiter reader ---------------------------------------------------
    ctx.rule("M4", "line reader: recv inside a loop whose only normal exit is 'delimiter found'; returns the prefix, keeps the rest")
    cfgl = ctx.cfg(lin)
    lrecv = R.recv_sites[lin.name]
    for c in lrecv:
        nodes = cfgl.node_containing(c)
        if not nodes:
            raise AnalysisError("M4", "recv call not found in CFG")
        node = nodes[0]
        cyc = cfgl.cycle_nodes(node, exc=True)
        if not cyc:
            ctx.violation("M4", lin, "single-recv", "the line reader issues a single recv: a line split across segments is returned "
                          "incomplete", node=c, witness="`OK \"done\"\\r\\n` delivered as `OK \"do` + `ne\"\\r\\n`")
            continue
        # classify exits of the cycle
        consume = [x for x in cfgl.stmt_nodes() if isinstance(x.ast, ast.Assign) and any(
            isinstance(t, ast.Attribute) and mangle(R.cls.name, t.attr) == R.buffer_attr for t in x.ast.targets)
            and any(isinstance(s, (ast.Subscript, ast.Call)) for s in ast.walk(x.ast.value))
            and any(isinstance(s, ast.Attribute) and mangle(R.cls.name, s.attr) == R.buffer_attr for s in ast.walk(x.ast.value))]
        consume += [x for x in cfgl.stmt_nodes() if isinstance(x.ast, ast.Delete) and any(
            isinstance(t, ast.Subscript) and isinstance(t.value, ast.Attribute) and mangle(R.cls.name, t.value.attr) == R.buffer_attr
            and isinstance(t.slice, ast.Slice) and t.slice.lower is None and t.slice.upper is not None for t in x.ast.targets)]
        part = partition_idiom(ctx, R, lin)
        if part is not None:
            # head, sep, rest = buffer.partition(CRLF) ... buffer = rest
            consume += [x for x in cfgl.stmt_nodes() if isinstance(x.ast, ast.Assign) and any(
                isinstance(t, ast.Attribute) and mangle(R.cls.name, t.attr) == R.buffer_attr for t in x.ast.targets)
                and isinstance(x.ast.value, ast.Name) and x.ast.value.id == part[3]]
        if not consume:
            raise AnalysisError("M4", "line reader: statement that removes the line from the buffer not recognised")
        bad = []
        for x in cyc:
            for s, lab in x.succ:
                if s in cyc:
                    continue
                # x -> s leaves the loop
                if s.kind == "raise" or (x.kind == "stmt" and isinstance(x.ast, ast.Raise)):
                    continue
                if cfgl.exit not in cfgl.reach(s, exc=True):
                    continue  # this way out only ever raises
                # must come from a buffer consumption in this iteration: x reachable from a consume node w/o passing recv
                if any(x is cn or x in cfgl.reach(cn, avoid=[node], exc=False) for cn in consume):
                    continue
                # ... or lead to one: the way out is the "found" branch itself, which removes the line before anything returns
                if s in consume or cfgl.exit not in cfgl.reach(s, avoid=consume, exc=False):
                    continue
                # end-of-stream exit: dominated (within the iteration) by an emptiness test of the received data
                recv_var = None
                st = stmt_of(c)
                if isinstance(st, ast.Assign) and isinstance(st.targets[0], ast.Name):
                    recv_var = st.targets[0].id
                recv_vars = {recv_var} if recv_var else set()
                grew_ = True
                while grew_ and recv_vars:
                    grew_ = False
                    for a_ in walk_no_nested(lin.node):
                        if isinstance(a_, ast.Assign) and isinstance(a_.value, ast.Name) and a_.value.id in recv_vars and len(a_.targets) == 1 \
                                and isinstance(a_.targets[0], ast.Name) and a_.targets[0].id not in recv_vars:
                            recv_vars.add(a_.targets[0].id)
                            grew_ = True

                def eof_fact(fact, recv_vars=recv_vars):
                    return any(establishes_empty(fact, rv) for rv in recv_vars)

                if recv_var and ((s.kind == "fact" and eof_fact(s)) or cfgl.guarded(x, eof_fact, exc=True)):
                    ctx.notice("M4", "line reader leaves its loop when recv returns b'' (end of stream) and yields an empty line; "
                                     "outside the property's quantifier")
                    continue
                bad.append((x, s))
        if bad:
            x, s = bad[0]
            ctx.violation("M4", lin, "exit-without-delimiter", "the line reader can leave its receive loop without having found the "
                          "delimiter (at %s)" % (norm(x.ast)[:50] if x.ast is not None else x), node=x.ast or c,
                          witness="a status line delivered in two segments is returned after the first one")
        else:
            ctx.holds("M4", "%s: loop exits only on delimiter found / Error" % lin.qualname)
        # timeout -> Error
        conv = False
        for h in ast.walk(lin.node):
            if isinstance(h, ast.ExceptHandler) and h.type is not None and "timeout" in norm(h.type):
                if any(isinstance(z, ast.Raise) and raise_name(z) == "Error" for z in ast.walk(h)):
                    conv = True
        if conv:
            ctx.holds("M4", "%s: timeout converted to Error" % lin.qualname)
        else:
            ctx.violation("M4", lin, "timeout-not-error", "a read time-out in the line reader is not reported as Error", node=c)
    check_split(ctx, R, lin)

    # ---- M5 literal sizes ---------------------------------------------------------
    ctx.rule("M5", "every block-reader call passes the size announced on the wire (digits-only pattern group), unchanged or + len(CRLF)")
    sizepat = None
    for a, (pat, flags, n_) in R.regex_attrs.items():
        if isinstance(pat, bytes) and pat.startswith(rb"\{"):
            sizepat = (a, pat, flags)
    if sizepat is None:
        raise AnalysisError("M5", "literal size pattern ({n}) not found among the compiled regex attributes")
    p = rx.Pattern(sizepat[1], sizepat[2])
    gmask = group_byteset(p, 1)
    if gmask is None or gmask & ~rx._DIGIT or 1 in rx.nullable_groups(p):
        ctx.violation("M5", "Client.__init__", "size-group-not-digits", "group 1 of the size pattern %r is not a non-empty digit string"
                      % sizepat[1], file=R.module.relpath, line=sizepat and R.regex_attrs[sizepat[0]][2].lineno)
    else:
        ctx.holds("M5", "size pattern %r: group 1 is digits only" % sizepat[1])
    calls = []
    for name, f in R.methods.items():
        for c in self_calls(f, blk.name):
            calls.append((f, c))
    ctx.need("M5", "block-reader call sites", len(calls), 2)
    def crlf_len(f, a):
        k = const_value(ctx.program, f, a) if a is not None else TOP
        if k is TOP and isinstance(a, ast.Call) and call_name(a) == "len" and a.args:
            kv = const_value(ctx.program, f, a.args[0])
            k = len(kv) if kv is not TOP and kv == b"\r\n" else TOP
        return k == 2

    def follows_exact_literal_read(f, c):
        # `text = read_block(n)` immediately followed by `read_block(len(CRLF))`: n + 2 octets, read in two steps
        st = stmt_of(c)
        par = getattr(st, "_parent", None)
        for fld in ("body", "orelse", "finalbody"):
            lst = getattr(par, fld, None)
            if isinstance(lst, list) and st in lst and lst.index(st) > 0:
                prev = lst[lst.index(st) - 1]
                for c2 in ast.walk(prev):
                    if isinstance(c2, ast.Call) and any(c2 is x for _, x in calls) and c2.args and _is_size_int(ctx, R, f, c2.args[0], sizepat[0]):
                        return True
        return False
    for f, c in calls:
        a = c.args[0] if c.args else None
        verdict = size_arg_ok(ctx, R, f, a, sizepat[0])
        if verdict is not True and crlf_len(f, a) and follows_exact_literal_read(f, c):
            ctx.holds("M5", "%s: %s reads the CRLF that follows the literal read just before" % (f.qualname, norm(c)))
            continue
        if verdict is True:
            ctx.holds("M5", "%s: %s" % (f.qualname, norm(c)))
        else:
            ctx.violation("M5", f, "size-altered:%s" % norm(a), "the block reader is called with %s, which is not the announced literal "
                          "size (%s)" % (norm(a), verdict), node=c,
                          witness="a literal of n octets is consumed as a different number of octets; the following reply is misparsed")


def m1(ctx, R):
    blk, lin = R.block_reader, R.line_reader
    # ---- M1 ------------------------------------------------------------------
    ctx.rule("M1", "who-may-call recv on the client socket = the line reader and the block reader")
    ctl = ast.parse("def peek(self):\n    return self.sock.recv(1)\n").body[0]
    if not attr_calls(ctl, "recv"):
        raise AnalysisError("M1", "positive control failed: recv finder does not match a synthetic caller")
    for name, cs in R.recv_sites.items():
        for c in cs:
            if name in (blk.name, lin.name):
                ctx.holds("M1", "%s: %s" % (R.methods[name].qualname, norm(c)))
            else:
                ctx.violation("M1", R.methods[name], "foreign-recv", "socket read outside the two reader functions: bytes are "
                              "consumed behind the buffer's back", node=c,
                              witness="a reply split so that this read sees part of it desynchronises every later reply")
    for f, c in R.foreign_recv:
        ctx.violation("M1", f, "foreign-recv", "socket read outside the Client readers", node=c)
    ctx.need("M1", "recv call sites", sum(len(v) for v in R.recv_sites.values()), 2)



def is_buffer_reset(ctx, R, f, st):
    """st empties the read buffer: `buf = b""` / `bytes()` / `bytearray()`, `del buf[:]`, `buf.clear()`."""
    def is_buf(e):
        return isinstance(e, ast.Attribute) and mangle(R.cls.name, e.attr) == R.buffer_attr
    if isinstance(st, ast.Assign) and any(is_buf(t) for t in st.targets):
        v = const_value(ctx.program, f, st.value)
        if v is not TOP and v in (b"", "", None):
            return True
        return isinstance(st.value, ast.Call) and isinstance(st.value.func, ast.Name) and st.value.func.id in ("bytes", "bytearray") and not st.value.args
    if isinstance(st, ast.Delete):
        return all(isinstance(t, ast.Subscript) and is_buf(t.value) and isinstance(t.slice, ast.Slice) and t.slice.lower is None
                   and t.slice.upper is None for t in st.targets)
    if isinstance(st, ast.Expr) and isinstance(st.value, ast.Call) and isinstance(st.value.func, ast.Attribute) and st.value.func.attr == "clear":
        return is_buf(st.value.func.value)
    return False


def m2(ctx, R):
    blk, lin = R.block_reader, R.line_reader
    # ---- M2 ------------------------------------------------------------------
    ctx.rule("M2", "who-may-read/write the read buffer = the two readers and __init__ (empty-constant resets allowed where the socket is replaced)")
    writes = attr_writes(ctx.program, R.buffer_attr, modules=["managesieve"])
    reads = attr_reads(ctx.program, R.buffer_attr, modules=["managesieve"])
    owners = {blk.name, lin.name, "__init__"}
    sock_replacers = {n for n, f in R.methods.items() if any(
        isinstance(x, ast.Attribute) and isinstance(x.ctx, ast.Store) and x.attr == R.sock_attr for x in ast.walk(f.node))
        or attr_calls(f.node, "close")}
    n = 0
    for f, node, kind, text in writes:
        n += 1
        if f.cls is R.cls and f.name in owners:
            ctx.holds("M2", "%s writes %s" % (f.qualname, text))
            continue
        st = stmt_of(node)
        v = const_value(ctx.program, f, st.value) if isinstance(st, ast.Assign) else TOP
        if f.cls is R.cls and f.name in sock_replacers and is_buffer_reset(ctx, R, f, st):
            ctx.holds("M2", "%s resets the buffer where the socket is replaced/closed" % f.qualname)
            continue
        ctx.violation("M2", f, "foreign-buffer-write", "the read buffer is modified outside the reader functions: %s" % norm(st),
                      node=node)
    for f, node in reads:
        n += 1
        if f.cls is R.cls and f.name in owners:
            continue
        if f.cls is R.cls and f.name in sock_replacers and is_buffer_reset(ctx, R, f, stmt_of(node)):
            continue  # part of `del buf[:]` / `buf.clear()`
        ctx.violation("M2", f, "foreign-buffer-read", "the read buffer is read outside the reader functions", node=node)
    ctx.need("M2", "buffer accesses", n, 5)
    ctx.holds("M2", "%d buffer accesses, all in %s" % (n, sorted(owners)))


def group_byteset(p, gid):
    from re import _constants as C

    def find(sub):
        for op, av in sub:
            if op is C.SUBPATTERN:
                if av[0] == gid:
                    return av[3]
                r = find(av[3])
                if r is not None:
                    return r
            elif op is C.BRANCH:
                for alt in av[1]:
                    r = find(alt)
                    if r is not None:
                        return r
            elif op in (C.MAX_REPEAT, C.MIN_REPEAT):
                r = find(av[2])
                if r is not None:
                    return r
        return None

    g = find(p.tree)
    if g is None:
        return None
    sub = rx._subpattern(p, g)
    if rx.accepts_empty(sub):
        return None
    return rx.byteset(sub)


def _is_size_int(ctx, R, f, e, size_attr):
    """e == int(m.group(1)) where m is the result of the size pattern's match"""
    if not (isinstance(e, ast.Call) and isinstance(e.func, ast.Name) and e.func.id == "int" and len(e.args) == 1):
        return False
    g = e.args[0]
    if not (isinstance(g, ast.Call) and isinstance(g.func, ast.Attribute) and g.func.attr == "group" and g.args
            and isinstance(g.args[0], ast.Constant) and g.args[0].value == 1 and isinstance(g.func.value, ast.Name)):
        return False
    mvar = g.func.value.id
    # the reaching definitions of mvar visible before e: nearest preceding assignment in the function
    best = None
    for n in walk_no_nested(f.node):
        if isinstance(n, ast.Assign) and any(isinstance(t, ast.Name) and t.id == mvar for t in n.targets) \
                and n.lineno <= e.lineno:
            if best is None or n.lineno > best.lineno:
                best = n
    if best is None or not isinstance(best.value, ast.Call) or not isinstance(best.value.func, ast.Attribute):
        return False
    if best.value.func.attr not in ("match", "fullmatch"):
        return False
    pr = R.pattern_of(best.value.func.value, f)
    return bool(pr and pr[0] == size_attr)


def size_arg_ok(ctx, R, f, a, size_attr):
    if a is None:
        return "no argument"
    # inst.value of a caught Literal
    if isinstance(a, ast.Attribute) and isinstance(a.value, ast.Name):
        for h in ast.walk(f.node):
            if isinstance(h, ast.ExceptHandler) and h.name == a.value.id and h.type is not None and contains(h, a):
                exc = norm(h.type)
                c = ctx.program.cls(exc)
                if c is None:
                    return "exception class %s unknown" % exc
                # constructor stores its argument under that attribute
                init = c.methods.get("__init__")
                stored = None
                if init is not None:
                    for n in ast.walk(init.node):
                        if isinstance(n, ast.Assign) and isinstance(n.targets[0], ast.Attribute) \
                                and n.targets[0].attr == a.attr and isinstance(n.value, ast.Name):
                            stored = n.value.id
                if stored is None or stored not in init.params:
                    return "%s.%s is not the constructor argument" % (exc, a.attr)
                idx = init.params.index(stored) - 1
                # every raise site of that class passes int(m.group(1)) of the size pattern
                nsites = 0
                for g in ctx.program.all_funcs():
                    for r in walk_no_nested(g.node):
                        if isinstance(r, ast.Raise) and raise_name(r) == exc and isinstance(r.exc, ast.Call):
                            nsites += 1
                            if idx >= len(r.exc.args) or not _is_size_int(ctx, R, g, r.exc.args[idx], size_attr):
                                return "raise site %s:%d passes %s" % (g.qualname, r.lineno, norm(r.exc))
                if nsites == 0:
                    return "no raise site of %s" % exc
                return True
        return "not an exception attribute"
    if _is_size_int(ctx, R, f, a, size_attr):
        return True
    if isinstance(a, ast.BinOp) and isinstance(a.op, ast.Add):
        for x, y in ((a.left, a.right), (a.right, a.left)):
            if _is_size_int(ctx, R, f, x, size_attr):
                k = const_value(ctx.program, f, y)
                if k is TOP and isinstance(y, ast.Call) and call_name(y) == "len" and y.args:
                    kv = const_value(ctx.program, f, y.args[0])
                    k = len(kv) if kv is not TOP else TOP
                if k is not TOP and k in (0, 2):
                    return True
                return "constant %s added to the announced size (only the CRLF after an error literal, 2, is accepted)" % norm(y)
    return "expression not derived from the size pattern"


def check_split(ctx, R, lin):
    """The returned line is the buffer prefix before the first delimiter and
    the buffer keeps exactly the rest."""
    buf = R.buffer_attr
    cls = R.cls.name

    def is_buf(e):
        return isinstance(e, ast.Attribute) and mangle(cls, e.attr) == buf

    pos_var = None
    delim = None
    for n in walk_no_nested(lin.node):
        if isinstance(n, ast.Assign) and isinstance(n.value, ast.Call) and isinstance(n.value.func, ast.Attribute) \
                and n.value.func.attr in ("index", "find") and is_buf(n.value.func.value) and n.value.args:
            if isinstance(n.targets[0], ast.Name):
                pos_var = n.targets[0].id
                delim = const_value(ctx.program, lin, n.value.args[0])
                if len(n.value.args) > 1:
                    ctx.violation("M4", lin, "delimiter-search-offset", "the delimiter search does not start at the beginning of the buffer",
                                  node=n)
    if pos_var is None and partition_idiom(ctx, R, lin) is not None:
        st, head, sep, rest = partition_idiom(ctx, R, lin)
        cfgl = ctx.cfg(lin)
        keeps = [x for x in cfgl.stmt_nodes() if isinstance(x.ast, ast.Assign) and any(is_buf(t) for t in x.ast.targets)
                 and not is_buffer_reset(ctx, R, lin, x.ast) and not any(isinstance(y, ast.Call) and call_name(y) == "recv" for y in ast.walk(x.ast))
                 and not (isinstance(x.ast.value, ast.BinOp) and is_buf(x.ast.value.left))]
        found = lambda f_: (lambda e_, pol: (isinstance(e_, ast.Name) and e_.id == sep and pol) or (
            isinstance(e_, ast.Compare) and len(e_.ops) == 1 and isinstance(e_.left, ast.Name) and e_.left.id == sep and (
                (isinstance(e_.ops[0], ast.Eq) and pol and const_value(ctx.program, lin, e_.comparators[0]) == b"\r\n") or
                (isinstance(e_.ops[0], ast.NotEq) and pol and const_value(ctx.program, lin, e_.comparators[0]) == b""))))(*fact_atom(f_))
        okk = bool(keeps)
        for x in keeps:
            if not (isinstance(x.ast.value, ast.Name) and x.ast.value.id == rest):
                ctx.violation("M4", lin, "rest-offset", "after a line is taken the buffer is set to %s, not to what follows the delimiter (%s)"
                              % (norm(x.ast.value)[:40], rest), node=x.ast, witness="every following line starts with a stray byte or loses one")
                okk = False
            elif not cfgl.guarded(x, found, exc=True):
                ctx.violation("M4", lin, "rest-unguarded", "the buffer is replaced by the part after the delimiter without testing that a delimiter "
                              "was found (%s): an incomplete line is dropped from the buffer" % sep, node=x.ast,
                              witness="`OK \"do` + `ne\"\\r\\n`: the first segment is thrown away")
                okk = False
        # the line handed back is the head
        outs = [r_ for r_ in walk_no_nested(lin.node) if isinstance(r_, ast.Return) and r_.value is not None]
        line_vars = {head}
        for a_ in walk_no_nested(lin.node):
            if isinstance(a_, ast.Assign) and isinstance(a_.value, ast.Name) and a_.value.id == head and isinstance(a_.targets[0], ast.Name):
                line_vars.add(a_.targets[0].id)
        for a_ in walk_no_nested(lin.node):
            if isinstance(a_, ast.Assign) and isinstance(a_.targets[0], ast.Name) and a_.targets[0].id in line_vars - {head} \
                    and isinstance(a_.value, ast.Name) and a_.value.id in (sep, rest):
                ctx.violation("M4", lin, "prefix-wrong", "the line handed back is %s, not the part before the delimiter" % a_.value.id, node=a_)
                okk = False
        if not any(isinstance(y, ast.Name) and y.id in line_vars for r_ in outs for y in ast.walk(r_.value)):
            ctx.violation("M4", lin, "prefix-wrong", "the part of the buffer before the delimiter (%s) is not what the line reader returns" % head,
                          node=st)
            okk = False
        if okk:
            ctx.holds("M4", "%s: (line, found, rest) = buffer.partition(CRLF); the buffer keeps `rest` only when `found`" % lin.qualname)
        return
    if pos_var is None:
        # partition / split idioms
        for n in walk_no_nested(lin.node):
            if isinstance(n, ast.Call) and isinstance(n.func, ast.Attribute) and n.func.attr in ("partition", "split") \
                    and is_buf(n.func.value):
                d = const_value(ctx.program, lin, n.args[0]) if n.args else TOP
                if d == b"\r\n" and (n.func.attr == "partition" or (len(n.args) > 1 and const_value(ctx.program, lin, n.args[1]) == 1)):
                    ctx.holds("M4", "%s: buffer split at the first delimiter by %s" % (lin.qualname, n.func.attr))
                    return
        raise AnalysisError("M4", "line reader: delimiter search idiom not recognised")
    if delim != b"\r\n":
        ctx.violation("M4", lin, "delimiter-not-crlf", "the line delimiter is %r, not CRLF" % (delim,), node=lin.node)
        return
    got_prefix = got_rest = False
    partial = None

    def later_cut(n):
        # another assignment cutting the buffer follows in the same block
        return any(isinstance(x, ast.Assign) and x.lineno > n.lineno and any(is_buf(t) for t in x.targets) and isinstance(x.value, ast.Subscript)
                   and is_buf(x.value.value) for x in walk_no_nested(lin.node))
    ordered = sorted((x for x in walk_no_nested(lin.node) if hasattr(x, "lineno")), key=lambda x: x.lineno)
    for n in ordered:
        # the rest kept by deleting the prefix in place: del buffer[:pos + len(delimiter)]
        if isinstance(n, ast.Delete):
            for t in n.targets:
                if isinstance(t, ast.Subscript) and is_buf(t.value) and isinstance(t.slice, ast.Slice) and t.slice.lower is None \
                        and t.slice.upper is not None and t.slice.step is None:
                    k = offset_from(ctx, lin, t.slice.upper, pos_var)
                    if k == len(delim):
                        got_rest = True
                    else:
                        ctx.violation("M4", lin, "rest-offset", "after a line is taken the buffer loses its first %s bytes, not position + %d"
                                      % (norm(t.slice.upper), len(delim)), node=n,
                                      witness="every following line starts with a stray byte or loses one")
        val = n.value if isinstance(n, ast.Assign) else None
        if isinstance(val, ast.Call) and isinstance(val.func, ast.Name) and val.func.id in ("bytes", "bytearray") and len(val.args) == 1 \
                and not val.keywords:
            val = val.args[0]  # a copy of the slice
        if isinstance(n, ast.Assign) and isinstance(val, ast.Subscript) and is_buf(val.value) \
                and isinstance(val.slice, ast.Slice):
            sl = val.slice
            if sl.lower is None and isinstance(sl.upper, ast.Name) and sl.upper.id == pos_var and sl.step is None:
                got_prefix = True
            elif sl.upper is None and sl.lower is not None and sl.step is None and any(is_buf(t) for t in n.targets):
                k = offset_from(ctx, lin, sl.lower, pos_var)
                if k is None and partial is not None:
                    # a second cut right after the first: buffer = buffer[pos:] ... buffer = buffer[len(CRLF):]
                    c2 = const_value(ctx.program, lin, sl.lower)
                    if c2 is TOP and isinstance(sl.lower, ast.Call) and call_name(sl.lower) == "len" and sl.lower.args:
                        kv = const_value(ctx.program, lin, sl.lower.args[0])
                        c2 = len(kv) if kv is not TOP else TOP
                    if isinstance(c2, int):
                        k = partial + c2
                        partial = None
                if k == len(delim):
                    got_rest = True
                elif k is not None and 0 <= k < len(delim) and partial is None and later_cut(n):
                    partial = k
                else:
                    ctx.violation("M4", lin, "rest-offset", "after a line is taken the buffer keeps bytes from offset %s, not from "
                                  "position + %d" % (norm(sl.lower), len(delim)), node=n,
                                  witness="every following line starts with a stray byte or loses one")
    if got_prefix and got_rest:
        ctx.holds("M4", "%s: line = buffer[:pos], buffer = buffer[pos+%d:]" % (lin.qualname, len(delim)))
    elif not any(f.rule == "M4" and f.key == "rest-offset" for f in ctx.findings):
        raise AnalysisError("M4", "line reader: prefix/rest slicing idiom not recognised")


def partition_idiom(ctx, R, lin):
    """`head, sep, rest = <buffer>.partition(CRLF)` in the line reader -> (statement, head, sep, rest) or None."""
    for n in walk_no_nested(lin.node):
        if isinstance(n, ast.Assign) and len(n.targets) == 1 and isinstance(n.targets[0], ast.Tuple) and len(n.targets[0].elts) == 3 \
                and all(isinstance(t, ast.Name) for t in n.targets[0].elts) and isinstance(n.value, ast.Call) \
                and isinstance(n.value.func, ast.Attribute) and n.value.func.attr == "partition" and len(n.value.args) == 1 \
                and isinstance(n.value.func.value, ast.Attribute) and mangle(R.cls.name, n.value.func.value.attr) == R.buffer_attr \
                and const_value(ctx.program, lin, n.value.args[0]) == b"\r\n":
            return (n,) + tuple(t.id for t in n.targets[0].elts)
    return None


def offset_from(ctx, f, e, var):
    """e == var + K  -> K (int) else None"""
    if isinstance(e, ast.Name) and e.id == var:
        return 0
    if isinstance(e, ast.BinOp) and isinstance(e.op, ast.Add):
        for x, y in ((e.left, e.right), (e.right, e.left)):
            if isinstance(x, ast.Name) and x.id == var:
                k = const_value(ctx.program, f, y)
                if k is TOP and isinstance(y, ast.Call) and call_name(y) == "len" and y.args:
                    kv = const_value(ctx.program, f, y.args[0])
                    return len(kv) if kv is not TOP else None
                return k if k is not TOP else None
    return None


# ---- affine invariant of the block reader ----------------------------------------------
def _aff_add(a, b, k=1):
    out = dict(a)
    for s_, c in b.items():
        out[s_] = out.get(s_, 0) + k * c
    return {s_: c for s_, c in out.items() if c != 0}


def _aff(expr, env):
    """affine form of expr over symbols; opaque sub-expressions become symbols."""
    if isinstance(expr, ast.Constant) and isinstance(expr.value, int) and not isinstance(expr.value, bool):
        return {1: expr.value} if expr.value else {}
    if isinstance(expr, ast.Constant) and isinstance(expr.value, (bytes, str)):
        return None
    if isinstance(expr, ast.Name):
        return dict(env.get(expr.id, {expr.id: 1}))
    if isinstance(expr, ast.Call) and call_name(expr) == "len" and len(expr.args) == 1:
        k = "len(%s)" % norm(expr.args[0])
        return dict(env.get(k, {k: 1}))
    if isinstance(expr, ast.BinOp) and isinstance(expr.op, (ast.Add, ast.Sub)):
        l, r = _aff(expr.left, env), _aff(expr.right, env)
        if l is None or r is None:
            return None
        return _aff_add(l, r, 1 if isinstance(expr.op, ast.Add) else -1)
    return {"<%s>" % norm(expr)[:30]: 1}


def _run_prelude(stmts, env):
    """abstractly execute straight-line statements (with if/else forks) -> list of envs"""
    envs = [env]
    for st in stmts:
        nxt = []
        for e in envs:
            if isinstance(st, ast.Assign) and len(st.targets) == 1 and isinstance(st.targets[0], ast.Name):
                e2 = dict(e)
                v = st.value
                name = st.targets[0].id
                if isinstance(v, ast.Constant) and isinstance(v.value, (bytes, str)):
                    e2["len(%s)" % name] = {1: len(v.value)} if v.value else {}
                    e2[name] = {"<const>": 1}
                elif isinstance(v, ast.Subscript) and isinstance(v.slice, ast.Slice) and v.slice.lower is None and v.slice.upper is not None:
                    e2["len(%s)" % name] = _aff(v.slice.upper, e)  # prefix slice of length <upper> (when the source is long enough)
                    e2[name] = {"<slice>": 1}
                elif isinstance(v, ast.IfExp):
                    e2[name] = {name: 1}  # opaque: a fresh symbol named after the variable
                else:
                    a = _aff(v, e)
                    e2[name] = a if a is not None else {name: 1}
                nxt.append(e2)
            elif isinstance(st, ast.AugAssign) and isinstance(st.target, ast.Name) and isinstance(st.op, (ast.Add, ast.Sub)):
                e2 = dict(e)
                name = st.target.id
                cur = e.get(name, {name: 1})
                a = _aff(st.value, e)
                if a is None:
                    # bytes concatenation: buf += chunk
                    k = "len(%s)" % name
                    if isinstance(st.value, ast.Name):
                        e2[k] = _aff_add(e.get(k, {k: 1}), e.get("len(%s)" % st.value.id, {"len(%s)" % st.value.id: 1}))
                else:
                    if "len(%s)" % name in e and isinstance(st.value, ast.Name) and st.value.id not in e:
                        k = "len(%s)" % name
                        e2[k] = _aff_add(e.get(k), {"len(%s)" % st.value.id: 1})
                    else:
                        e2[name] = _aff_add(cur, a, 1 if isinstance(st.op, ast.Add) else -1)
                nxt.append(e2)
            elif isinstance(st, ast.If):
                nxt.extend(_run_prelude(st.body, dict(e)))
                nxt.extend(_run_prelude(st.orelse, dict(e)) if st.orelse else [dict(e)])
            else:
                nxt.append(e)
        envs = nxt
    return envs


def block_invariant(ctx, blk, size_param):
    """True / None (no loop) / description of the broken invariant."""
    loops = [lp for lp in blk.node.body if isinstance(lp, ast.While)]
    if not loops:
        inner = [lp for lp in walk_no_nested(blk.node) if isinstance(lp, ast.While)]
        if not inner:
            return None
        return True  # loop nested in another construct: shape handled by the other M3 clauses only
    lp = loops[0]
    pre = blk.node.body[:blk.node.body.index(lp)]
    N = {"N": 1}
    envs = _run_prelude(pre, {size_param: dict(N)})
    # the accumulator: the name returned
    rets = [r.value for r in walk_no_nested(blk.node) if isinstance(r, ast.Return) and isinstance(r.value, ast.Name)]
    if not rets:
        return True
    acc = rets[-1].id
    t = lp.test
    for e in envs:
        la = e.get("len(%s)" % acc)
        if la is None:
            return True  # accumulator length unknown: no verdict from this clause
        if isinstance(t, ast.Name) or (isinstance(t, ast.Compare) and isinstance(t.left, ast.Name) and len(t.ops) == 1
                                        and isinstance(t.ops[0], (ast.Gt, ast.NotEq)) and isinstance(t.comparators[0], ast.Constant)
                                        and t.comparators[0].value == 0):
            rem = _aff(t if isinstance(t, ast.Name) else t.left, e)
        elif isinstance(t, ast.Compare) and len(t.ops) == 1 and isinstance(t.ops[0], ast.Lt) and isinstance(t.left, ast.Call) \
                and call_name(t.left) == "len" and norm(t.left.args[0]) == acc:
            target = _aff(t.comparators[0], e)
            if target is None:
                return True
            rem = _aff_add(target, la, -1)
        else:
            return True
        total = _aff_add(la, rem)
        if total != N:
            def show(a):
                return " + ".join("%s%s" % ("" if c == 1 else "%d*" % c, k if k != 1 else "") if k != 1 else str(c) for k, c in a.items()) or "0"
            return "on a path into the loop, bytes already taken (%s) + bytes still requested (%s) = %s, not the announced size N" % (
                show(la), show(rem), show(total))
    return True


# ================================================================================ M7: the readers evaluated over segmentations
_PROTO_LIKE = b'a\r\n\r\nOK "x"\r\n{2}\r\nb\r\n'
STREAMS = [
    [b"OK\r\n"],
    [b'NO (QUOTA/MAXSIZE) "too big"\r\n'],
    [b'"a"\r\n"b" ACTIVE\r\nOK "Listed"\r\n'],
    [b"{14}\r\nkeep;\r\nstop;\r\n\r\nOK\r\n"],
    [b'{3}\r\nabc\r\n"x"\r\nOK\r\n'],
    [b"NO {5}\r\nhello\r\n"],
    [b'"a"\r\nOK\r\n', b"OK\r\n"],                      # two replies back to back: the second must be untouched by the first
    [b"{6}\r\nab\r\ncd\r\nOK\r\n", b'"n"\r\nOK\r\n'],
    [b"NO {5}\r\nhello\r\n", b"OK\r\n"],
    [b"OK (WARNINGS) {5}\r\nhello\r\n", b'"x"\r\nOK\r\n'],        # the text of an OK reply sent as a literal, then the next reply
    [b'NO "Quota d\xc3\xa9pass\xc3\xa9"\r\n', b"OK\r\n"],
    [b'"caf\xc3\xa9"\r\n"\xe2\x82\xac" ACTIVE\r\nOK "\xc3\xa9t\xc3\xa9"\r\n'],   # multi-byte characters: a cut may fall inside one
    [b"{8}\r\n# \xc3\xa9\xc3\xa0\r\n\r\nOK\r\n"],
    # a literal whose content looks like protocol (a blank line, a status line, a size line): only its announced size says where it ends
    [b"{%d}\r\n" % len(_PROTO_LIKE) + _PROTO_LIKE + b"\r\nOK\r\n"],
    [b'BYE "too many connections"\r\n', b"OK\r\n"],    # the BYE line is consumed like any other: what follows it is not BYE again
    [b'"' + b"n" * 300 + b'"\r\nOK\r\n'],                # RFC 5804: names of up to 512 octets must work
    [b"{0}\r\n\r\nOK\r\n", b'"n"\r\nOK\r\n'],         # an empty value (an empty script) sent as a literal of no octets
    [b"BYE (TRYLATER) {4}\r\nbusy\r\n"],                # the text of a BYE sent as a literal: still the client's Error, wherever it is cut
]


# what each reply of STREAMS says (code, text, content) - written from RFC 5804 and fixed here, so that a reader which mis-reads even
# the unsegmented delivery is reported too
EXPECTED = [
    [(b"OK", None, b"")],
    [(b"NO", b'(QUOTA/MAXSIZE) "too big"', b"")],
    [(b"OK", b'"Listed"', b'"a"\r\n"b" ACTIVE\r\n')],
    [(b"OK", None, b"keep;\r\nstop;\r\n")],
    [(b"OK", None, b'abc\r\n"x"\r\n')],
    [(b"NO", b"{5}", b"")],
    [(b"OK", None, b'"a"\r\n'), (b"OK", None, b"")],
    [(b"OK", None, b"ab\r\ncd\r\n"), (b"OK", None, b'"n"\r\n')],
    [(b"NO", b"{5}", b""), (b"OK", None, b"")],
    [(b"OK", b"(WARNINGS) {5}", b""), (b"OK", None, b'"x"\r\n')],
    [(b"NO", b'"Quota d\xc3\xa9pass\xc3\xa9"', b""), (b"OK", None, b"")],
    [(b"OK", b'"\xc3\xa9t\xc3\xa9"', b'"caf\xc3\xa9"\r\n"\xe2\x82\xac" ACTIVE\r\n')],
    [(b"OK", None, b"# \xc3\xa9\xc3\xa0\r\n")],
    [(b"OK", None, _PROTO_LIKE)],
    [("raise", "Error"), (b"OK", None, b"")],
    [(b"OK", None, b'"' + b"n" * 300 + b'"\r\n')],
    [(b"OK", None, b"\r\n"), (b"OK", None, b'"n"\r\n')],   # (the line end after a value that does not end with CRLF is part of the data)
    [("raise", "Error")],
]


def reader_eval(ctx, R, thorough=False):
    """M7 by evaluation: the response assembler (with the line reader, the block reader and the error parser it calls) interpreted over
    sample reply streams, each delivered under many segmentations (one segment; a cut at every position; one octet per segment; cuts in
    pairs).  What the assembler returns for every reply of the stream, and the client's error fields, must be the same under every
    segmentation - the statement of the property, on samples.  -> ("ok", n) | ("bad", what) | None (cannot follow the readers)."""
    import re
    from sa import fd
    from sa.util import module_resolver
    asm = R.assembler
    if asm is None:
        return None
    sn = asm.params[0]
    base = {}
    for a, (pat, flags, _n) in R.regex_attrs.items():
        if isinstance(pat, (bytes, str)) and not a.startswith("<re:"):
            try:
                cp = re.compile(pat, flags)
            except re.error:
                return None
            short = a[len("_" + R.cls.name):] if a.startswith("_" + R.cls.name + "__") else a
            for nm in {a, short}:
                base["%s.%s" % (sn, nm)] = fd.Const(cp)
    ev = Evaluator(ctx.program, R.module, R.cls)
    for a_, v_ in R.cls.attrs.items():
        cv_ = ev.eval(v_)
        if cv_ is not TOP and isinstance(cv_, (int, str, bytes, bool)):
            base["%s.%s" % (sn, a_)] = fd.Const(cv_)
    init = R.methods.get("__init__")
    if init is not None:
        for st_ in walk_no_nested(init.node):
            if isinstance(st_, ast.Assign) and len(st_.targets) == 1 and isinstance(st_.targets[0], ast.Attribute) \
                    and isinstance(st_.targets[0].value, ast.Name) and st_.targets[0].value.id == init.params[0]:
                v = const_value(ctx.program, init, st_.value)
                if v is not TOP and isinstance(v, (int, str, bytes, bool, type(None))):
                    base.setdefault("%s.%s" % (sn, st_.targets[0].attr), fd.Const(v))
                elif isinstance(st_.value, ast.Call) and isinstance(st_.value.func, ast.Name) and st_.value.func.id in ("bytearray", "bytes") \
                        and not st_.value.args:
                    base.setdefault("%s.%s" % (sn, st_.targets[0].attr), fd.Const(bytearray() if st_.value.func.id == "bytearray" else b""))
    base["%s.%s" % (sn, unmangled(R, R.buffer_attr))] = base.get("%s.%s" % (sn, unmangled(R, R.buffer_attr)), fd.Const(b""))

    def exc_fields(name, args):
        c = ctx.program.cls(name)
        if c is None:
            return None
        ini = c.methods.get("__init__")
        if ini is None:
            return {"args": tuple(args)}
        out = {}
        for st_ in walk_no_nested(ini.node):
            if isinstance(st_, ast.Assign) and isinstance(st_.targets[0], ast.Attribute) and isinstance(st_.value, ast.Name) \
                    and st_.value.id in ini.params[1:]:
                i = ini.params[1:].index(st_.value.id)
                if i < len(args):
                    a = args[i]
                    out[st_.targets[0].attr] = a.v if isinstance(a, fd.Const) else a
        return out

    def oracle(interp, e, name, recv, args, kw, st):
        if isinstance(recv, fd.Const) and recv.v is None and name in ("recv", "close", "sendall", "settimeout"):
            return [fd.Exc("AttributeError", e)]  # the socket attribute was set to None (the connection was released) and is used again
        if isinstance(recv, fd.Const) and isinstance(recv.v, fd.Rec) and recv.v.cls == "socket" and name in ("close", "settimeout", "shutdown"):
            return [(fd.Const(None), None)]
        if name == "recv" and args and isinstance(args[0], fd.Const) and isinstance(args[0].v, int):
            ch = st.env.get("@chunks")
            ci = st.env.get("@ci")
            if not isinstance(ch, fd.Const) or not isinstance(ci, fd.Const):
                return None
            chunks, i = ch.v, ci.v
            if i >= len(chunks):
                return [fd.Exc("timeout", e)]
            out, rest = chunks[i][:args[0].v], chunks[i][args[0].v:]
            if rest:
                st.env["@chunks"] = fd.Const(chunks[:i] + (rest,) + chunks[i + 1:])
            else:
                st.env["@ci"] = fd.Const(i + 1)
            return [(fd.Const(out), None)]
        if name and name.startswith("self.") and ("print" in name or "debug" in name.lower() or "log" in name.lower()):
            return [(fd.Const(None), None)]
        if name and name.startswith("self."):
            m = R.methods.get(name[5:]) or R.methods.get(mangle(R.cls.name, name[5:]))
            if m is not None and m.node is not interp.f:
                return fd.Inline(m)
        fn = e.func
        if isinstance(fn, ast.Name) and fn.id in R.module.funcs:
            return fd.Inline(R.module.funcs[fn.id])
        if name == "len" and args and isinstance(args[0], fd.Const) and isinstance(args[0].v, (bytes, bytearray, str, list, tuple)):
            return [(fd.Const(len(args[0].v)), None)]
        return None

    rs_key = next((k for k in base if k.endswith(".read_size")), None)

    def deliver(stream, cuts, read_size=None):
        whole = b"".join(stream)
        pts = [0] + sorted(set(c for c in cuts if 0 < c < len(whole))) + [len(whole)]
        chunks = tuple(whole[a:b] for a, b in zip(pts, pts[1:]) if b > a)
        env = {k: (fd.Const(bytearray(v.v)) if isinstance(v, fd.Const) and isinstance(v.v, bytearray) else v) for k, v in base.items()}
        if read_size is not None and rs_key is not None:
            env[rs_key] = fd.Const(read_size)  # a small receive size stands for replies longer than the real one
        env["@chunks"] = fd.Const(chunks)
        env["@ci"] = fd.Const(0)
        if isinstance(env.get("%s.sock" % sn), fd.Const) and env["%s.sock" % sn].v is None:
            env["%s.sock" % sn] = fd.Const(fd.Rec("socket"))  # a connected client
        results = []
        for _reply in stream:
            it = fd.Interp(asm.node, R.cls.name, oracle, resolve=module_resolver(ctx.program, R.module), loop_unroll=3 * len(whole) + 12,
                           max_depth=6, max_paths=40)
            it.exc_fields = exc_fields
            try:
                ps = it.run(dict(env))
            except (fd.TooManyPaths, RecursionError):
                return None
            if len(ps) > 1:
                # a fork on something the scenario leaves open (a debug flag): the same outcome and the same client state on every path
                def sig(q):
                    return (q.kind, repr(q.value), sorted((k, repr(x)) for k, x in q.env.items() if k.startswith(sn + ".") or k.startswith("@")))
                if any(sig(q) != sig(ps[0]) for q in ps[1:]):
                    return None
            elif len(ps) != 1:
                return None
            p = ps[0]
            if p.kind == "raise":
                if it.unknowns and p.value not in ("Error", "UnicodeDecodeError"):
                    return None  # an exception after a call the interpreter could not follow proves nothing
                results.append(("raise", p.value))
                if p.value == "Error" and _reply is not stream[-1] and stream[0].startswith(b"BYE"):
                    env = {k: x for k, x in p.env.items() if k.startswith(sn + ".") or k.startswith("@")}
                    sk_ = env.get("%s.sock" % sn)
                    if isinstance(sk_, fd.Const) and sk_.v is None:
                        # the client released the connection on BYE: nothing more is read from it
                        results.append("released")
                        break
                    continue
                break
            v = p.value
            v = v.v if isinstance(v, fd.Const) else tuple(x.v if isinstance(x, fd.Const) else None for x in v.items) if isinstance(v, fd.Tup) else None
            if v is None or (isinstance(v, tuple) and any(x is None and False for x in v)):
                return None
            errs = tuple((k[len(sn) + 1:], x.v) for k, x in sorted(p.env.items()) if k.startswith(sn + ".err") and isinstance(x, fd.Const))
            results.append((v, errs))
            env = {k: x for k, x in p.env.items() if k.startswith(sn + ".") or k.startswith("@")}
        return results

    n = 0
    for stream in STREAMS:
        whole = b"".join(stream)
        ref = deliver(stream, [])
        if ref is None:
            return None
        if ctx.__dict__.get("_debug_m7"):
            print("REF", whole, ref)
        want = EXPECTED[STREAMS.index(stream)]
        released = bool(ref) and ref[-1] == "released"
        if released:
            ref = ref[:-1]
            want = want[:len(ref)]  # (a client that drops the connection on BYE reads nothing more from it)
        got_ref = [tuple(bytes(x) if isinstance(x, (bytes, bytearray)) else x for x in r[0]) if isinstance(r[0], tuple) else r for r in ref]
        if whole.startswith(b"{0}\r\n") and got_ref and got_ref[0] == (b"OK", None, b""):
            want = [(b"OK", None, b"")] + want[1:]  # an empty value: with or without the line end that follows it (nothing fixes which)
        if got_ref != want:
            return ("bad", "the reply stream %r, delivered in one segment, is read as %r; it says %r" % (whole, ref, want))
        L = len(whole)
        step = 1 if (thorough or L <= 24) else (2 if L <= 80 else 37)
        schedules = [[c] for c in range(1, L, step)] + [list(range(1, L))] + [[c, c + 1] for c in range(1, L - 1, 3 if L <= 80 else 41)] + [
            [c, L - 2] for c in range(2, L - 3, 5 if L <= 80 else 43)]
        # the stream stops short (the peer went silent): the reply that is cut must end in Error, never in a result
        for short in (L - 1, L - 3):
            if short > 0:
                t_ = deliver([whole[:short]] if len(stream) == 1 else [b"".join(stream[:-1]), stream[-1][:short - len(b"".join(stream[:-1]))]], [])
                if t_ is None:
                    return None
                n += 1
                if released and t_ and t_[-1] == "released" and all(x == ("raise", "Error") for x in t_[:-1]):
                    continue
                if not (t_ and t_[-1] == ("raise", "Error")) or len(t_) != len(stream):
                    return ("bad", "the reply stream %r cut after %d of its %d octets (then silence) is read as %r: the incomplete reply must end in "
                            "Error" % (whole, short, L, t_))
        runs = [(c_, None) for c_ in schedules]
        if rs_key is not None:
            runs += [([], 7), ([], 3), ([L // 2], 5), ([L // 3, 2 * L // 3], 16)]
        for cuts, rsz in runs:
            got = deliver(stream, cuts, rsz)
            if got is None:
                return None
            n += 1
            if released and got and got[-1] == "released":
                got = got[:-1]
            if got != ref:
                pts = sorted(set(cuts))
                shown = [whole[a:b] for a, b in zip([0] + pts, pts + [L])]
                return ("bad", "the reply stream %r delivered as %s%s is read as %r; delivered in one segment it is read as %r"
                        % (whole, shown if len(shown) <= 4 else "%d one-octet segments" % len(shown),
                           " with a receive size of %d" % rsz if rsz else "", got, ref))
    return ("ok", n)


def unmangled(R, attr):
    pre = "_" + R.cls.name
    return attr[len(pre):] if attr.startswith(pre + "__") else attr
