"""G11: the argument interpreter (Command.check_next_arg + iscomplete) decided by evaluation.

The finite-domain interpreter follows check_next_arg call after call on a stand-in command whose slot definitions are modelled on
the repository's own commands (header, fileinto, vacation, hasflag, size, anyof, not), for argument sequences a script can contain
(tags in any order and letter case, repeated tags, tag parameters, wrong types, surplus arguments, extension-bound tags and values with
the extension loaded or not).  After every call the answer (True / False / the exception class) and at the end the recorded
`arguments` / `extra_arguments` and the answer of iscomplete() are compared with what the documented slot format prescribes
(`reference` below: RFC 5228 section 2.6 as sievelib's definitions express it).

Nothing of the repository is executed; when the interpreter cannot follow the code (a call it cannot resolve, more than one path for
a concrete input) the evaluation gives no verdict and the structural G rules decide alone.
"""
import ast
import copy

from sa import fd
from sa.model import AnalysisError, mangle, norm
from sa.util import const_value, module_resolver, TOP

KNOWN_KEYS = {"name", "type", "required", "values", "extra_arg", "extension", "extension_values"}
KNOWN_EXTRA = {"type", "values", "valid_for"}

COMPARATOR = {"name": "comparator", "type": ["tag"], "values": [":comparator"],
              "extra_arg": {"type": "string", "values": ['"i;octet"', '"i;ascii-casemap"']}, "required": False}
ADDRESS_PART = {"name": "address-part", "values": [":localpart", ":domain", ":all"], "type": ["tag"], "required": False}
MATCH_TYPE = {"name": "match-type", "values": [":is", ":contains", ":matches"],
              "extension_values": {":count": "relational", ":value": "relational", ":regex": "regex"},
              "extra_arg": {"type": "string", "values": ['"gt"', '"ge"', '"lt"', '"le"', '"eq"', '"ne"'], "valid_for": [":count", ":value"]},
              "type": ["tag"], "required": False}

DEFS = {
    "header": [COMPARATOR, MATCH_TYPE,
               {"name": "header-names", "type": ["string", "stringlist"], "required": True},
               {"name": "key-list", "type": ["string", "stringlist"], "required": True}],
    "address": [COMPARATOR, ADDRESS_PART, MATCH_TYPE,
                {"name": "header-list", "type": ["string", "stringlist"], "required": True},
                {"name": "key-list", "type": ["string", "stringlist"], "required": True}],
    "fileinto": [{"name": "copy", "type": ["tag"], "values": [":copy"], "required": False, "extension": "copy"},
                 {"name": "create", "type": ["tag"], "values": [":create"], "required": False, "extension": "mailbox"},
                 {"name": "flags", "type": ["tag"], "values": [":flags"], "extra_arg": {"type": ["string", "stringlist"]}, "extension": "imap4flags"},
                 {"name": "mailbox", "type": ["string"], "required": True}],
    "vacation": [{"name": "subject", "type": ["tag"], "values": [":subject"], "extra_arg": {"type": "string"}, "required": False},
                 {"name": "days", "type": ["tag"], "values": [":days"], "extra_arg": {"type": "number"}, "required": False},
                 {"name": "addresses", "type": ["tag"], "values": [":addresses"], "extra_arg": {"type": ["string", "stringlist"]}, "required": False},
                 {"name": "mime", "type": ["tag"], "values": [":mime"], "required": False},
                 {"name": "reason", "type": ["string"], "required": True}],
    "hasflag": [COMPARATOR, MATCH_TYPE,
                {"name": "variable-list", "type": ["string", "stringlist"], "required": False},
                {"name": "list-of-flags", "type": ["string", "stringlist"], "required": True}],
    "size": [{"name": "comparator", "type": ["tag"], "values": [":over", ":under"], "required": True},
             {"name": "limit", "type": ["number"], "required": True}],
    "anyof": [{"name": "tests", "type": ["testlist"], "required": True}],
    "not": [{"name": "test", "type": ["test"], "required": True}],
    "stop": [],
    # a tag whose parameter (a string list) is taken only after one of its spellings (body, RFC 5173)
    "body": [COMPARATOR, MATCH_TYPE,
             {"name": "body-transform", "values": [":raw", ":content", ":text"], "extra_arg": {"type": "stringlist", "valid_for": [":content"]},
              "type": ["tag"], "required": False},
             {"name": "key-list", "type": ["string", "stringlist"], "required": True}],
    # only optional slots (keep, with imap4flags)
    "keep": [{"name": "flags", "type": ["tag"], "values": [":flags"], "extra_arg": {"type": ["string", "stringlist"]}, "extension": "imap4flags"}],
    # an extension-bound tag between two positional slots
    "mixed": [{"name": "first", "type": ["string"], "required": True},
              {"name": "copy", "type": ["tag"], "values": [":copy"], "required": False, "extension": "copy"},
              {"name": "last", "type": ["string", "stringlist"], "required": True}],
    # a tag whose parameter is a string or a list out of a closed set, with upper-case letters in the set
    "folder": [{"name": "kind", "type": ["tag"], "values": [":kind"], "extra_arg": {"type": ["string", "stringlist"], "values": ['"Personal"', '"work"']},
                "required": False},
               {"name": "target", "type": ["string"], "required": True}],
}
VARIABLE = {"anyof"}

S, L, T, N = "string", "stringlist", "tag", "number"

# (definition, [(atype, avalue), ...]) -- what a script may put after the command's name
SEQUENCES = [
    ("header", [(S, '"Subject"'), (S, '"x"')]),
    ("header", [(L, ['"To"', '"Cc"']), (L, ['"a"', '"b"'])]),
    ("header", [(T, ":is"), (S, '"Subject"'), (S, '"x"')]),
    ("header", [(T, ":CONTAINS"), (S, '"Subject"'), (S, '"x"')]),
    ("header", [(T, ":comparator"), (S, '"i;octet"'), (T, ":contains"), (S, '"Subject"'), (S, '"x"')]),
    ("header", [(T, ":contains"), (T, ":comparator"), (S, '"i;ascii-casemap"'), (S, '"Subject"'), (S, '"x"')]),
    ("header", [(T, ":Comparator"), (S, '"i;octet"'), (S, '"Subject"'), (S, '"x"')]),
    ("header", [(T, ":comparator"), (S, '"i;bogus"'), (S, '"Subject"'), (S, '"x"')]),
    ("header", [(T, ":comparator"), (T, ":is"), (S, '"Subject"'), (S, '"x"')]),
    ("header", [(T, ":comparator"), (N, "3"), (S, '"x"')]),
    ("header", [(T, ":count"), (S, '"gt"'), (S, '"Subject"'), (S, '"3"')]),
    ("header", [(T, ":COUNT"), (S, '"gt"'), (S, '"Subject"'), (S, '"3"')]),
    ("header", [(T, ":value"), (S, '"ne"'), (T, ":comparator"), (S, '"i;octet"'), (S, '"Subject"'), (S, '"3"')]),
    ("header", [(T, ":count"), (S, '"zz"'), (S, '"Subject"'), (S, '"3"')]),
    ("header", [(T, ":regex"), (S, '"Subject"'), (S, '"^x"')]),
    ("header", [(T, ":is"), (S, '"gt"'), (S, '"3"')]),
    ("header", [(T, ":count"), (S, '"gt"'), (T, ":is"), (S, '"Subject"'), (S, '"3"')]),
    ("header", [(T, ":is"), (T, ":count"), (S, '"ge"'), (S, '"Subject"'), (S, '"3"')]),
    ("header", [(T, ":bogus"), (S, '"Subject"'), (S, '"x"')]),
    ("header", [(S, '"Subject"'), (T, ":is"), (S, '"x"')]),
    ("header", [(S, '"Subject"'), (S, '"x"'), (S, '"surplus"')]),
    ("header", [(S, '"Subject"'), (N, "3")]),
    ("header", [(N, "3")]),
    ("header", [(S, '"Subject"')]),
    ("header", [(T, ":is")]),
    ("header", []),
    ("address", [(T, ":localpart"), (T, ":is"), (S, '"From"'), (S, '"me"')]),
    ("address", [(T, ":is"), (T, ":DOMAIN"), (T, ":comparator"), (S, '"i;octet"'), (L, ['"From"']), (S, '"x.org"')]),
    ("address", [(T, ":all"), (T, ":localpart"), (S, '"From"'), (S, '"me"')]),
    ("address", [(T, ":localpart"), (S, '"From"'), (T, ":is"), (S, '"me"')]),
    ("fileinto", [(S, '"INBOX"')]),
    ("fileinto", [(T, ":copy"), (S, '"INBOX"')]),
    ("fileinto", [(T, ":COPY"), (S, '"INBOX"')]),
    ("fileinto", [(T, ":create"), (T, ":copy"), (S, '"INBOX"')]),
    ("fileinto", [(T, ":flags"), (S, '"\\\\Seen"'), (S, '"INBOX"')]),
    ("fileinto", [(T, ":flags"), (L, ['"\\\\Seen"', '"\\\\Answered"']), (T, ":copy"), (S, '"INBOX"')]),
    ("fileinto", [(T, ":flags"), (T, ":copy"), (S, '"INBOX"')]),
    ("fileinto", [(T, ":flags"), (N, "1"), (S, '"INBOX"')]),
    ("fileinto", [(S, '"INBOX"'), (T, ":copy")]),
    ("fileinto", [(L, ['"INBOX"'])]),
    ("fileinto", [(T, ":days"), (S, '"INBOX"')]),
    ("vacation", [(S, '"away"')]),
    ("vacation", [(T, ":days"), (N, "7"), (S, '"away"')]),
    ("vacation", [(T, ":subject"), (S, '"Out"'), (T, ":days"), (N, "7"), (T, ":mime"), (S, '"away"')]),
    ("vacation", [(T, ":mime"), (T, ":addresses"), (L, ['"a@b"', '"c@d"']), (S, '"away"')]),
    ("vacation", [(T, ":days"), (S, '"7"'), (S, '"away"')]),
    ("vacation", [(T, ":subject"), (N, "7"), (S, '"away"')]),
    ("vacation", [(T, ":subject"), (S, '"One"'), (T, ":subject"), (S, '"Two"'), (S, '"away"')]),
    ("vacation", [(T, ":days"), (N, "7"), (T, ":DAYS"), (N, "9"), (S, '"away"')]),
    ("vacation", [(T, ":days"), (N, "7"), (S, '"away"'), (S, '"again"')]),
    ("vacation", [(T, ":days"), (N, "7")]),
    ("hasflag", [(S, '"\\\\Seen"')]),
    ("hasflag", [(S, '"var"'), (S, '"\\\\Seen"')]),
    ("hasflag", [(L, ['"v1"', '"v2"']), (L, ['"\\\\Seen"'])]),
    ("hasflag", [(T, ":contains"), (S, '"var"'), (S, '"\\\\Seen"')]),
    ("hasflag", [(T, ":count"), (S, '"ge"'), (T, ":comparator"), (S, '"i;ascii-casemap"'), (S, '"2"')]),
    ("hasflag", [(S, '"a"'), (S, '"b"'), (S, '"c"')]),
    ("hasflag", [(S, '"a"'), (T, ":is"), (S, '"b"')]),
    ("hasflag", [(N, "1")]),
    ("size", [(T, ":over"), (N, "100K")]),
    ("size", [(T, ":UNDER"), (N, "1M")]),
    ("size", [(T, ":above"), (N, "100")]),
    ("size", [(N, "100")]),
    ("size", [(T, ":over"), (S, '"100"')]),
    ("size", [(T, ":over"), (N, "100"), (N, "200")]),
    ("size", [(T, ":over")]),
    ("anyof", [("test", "<test 1>")]),
    ("anyof", [("test", "<test 1>"), ("test", "<test 2>"), ("test", "<test 3>")]),
    ("anyof", [(S, '"x"')]),
    ("anyof", [("test", "<test 1>"), (S, '"x"')]),
    ("anyof", []),
    ("not", [("test", "<test 1>")]),
    ("not", [("test", "<test 1>"), ("test", "<test 2>")]),
    ("not", [(S, '"x"')]),
    ("stop", [(S, '"x"')]),
    ("stop", []),
    ("header", [(T, ":comparator"), (S, '"I;Octet"'), (S, '"Subject"'), (S, '"x"')]),
    ("keep", []),
    ("keep", [(S, '"x"')]),
    ("keep", [(N, "1")]),
    ("keep", [(T, ":bogus")]),
    ("keep", [(T, ":flags"), (S, '"\\\\Seen"')]),
    ("keep", [(T, ":flags"), (L, ['"a"', '"b"']), (S, '"c"')]),
    ("keep", [(T, ":flags"), (S, '"a"'), (T, ":flags"), (S, '"b"')]),
    ("mixed", [(S, '"a"'), (T, ":copy"), (S, '"b"')]),
    ("mixed", [(S, '"a"'), (T, ":COPY"), (L, ['"b"'])]),
    ("mixed", [(S, '"a"'), (S, '"b"')]),
    ("mixed", [(T, ":copy"), (S, '"a"'), (S, '"b"')]),
    ("mixed", [(S, '"a"'), (S, '"b"'), (T, ":copy")]),
    ("folder", [(T, ":kind"), (S, '"Personal"'), (S, '"x"')]),
    ("folder", [(T, ":kind"), (S, '"personal"'), (S, '"x"')]),
    ("folder", [(T, ":kind"), (S, '"WORK"'), (S, '"x"')]),
    ("folder", [(T, ":kind"), (L, ['"work"']), (S, '"x"')]),
    ("folder", [(T, ":kind"), (S, '"work"'), (S, '"x"')]),
    ("body", [(T, ":content"), (L, ['"text"', '"html"']), (T, ":contains"), (S, '"x"')]),
    ("body", [(T, ":content"), (S, '"text"'), (S, '"x"')]),
    ("body", [(T, ":CONTENT"), (L, ['"text"']), (L, ['"x"', '"y"'])]),
    ("body", [(T, ":raw"), (L, ['"x"', '"y"'])]),
    ("body", [(T, ":text"), (T, ":matches"), (S, '"*x*"')]),
    ("body", [(T, ":content"), (N, "1"), (S, '"x"')]),
    ("body", [(L, ['"x"'])]),
    # the parser probes with add=False before it builds the test of a test list
    ("anyof", [("test", "<test 1>"), ("test", "<test 2>")], False),
    ("anyof", [(S, '"x"')], False),
    ("not", [("test", "<test 1>")], False),
    ("not", [(S, '"x"')], False),
    ("header", [(S, '"Subject"'), (N, "3")], False),
    ("header", [(T, ":count"), (S, '"gt"'), (S, '"Subject"'), (S, '"x"')], False),
    ("fileinto", [(T, ":copy"), (S, '"INBOX"')], False),
    ("size", [(T, ":above")], False),
]
# (the fourth set: names that are only parts of the names needed, and the empty name)
LOADED = ([], ["relational"], ["copy", "imap4flags", "relational", "regex", "mailbox"], ["cop", "imap4", "flags", "relation", "reg", "box", ""])


# --------------------------------------------------------------------------------------------------------------------
# what the slot format prescribes
# --------------------------------------------------------------------------------------------------------------------
class _Raise(Exception):
    def __init__(self, cls, what=None):
        self.cls = cls if what is None else "%s:%s" % (cls, what)


def _in(x, coll):
    """membership as the slot format means it (a list value is simply not a member of a table of strings)"""
    try:
        return x in coll
    except TypeError:
        return False


def _value_ok(arg, value, check_ext, loaded):
    if "values" not in arg and "extension_values" not in arg:
        return True
    if "values" in arg and value.lower() in arg["values"]:
        return True
    ext = arg.get("extension_values", {}).get(value.lower())
    if ext:
        if check_ext and ext not in loaded:
            raise _Raise("ExtensionNotLoaded", ext)
        return True
    return False


def _complete(st, defs, variable, atype=None, avalue=None):
    if variable:
        return False
    required = sum(1 for d in defs if d.get("required", False))
    cur = st["curarg"]
    free = cur is None or "extra_arg" not in cur or (
        "valid_for" in cur["extra_arg"] and bool(atype) and atype in cur["extra_arg"]["type"] and not _in(avalue, cur["extra_arg"]["valid_for"]))
    return bool(free and st["filled"] == required)


def reference(defs, variable, seq, loaded, check_ext=True, add=True):
    """-> ([answer per call], arguments, extra_arguments, complete at the end); an answer is True, False or the name of the exception."""
    st = {"curarg": None, "pos": 0, "filled": 0}
    arguments, extra = {}, {}
    answers = []
    for atype, avalue in seq:
        try:
            answers.append(_ref_step(st, defs, variable, arguments, extra, atype, avalue, loaded, check_ext, add))
        except _Raise as r:
            answers.append(r.cls)
            break
    return answers, arguments, extra, _complete(st, defs, variable)


def _ref_step(st, defs, variable, arguments, extra, atype, avalue, loaded, check_ext, add):
    if not defs:
        return False
    if _complete(st, defs, variable, atype, avalue) and st["pos"] >= len(defs):
        return False
    cur = st["curarg"]
    if cur is not None and "extra_arg" in cur:
        x = cur["extra_arg"]
        if atype in x["type"] and ("values" not in x or _in(avalue, x["values"])):
            if add:
                extra[cur["name"]] = avalue
            st["curarg"] = None
            return True
        raise _Raise("BadValue")
    for pos in range(st["pos"], len(defs)):
        d = defs[pos]
        if d.get("required", False):
            if d["type"] == ["testlist"]:
                if atype != "test":
                    raise _Raise("BadArgument")
                if add:
                    arguments.setdefault(d["name"], []).append(avalue)
                return True
            type_ok = atype in d["type"] or (atype == "string" and "stringlist" in d["type"])
            if not type_ok or not _value_ok(d, avalue, check_ext, loaded):
                raise _Raise("BadArgument")
            st["curarg"] = d
            st["filled"] += 1
            st["pos"] = pos + 1
            if add:
                arguments[d["name"]] = avalue
            return True
        if atype in d["type"] and _value_ok(d, avalue, check_ext, loaded):
            ext = d.get("extension")
            if check_ext and ext and ext not in loaded:
                raise _Raise("ExtensionNotLoaded", ext)
            if "extra_arg" in d and ("valid_for" not in d["extra_arg"] or avalue.lower() in d["extra_arg"]["valid_for"]):
                st["curarg"] = d
            if "tag" not in d["type"]:
                st["pos"] = pos + 1
            if add:
                arguments[d["name"]] = avalue
                extra.pop(d["name"], None)
            return True
    return False


# --------------------------------------------------------------------------------------------------------------------
# the repository's code, interpreted
# --------------------------------------------------------------------------------------------------------------------
def _plain(v):
    if isinstance(v, fd.Const):
        v = v.v
    if isinstance(v, dict):
        return {k: _plain(x) for k, x in v.items()}
    if isinstance(v, (list, tuple)):
        return [_plain(x) for x in v]
    return v


def _payload(p):
    """the first value the exception of a raising path was built from"""
    x = p.env.get("@exc")
    if isinstance(x, fd.Const) and isinstance(x.v, fd.Rec):
        a = x.v.fields.get("args") or []
        if a and isinstance(a[0], fd.Const):
            return a[0].v
    return "?"


def _shared(v):
    """constants of a scenario as containers the interpreted code changes in place"""
    if isinstance(v, dict) and not isinstance(v, fd.MDict):
        return fd.MDict(v)
    if isinstance(v, list) and not isinstance(v, fd.MList):
        return fd.MList(v)
    return v


def _own_format(R):
    """the repository's definitions are lists of dicts with the documented keys: the samples of this module speak the same language"""
    seen = 0
    for cname, e in R.concrete().items():
        ad = e.get("args_definition")
        if not isinstance(ad, list):
            return False
        for s in ad:
            if not isinstance(s, dict) or not set(s) <= KNOWN_KEYS:
                return False
            if "extra_arg" in s and (not isinstance(s["extra_arg"], dict) or not set(s["extra_arg"]) <= KNOWN_EXTRA):
                return False
            seen += 1
    return seen > 20


def arg_eval(ctx, R):
    """-> ("ok", n, []) | ("bad", n, [(aspects, key, message)]) | None"""
    if hasattr(ctx, "_arg_eval"):
        return ctx._arg_eval
    ctx._arg_eval = None
    try:
        ctx._arg_eval = _arg_eval(ctx, R)
    except AnalysisError:
        raise
    except (fd.TooManyPaths, RecursionError):
        ctx._arg_eval = None
    return ctx._arg_eval


class _Harness:
    """A stand-in command of class `K` (Command or a subclass): how its methods are interpreted and the state of a new instance."""

    def __init__(self, ctx, R, K=None):
        prog = ctx.program
        C = R.Command
        K = K or C
        self.ok = False
        self.C, self.K, self.R = C, K, R
        chain = [k for k in prog.mro(K)] if K is not C else [C]
        resolve = module_resolver(prog, R.cmod)
        rtypes = fd.record_types_of(R.cmod)

        def method(name):
            for k in chain:
                m = k.methods.get(name) or k.methods.get(mangle(k.name, name))
                if m is not None:
                    return m
            return None
        self.method = method

        def oracle(interp, e, name, recv, args, kw, st):
            if name and name.startswith("self."):
                m = method(name[5:])
                if m is not None and m.node is not interp.f:
                    return fd.Inline(m)
            fn = e.func
            if isinstance(fn, ast.Name) and fn.id in R.cmod.funcs:
                return fd.Inline(R.cmod.funcs[fn.id])
            if isinstance(fn, ast.Attribute) and isinstance(fn.value, ast.Name) and fn.value.id in R.cmod.imports \
                    and fn.value.id != interp.selfname and fn.value.id not in st.env:
                imp = R.cmod.imports[fn.value.id]
                mod = prog.modules.get(imp[1].split(".")[-1]) if imp[0] == "module" else (
                    prog.modules.get(imp[2]) if imp[0] == "name" else None)
                if mod is not None and fn.attr in mod.funcs:
                    return fd.Inline(mod.funcs[fn.attr])  # a helper of another module of the package (tools.to_list)
            if isinstance(fn, ast.Name) and fn.id in R.cmod.imports and R.cmod.imports[fn.id][0] == "name":
                imp = R.cmod.imports[fn.id]
                mod = prog.modules.get(imp[1].split(".")[-1])
                if mod is not None and imp[2] in mod.funcs:
                    return fd.Inline(mod.funcs[imp[2]])
            if isinstance(fn, ast.Attribute) and isinstance(fn.value, ast.Name) and fn.value.id in (C.name, K.name, "cls"):
                m = method(fn.attr)
                if m is not None and ("staticmethod" in m.decorators or "classmethod" in m.decorators):
                    return fd.Inline(m)
            return None

        def self_attr_hook(interp, e, st):
            m = method(e.attr)
            if m is not None and "property" in m.decorators:
                return interp.inline(m, e, [], {}, st)
            return None

        gexprs = {}
        for st_ in R.cmod.tree.body:
            if isinstance(st_, ast.Assign) and len(st_.targets) == 1 and isinstance(st_.targets[0], ast.Name) and isinstance(st_.value, ast.Call):
                gexprs[st_.targets[0].id] = st_.value

        def interp(f):
            it = fd.Interp(f.node, (f.cls.name if f.cls is not None else C.name), oracle, resolve=resolve, loop_unroll=12, max_paths=200, max_depth=5)
            it.record_types = rtypes
            it.self_attr_hook = self_attr_hook
            it.global_exprs = gexprs
            return it
        self.interp = interp

        # ---- the state of a new command: class-level constants, then what __init__ sets
        base = {}
        for k in reversed(chain):
            for st_ in k.node.body:
                tgt = None
                if isinstance(st_, ast.Assign) and len(st_.targets) == 1 and isinstance(st_.targets[0], ast.Name):
                    tgt, val = st_.targets[0].id, st_.value
                elif isinstance(st_, ast.AnnAssign) and isinstance(st_.target, ast.Name) and st_.value is not None:
                    tgt, val = st_.target.id, st_.value
                if tgt:
                    cv = const_value(prog, R.check_next_arg, val)
                    if cv is not TOP:
                        base[tgt] = fd.Const(cv)
        init = method("__init__")
        if init is None:
            return
        it0 = interp(init)
        env0 = dict(("%s.%s" % (init.params[0], k), v) for k, v in base.items())
        for p in init.params[1:]:
            env0[p] = fd.Const(None)
        ps = it0.run(env0)
        if len(ps) != 1 or ps[0].kind != "return":
            return
        for k, v in ps[0].env.items():
            if k.startswith(init.params[0] + "."):
                base[k.split(".", 1)[1]] = v
        self.base = base
        self.ok = True

    def fresh(self, sn, defs, variable, name):
        env = {}
        for k, v in self.base.items():
            env["%s.%s" % (sn, k)] = fd.Const(_shared(copy.deepcopy(v.v))) if isinstance(v, fd.Const) else v
        env["%s.args_definition" % sn] = fd.Const(copy.deepcopy(defs))
        env["%s.variable_args_nb" % sn] = fd.Const(variable)
        env["%s.name" % sn] = fd.Const(name)
        env["%s._type" % sn] = fd.Const("test")
        return env


def carry(env, selfname, sn):
    """the object's attributes at the end of one call, under the self name of the next"""
    return {("%s.%s" % (sn, k.split(".", 1)[1])): v for k, v in env.items() if k.startswith(selfname + ".")}


def _arg_eval(ctx, R):
    dbg = __import__('os').environ.get('GDBG')
    C = R.Command
    cna = R.check_next_arg
    isc = R.iscomplete
    if C is None or cna is None or isc is None or len(cna.params) < 3:
        return None
    if not _own_format(R):
        return None
    sn = cna.params[0]
    p_type, p_value = cna.params[1], cna.params[2]
    H = _Harness(ctx, R)
    if not H.ok:
        return None
    interp = H.interp

    def fresh(defname):
        return H.fresh(sn, DEFS_ALL[defname], defname in VARIABLE, defname)

    problems = []
    n = 0
    # the repository's own definitions that restrict a tag's parameter to some spellings of the tag (valid_for): each such tag followed by
    # a parameter of every shape its type admits, then the required arguments
    own_defs = {}
    own_seqs = []
    for cname_, e_ in sorted(R.concrete().items()):
        ad_ = e_.get("args_definition") or []
        for d_ in ad_:
            x_ = d_.get("extra_arg") if isinstance(d_, dict) else None
            if not (isinstance(x_, dict) and x_.get("valid_for")):
                continue
            key_ = "own:" + e_["name"]
            own_defs[key_] = ad_
            req_ = [(S, '"r%d"' % i_) for i_, r_ in enumerate(ad_) if r_.get("required") and ("string" in r_["type"] or "stringlist" in r_["type"])]
            if len(req_) != sum(1 for r_ in ad_ if r_.get("required")):
                continue
            tag_ = sorted(x_["valid_for"])[0]
            pv_ = sorted(x_["values"])[0] if x_.get("values") else '"p"'
            for shape_ in ((S, pv_), (L, [pv_, '"q"'])):
                if shape_[0] in x_["type"] or (shape_[0] == S and x_["type"] == "string"):
                    own_seqs.append((key_, [(T, tag_), shape_] + req_))
                    own_seqs.append((key_, [(T, tag_.upper()), shape_] + req_))
    DEFS_ALL = dict(DEFS)
    DEFS_ALL.update(own_defs)
    old_heap = fd.State.heap
    fd.State.heap = True
    try:
        for entry in list(SEQUENCES) + own_seqs:
            defname, seq = entry[0], entry[1]
            add = entry[2] if len(entry) > 2 else True
            if not add and "add" not in cna.params:
                continue
            for loaded in LOADED:
                uses_ext = any("extension" in d or "extension_values" in d for d in DEFS_ALL[defname])
                if not uses_ext and loaded is not LOADED[0]:
                    continue
                for check_ext in ((True, False) if uses_ext and loaded is LOADED[0] else (True,)):
                    want = reference(DEFS_ALL[defname], defname in VARIABLE, seq, loaded, check_ext, add)
                    env = fresh(defname)
                    answers = []
                    for atype, avalue in seq:
                        it = interp(cna)
                        call = dict(env)
                        call[p_type] = fd.Const(atype)
                        call[p_value] = fd.Const(copy.deepcopy(avalue))
                        call["RequireCommand.loaded_extensions"] = fd.Const(list(loaded))
                        for p_ in cna.params[3:]:
                            if "ext" in p_.lower():
                                call[p_] = fd.Const(check_ext)
                            elif p_ == "add":
                                call[p_] = fd.Const(add)
                        ps = it.run(call)
                        if len(ps) != 1 or it.unknowns:
                            if dbg: print('G11 undecided at line 394', locals().get('ps'), locals().get('it') and it.unknowns)
                            return None
                        p = ps[0]
                        env = carry(p.env, sn, sn)
                        if p.kind == "raise":
                            cls_ = p.value if isinstance(p.value, str) else getattr(p.value, "name", str(p.value))
                            if cls_ == "ExtensionNotLoaded":
                                cls_ = "%s:%s" % (cls_, _payload(p))
                            answers.append(cls_)
                            break
                        t = p.value.v if isinstance(p.value, fd.Const) and isinstance(p.value.v, bool) else fd.truth(p.value)
                        if t is None:
                            if dbg: print('G11 undecided at line 402', locals().get('ps'), locals().get('it') and it.unknowns)
                            return None
                        answers.append(bool(t))
                    # iscomplete() once the arguments are read
                    itc = interp(isc)
                    callc = dict(env)
                    for p_ in isc.params[1:]:
                        callc[p_] = fd.Const(None)
                    psc = itc.run(callc)
                    if len(psc) != 1 or itc.unknowns or psc[0].kind != "return":
                        if dbg: print('G11 undecided at line 411', locals().get('ps'), locals().get('it') and it.unknowns)
                        return None
                    done = fd.truth(psc[0].value)
                    if done is None:
                        if dbg: print('G11 undecided at line 414', locals().get('ps'), locals().get('it') and it.unknowns)
                        return None
                    a_ = env.get("%s.arguments" % sn)
                    x_ = env.get("%s.extra_arguments" % sn)
                    if not (isinstance(a_, fd.Const) and isinstance(a_.v, dict) and isinstance(x_, fd.Const) and isinstance(x_.v, dict)):
                        if dbg: print('G11 undecided at line 418', locals().get('ps'), locals().get('it') and it.unknowns)
                        return None
                    if answers and answers[-1].__class__ is str and answers[-1].endswith(":?") and want[0] and str(want[0][-1]).startswith(
                            "ExtensionNotLoaded:"):
                        want[0][-1] = "ExtensionNotLoaded:?"  # what the exception carries could not be followed: only its class is compared
                    got = (answers, _plain(a_), _plain(x_), bool(done))
                    n += 1
                    if got == (want[0], _plain(want[1]), _plain(want[2]), want[3]):
                        continue
                    aspects = set()
                    if got[0] != want[0]:
                        aspects.add("verdict")
                        if any(str(x).startswith("ExtensionNotLoaded") for x in got[0] + want[0]):
                            aspects.add("gate")
                    if any(isinstance(x, str) and x.split(":")[0] not in ("BadArgument", "BadValue", "ExtensionNotLoaded") for x in got[0]):
                        aspects.add("crash")  # an exception that parse() does not turn into a verdict
                    if got[1] != _plain(want[1]) or got[2] != _plain(want[2]):
                        aspects.add("stored")
                    if got[3] != want[3]:
                        aspects.add("complete")
                    script = " ".join([defname] + [(v if isinstance(v, str) else "[%s]" % ", ".join(v)) for _, v in seq])
                    if not add:
                        script += "  (add=False)"
                    key = "%s|%s|%s" % (script, ",".join(loaded), check_ext)
                    problems.append((aspects, key, "for `%s` (extensions loaded: %s%s) the argument interpreter answers %s, records %r / %r and "
                                     "%s the command complete; the slot definitions prescribe %s, %r / %r, %s"
                                     % (script, ", ".join(loaded) or "none", "" if check_ext else ", extension check off", got[0], got[1], got[2],
                                        "calls" if got[3] else "does not call", want[0], _plain(want[1]), _plain(want[2]),
                                        "complete" if want[3] else "not complete")))
    finally:
        fd.State.heap = old_heap
    return ("bad" if problems else "ok", n, problems)


def g11(ctx, R, aspects=("verdict", "stored", "complete", "gate")):
    """-> "ok" | "bad" | None"""
    ctx.rule("G11", "the argument interpreter, followed call by call over sample definitions and argument sequences, answers and records what "
             "the slot definitions prescribe")
    res = arg_eval(ctx, R)
    cna = R.check_next_arg
    if res is None:
        ctx.notice("G11", "the interpreter cannot follow %s on the sample sequences; the structural rules decide" % cna.qualname)
        return None
    status, n, problems = res
    mine = [p for p in problems if p[0] & set(aspects)]
    seen = set()
    for asp, key, msg in mine:
        k = key.split("|")[0]
        if k in seen:
            continue
        seen.add(k)
        ctx.violation("G11", cna, "sequence:%s" % k, msg, node=cna.node)
        if len(seen) >= 6:
            break
    if not mine:
        ctx.holds("G11", "%s: %d sample sequences x extension sets answered and recorded as the slot definitions prescribe" % (cna.qualname, n))
    return "bad" if mine else "ok"


STRUCTURAL = ("G2", "G4", "G5", "G6", "G7", "G8", "G9")


def with_g11(ctx, R, calls, aspects=("verdict", "stored", "complete", "gate")):
    """Run the structural G rules `calls`; when the evaluation followed the argument interpreter and found every sample as prescribed,
    their findings (bound to the shape of today's check_next_arg) are notices."""
    status = g11(ctx, R, aspects)
    full = arg_eval(ctx, R)
    followed = full is not None and full[0] == "ok"
    prev = ctx.demote(STRUCTURAL, "G11") if followed else None
    try:
        for fn in calls:
            try:
                fn(ctx, R)
            except AnalysisError as e:
                if followed and e.rule in STRUCTURAL:
                    ctx.notice(e.rule, "not decided structurally (%s); the evaluation G11 followed the argument interpreter" % e.why)
                else:
                    raise
    finally:
        if prev is not None:
            ctx.restore(prev)
    return status


def lookup_eval(ctx, R):
    """E2/E7 by evaluation: the lookup function interpreted for command names in several letter cases, known / unknown / abstract, with the
    command's extension loaded, not loaded, loaded under a look-alike name, and the existence check switched off.
    -> ("ok", n) | ("bad", message) | None"""
    if hasattr(ctx, "_lookup_eval"):
        return ctx._lookup_eval
    ctx._lookup_eval = None
    try:
        ctx._lookup_eval = _lookup_eval(ctx, R)
    except (fd.TooManyPaths, RecursionError):
        pass
    return ctx._lookup_eval


def _lookup_eval(ctx, R):
    prog = ctx.program
    lk = R.lookup
    if lk is None or not lk.params:
        return None
    bypass = [p for p in lk.params if "check" in p.lower()]
    if len(bypass) != 1:
        return None
    gl = {"sys": "<module>", "comparator": {"name": "comparator"}}
    classes = {
        "Command": dict(extension=None, is_command=True),
        "TestCommand": dict(extension=None, is_command=True),
        "KeepCommand": dict(extension=None, is_command=True, args_definition=[]),
        "FileintoCommand": dict(extension="fileinto", is_command=True, args_definition=[]),
        "VacationCommand": dict(extension="vacation", is_command=True, args_definition=[]),
        "CommandError": dict(is_command=False),
    }
    for k, v in classes.items():
        gl[k] = fd.Rec("type", clsname=k, **v)
    resolve = module_resolver(prog, R.cmod)
    gexprs = {}
    for st_ in R.cmod.tree.body:
        if isinstance(st_, ast.Assign) and len(st_.targets) == 1 and isinstance(st_.targets[0], ast.Name) and isinstance(st_.value, ast.Call):
            gexprs[st_.targets[0].id] = st_.value

    used = {}

    def is_type(v):
        return isinstance(v, fd.Const) and isinstance(v.v, fd.Rec) and v.v.cls == "type"

    def oracle(interp, e, name, recv, args, kw, st):
        fn = e.func
        if name == "globals" and not args:
            used["globals"] = True
            return [(fd.Const(dict(gl)), None)]
        if name == "isinstance" and len(args) == 2 and isinstance(e.args[1], ast.Name) and e.args[1].id == "type":
            return [(fd.Const(is_type(args[0])), None)]
        if name == "issubclass" and len(args) == 2 and is_type(args[0]) and isinstance(e.args[1], ast.Name) and e.args[1].id == R.Command.name:
            return [(fd.Const(bool(args[0].v.fields.get("is_command"))), None)]
        if name == "hasattr" and len(args) == 2 and isinstance(args[1], fd.Const) and isinstance(args[0], fd.Const):
            return [(fd.Const(is_type(args[0]) and args[1].v in args[0].v.fields), None)]
        if name == "getattr" and len(args) >= 2 and is_type(args[0]) and isinstance(args[1], fd.Const):
            if args[1].v in args[0].v.fields:
                return [(fd.Const(args[0].v.fields[args[1].v]), None)]
            if len(args) == 3:
                return [(args[2], None)]
        if isinstance(fn, ast.Name) and fn.id in R.cmod.funcs and R.cmod.funcs[fn.id].node is not interp.f:
            return fd.Inline(R.cmod.funcs[fn.id])
        if isinstance(fn, (ast.Subscript, ast.Name)):
            r_ = interp.eval(fn, st)
            if len(r_) == 1 and is_type(r_[0][0]):
                return [(fd.Const(fd.Rec("instance", of=r_[0][0].v.fields["clsname"])), None)]  # the class is called: a new command
        return None

    n = 0
    for name, cls in (("keep", "KeepCommand"), ("KEEP", "KeepCommand"), ("fileinto", "FileintoCommand"), ("FileInto", "FileintoCommand"),
                      ("vacation", "VacationCommand"), ("nosuch", None), ("", None), ("test", None), ("sys", None), ("comparator", None)):
        ext = classes[cls]["extension"] if cls else None
        for loaded in ([], ["fileinto"], ["vacation", "fileinto"], ["file", "vac", ""], ["fileintox", "vacation-seconds"]):
            for flag, parent in ((True, None), (False, None), (True, fd.Rec("instance", of="IfCommand"))):
                if cls is None:
                    want = "UnknownCommand"
                elif flag and ext and ext not in loaded:
                    want = "ExtensionNotLoaded:%s" % ext
                else:
                    want = "instance of %s" % cls
                it = fd.Interp(lk.node, None, oracle, resolve=resolve, loop_unroll=8, max_paths=100, max_depth=4)
                it.global_exprs = gexprs
                env = {lk.params[0]: fd.Const(name), bypass[0]: fd.Const(flag), "RequireCommand.loaded_extensions": fd.Const(list(loaded))}
                for p_ in lk.params[1:]:
                    if p_ not in env:
                        env[p_] = fd.Const(parent)
                used.clear()
                ps = it.run(env)
                if len(ps) != 1 or it.unknowns or not used.get("globals"):
                    return None  # (a lookup that does not go through the module's namespace - a registry filled at import - is not modelled)
                p = ps[0]
                if p.kind == "raise":
                    got = p.value if isinstance(p.value, str) else getattr(p.value, "name", str(p.value))
                    if got == "ExtensionNotLoaded":
                        pay = _payload(p)
                        got = "%s:%s" % (got, pay)
                        if pay == "?" and want.startswith("ExtensionNotLoaded:"):
                            want = "ExtensionNotLoaded:?"
                elif isinstance(p.value, fd.Const) and isinstance(p.value.v, fd.Rec) and p.value.v.cls == "instance":
                    got = "instance of %s" % p.value.v.fields["of"]
                else:
                    return None
                n += 1
                if got != want:
                    return ("bad", "%s(%r, %s=%s%s) with the extensions %r required %s; the command tables prescribe: %s" % (
                        lk.name, name, bypass[0], flag, ", inside a parent command" if parent is not None else "", loaded, ("raises " + got) if not got.startswith("instance") else ("returns an " + got),
                        ("raise " + want) if not want.startswith("instance") else ("an " + want)))
    return ("ok", n)


def _ref_reassign(defs, arguments):
    """What `reassign_arguments` is for (commands.py: "optional positional arguments in front of required ones"): when the script gave
    exactly as many positional values as there are required positional slots and a required one is still empty, the values were meant
    for the required slots, in order.  Tags are not concerned."""
    positional = [d for d in defs if "tag" not in d["type"]]
    required = [d for d in positional if d.get("required", False)]
    given = [arguments[d["name"]] for d in positional if d["name"] in arguments]
    if len(given) != len(required) or all(d["name"] in arguments for d in required):
        return dict(arguments), False
    out = {k: v for k, v in arguments.items() if k not in {d["name"] for d in positional}}
    for d, v in zip(required, given):
        out[d["name"]] = v
    return out, True


def reassign_eval(ctx, R):
    """T3' by evaluation: for every command that overrides reassign_arguments, its own definition, argument sequences with 0..n positional
    values and every kind of tag, recorded by the interpreted check_next_arg, then the interpreted reassign_arguments and iscomplete().
    -> {class name: ("ok", n) | ("bad", message) | None}"""
    if hasattr(ctx, "_reassign_eval"):
        return ctx._reassign_eval
    out = {}
    ctx._reassign_eval = out
    if not _own_format(R):
        return out
    cna, isc = R.check_next_arg, R.iscomplete
    table = R.concrete()
    old_heap = fd.State.heap
    fd.State.heap = True
    try:
        for c in ctx.program.subclasses("Command"):
            f = c.methods.get("reassign_arguments")
            ent = next((e for e in table.values() if e.get("class") == c.name), None)
            if f is None or ent is None:
                continue
            try:
                out[c.name] = _reassign_one(ctx, R, c, f, ent["args_definition"], cna, isc)
            except AnalysisError:
                raise
            except Exception:
                out[c.name] = None  # the evaluation cannot follow this shape: the structural rule decides
    finally:
        fd.State.heap = old_heap
    return out


def _reassign_one(ctx, R, c, f, defs, cna, isc):
    H = _Harness(ctx, R, c)
    if not H.ok or len(cna.params) < 3:
        return None
    sn = cna.params[0]
    positional = [d for d in defs if "tag" not in d["type"]]
    if any(set(d["type"]) - {"string", "stringlist", "number"} for d in positional):
        return None
    tags = []
    first = lambda c_: sorted(c_)[0]  # (the tables may be lists, tuples or sets)
    for d in defs:
        if "tag" in d["type"] and d.get("values"):
            tags.append([(T, first(d["values"]))])
            if "extra_arg" in d:
                x = d["extra_arg"]
                tag = first(x.get("valid_for") or d["values"])
                val = first(x.get("values") or ['"p"']) if "string" in x["type"] else "1"
                tags[-1] = [(T, tag), (S if "string" in x["type"] else N, val)]
    values = ['"v1"', ['"l1"', '"l2"'], '"v3"', '"v4"']
    seqs = []
    for k in range(0, len(positional) + 1):
        vals = [((L if isinstance(v, list) else S), v) for v in values[:k]]
        seqs.append(vals)
        if tags:
            seqs.append(tags[0] + vals)
            seqs.append([x for t in tags for x in t] + vals)
    n = 0
    for seq in seqs:
        want_answers, want_args, want_extra, _ = reference(defs, False, seq, [], False)
        if any(a is not True for a in want_answers):
            continue
        want_args, moved = _ref_reassign(defs, want_args)
        want_done = all(d["name"] in want_args for d in defs if d.get("required", False))
        env = H.fresh(sn, defs, False, c.name.replace("Command", "").lower())
        for atype, avalue in seq:
            it = H.interp(cna)
            call = dict(env)
            call[cna.params[1]] = fd.Const(atype)
            call[cna.params[2]] = fd.Const(copy.deepcopy(avalue))
            call["RequireCommand.loaded_extensions"] = fd.Const([])
            for p_ in cna.params[3:]:
                if "ext" in p_.lower():
                    call[p_] = fd.Const(False)
            ps = it.run(call)
            if len(ps) != 1 or it.unknowns or ps[0].kind != "return" or fd.truth(ps[0].value) is not True:
                return None
            env = carry(ps[0].env, sn, sn)
        it = H.interp(f)
        ps = it.run(carry(env, sn, f.params[0]))
        if len(ps) != 1 or it.unknowns:
            return None
        script = " ".join([c.name.replace("Command", "").lower()] + [(v if isinstance(v, str) else "[%s]" % ", ".join(v)) for _, v in seq]) + " {"
        if ps[0].kind == "raise":
            return ("bad", "for `%s` %s raises %s" % (script, f.qualname, ps[0].value))
        env = carry(ps[0].env, f.params[0], isc.params[0])
        itc = H.interp(isc)
        callc = dict(env)
        for p_ in isc.params[1:]:
            callc[p_] = fd.Const(None)
        psc = itc.run(callc)
        if len(psc) != 1 or itc.unknowns or psc[0].kind != "return" or fd.truth(psc[0].value) is None:
            return None
        a_ = env.get("%s.arguments" % isc.params[0])
        x_ = env.get("%s.extra_arguments" % isc.params[0])
        if not (isinstance(a_, fd.Const) and isinstance(a_.v, dict) and isinstance(x_, fd.Const) and isinstance(x_.v, dict)):
            return None
        n += 1
        got = (_plain(a_), _plain(x_), bool(fd.truth(psc[0].value)))
        want = (_plain(want_args), _plain(want_extra), want_done)
        if got != want:
            return ("bad", "for `%s` the tree holds %r / %r after %s and the command is %scomplete; the values the script wrote, each in the slot "
                    "it was meant for, are %r / %r, %scomplete" % (script, got[0], got[1], f.qualname, "" if got[2] else "not ", want[0], want[1],
                                                                    "" if want[2] else "not "))
    return ("ok", n) if n else None


REQUIRE_SAMPLES = [
    # (capabilities argument or None, registry before) -> registry after: the names written, quotes removed, each once, in order
    ('"fileinto"', []),
    ('"fileinto"', ["fileinto"]),
    ('"fileinto"', ["copy"]),
    (['"fileinto"', '"copy"'], []),
    (['"copy"', '"copy"', '"imap4flags"'], []),
    (['"fileinto"', '"fileinto"', '"copy"'], ["fileinto"]),
    (['"vacation-seconds"'], ["vacation"]),
    ('"fileinto,copy"', []),
    ('"[fileinto]"', []),
    ('"comparator-i;ascii-numeric"', []),
    ([], ["copy"]),
    (None, ["copy"]),
]


def require_eval(ctx, R):
    """E6 by evaluation: RequireCommand.complete_cb interpreted for the two shapes of the `capabilities` argument (one quoted string, a list
    of quoted strings; names repeated, names that contain a comma or brackets) and an empty / a filled registry.
    -> ("ok", n) | ("bad", message) | None"""
    if hasattr(ctx, "_require_eval"):
        return ctx._require_eval
    ctx._require_eval = None
    old_heap = fd.State.heap
    fd.State.heap = True
    try:
        ctx._require_eval = _require_eval(ctx, R)
    except (fd.TooManyPaths, RecursionError):
        pass
    finally:
        fd.State.heap = old_heap
    return ctx._require_eval


def _require_eval(ctx, R):
    K = R.Require
    if K is None or "complete_cb" not in K.methods:
        return None
    cb = K.methods["complete_cb"]
    H = _Harness(ctx, R, K)
    if not H.ok:
        return None
    sn = cb.params[0]
    n = 0
    # every extension name the command tables know, required alone into an empty registry: nothing but the name itself may appear
    # (an "implied" extension would be one no require names)
    exts = set()
    for e_ in R.table().values():
        if e_.get("extension"):
            exts.add(e_["extension"])
        for s_ in e_.get("args_definition") or []:
            if isinstance(s_, dict):
                if isinstance(s_.get("extension"), str):
                    exts.add(s_["extension"])
                for v_ in (s_.get("extension_values") or {}).values():
                    if isinstance(v_, str):
                        exts.add(v_)
    samples = list(REQUIRE_SAMPLES) + [('"%s"' % x, []) for x in sorted(exts)]
    for caps, before in samples:
        env = H.fresh(sn, [{"name": "capabilities", "type": ["string", "stringlist"], "required": True}], False, "require")
        args = fd.MDict() if caps is None else fd.MDict({"capabilities": copy.deepcopy(caps)})
        env["%s.arguments" % sn] = fd.Const(args)
        env["RequireCommand.loaded_extensions"] = fd.Const(fd.MList(before))
        it = H.interp(cb)
        ps = it.run(env)
        if len(ps) != 1 or it.unknowns:
            return None
        names = [] if caps is None else [x.strip('"') for x in (caps if isinstance(caps, list) else [caps])]
        want = list(before)
        for x in names:
            if x not in want:
                want.append(x)
        shown = "require %s;" % (caps if isinstance(caps, str) else "[%s]" % ", ".join(caps)) if caps is not None else "a require command without argument"
        if ps[0].kind == "raise":
            return ("bad", "for `%s` with %r already required complete_cb raises %s" % (shown, before, ps[0].value))
        got = ps[0].env.get("RequireCommand.loaded_extensions")
        if not (isinstance(got, fd.Const) and isinstance(got.v, list) and all(isinstance(x, str) for x in got.v)):
            return None
        n += 1
        if list(got.v) != want:
            return ("bad", "for `%s` with %r already required the registry becomes %r; the names the command wrote give %r" % (shown, before, list(got.v), want))
        if dict(args) != ({} if caps is None else {"capabilities": caps}):
            return ("bad", "for `%s` complete_cb changes the command's own argument to %r" % (shown, dict(args)))
    return ("ok", n)
