"""C17 - Script names and bodies come back exactly as the server holds them.

D1 literal payload never reaches a protocol recogniser, D2 quoted-name decoder
language + unescaping, D3 literal boundary, D4 no content-based line
dropping in getscript, D5 ACTIVE only after the name.
"""
import ast

from sa import rx
from sa.model import AnalysisError, walk_no_nested, norm, call_name, stmt_of, mangle
from sa.util import self_calls, const_value, bound_arg, contains, fact_atom, cmp_parts
from sa.consteval import TOP
from .roles import ClientRoles, regex_flags
from ref import ms_spec


def tainted_vars(R, f):
    """Local names that (transitively) hold reply content: the third element
    of a sender call made with withcontent=True, and everything derived."""
    t = set()
    for st in walk_no_nested(f.node):
        if isinstance(st, ast.Assign) and isinstance(st.value, ast.Call) and any(st.value is c for c in self_calls(f, R.sender.name)):
            wc = bound_arg(st.value, R.sender, "withcontent")
            if wc is not None and isinstance(st.targets[0], (ast.Tuple, ast.List)) and len(st.targets[0].elts) == 3:
                el = st.targets[0].elts[2]
                if isinstance(el, ast.Name):
                    t.add(el.id)
    changed = True
    while changed:
        changed = False
        for st in walk_no_nested(f.node):
            src = None
            tgts = []
            if isinstance(st, ast.Assign):
                src, tgts = st.value, st.targets
            elif isinstance(st, ast.AugAssign):
                src, tgts = st.value, [st.target]
            elif isinstance(st, ast.For):
                src, tgts = st.iter, [st.target]
            elif isinstance(st, ast.comprehension):
                src, tgts = st.iter, [st.target]
            if isinstance(st, ast.Expr) and isinstance(st.value, ast.Call) and isinstance(st.value.func, ast.Attribute) \
                    and st.value.func.attr in ("append", "extend") and isinstance(st.value.func.value, ast.Name) and st.value.args:
                src, tgts = st.value.args[0], [st.value.func.value]  # collected item by item
            if src is None:
                continue
            if any(isinstance(n, ast.Name) and n.id in t for n in ast.walk(src)):
                for tg in tgts:
                    for n in ast.walk(tg):
                        if isinstance(n, ast.Name) and n.id not in t:
                            t.add(n.id)
                            changed = True
        for n in ast.walk(f.node):
            if isinstance(n, ast.comprehension) and any(isinstance(x, ast.Name) and x.id in t for x in ast.walk(n.iter)):
                for x in ast.walk(n.target):
                    if isinstance(x, ast.Name) and x.id not in t:
                        t.add(x.id)
                        changed = True
    return t


def run(ctx):
    R = ClientRoles(ctx, "D")
    ctx.explanation = (
        "(D1) in listscripts/getscript/capability, values derived from the reply content are never passed to the "
        "size or status recognisers (local def-use from the third element of the sender's result), so stored data "
        "cannot be taken for protocol; (D2) the quoted-name pattern accepts the whole RFC 5804 quoted-string language "
        "(regex language inclusion), its name group cannot contain an unescaped quote, and the captured name is "
        "unescaped before decoding; (D3) the response assembler keeps literal payload apart from line text (today it "
        "does not: recorded known finding); (D4) getscript returns the join of all decoded lines: no filter, slice or "
        "content-dependent branch; (D5) the ACTIVE marker is recognised only in the group after the name, anchored.")
    ctx.not_decided = "equality with a reference server's store over all names/bodies; behaviour of bytes.splitlines on lone CR."
    decoder_rules(ctx, R)
    # a literal the error parser fails to consume becomes "data" of the next reply (rules Q3/Q4/Q6 of C09)
    from .c09 import q34
    q34(ctx, R)
    # lines and literals reach the decoders through the two readers: a line cut at the wrong place is data taken for protocol (M3-M6 of C05)
    from .c05 import reader_rules
    reader_rules(ctx, R)


LISTING_SAMPLES = [
    b"",
    b'"a"\r\n"b" ACTIVE\r\n"c"\r\n',
    b'"only" ACTIVE\r\n',
    b'"x" active\r\n"y"\r\n',
    b'"a\\"b"\r\n"a\\\\b" ACTIVE\r\n',
    b'"end\\\\" ACTIVE\r\n"mid\\\\dle"\r\n',
    b'"\\\\"\r\n"q\\"" ACTIVE\r\n',
    b'"ACTIVE"\r\n"inactive"\r\n"x ACTIVE y"\r\n',
    b'"ACTIVE" ACTIVE\r\n"z"\r\n',
    b'"n"   ACTIVE\r\n',
    b'"caf\xc3\xa9"\r\n"\xe2\x80\xa8x" ACTIVE\r\n',
    b'dom\\user\r\n"q"\r\n',
    b'a\\\\b\r\nclever"script\r\n',
    b'ACTIVE\r\nplain name\r\n"r" ACTIVE\r\n',
    b'"a b"\r\n"{3}"\r\n"OK"\r\n',
    # names sent as literals (the payload line does not start with a quote) that contain quoted words.  (A literal payload that ENDS
    # in the word ACTIVE is not sampled: the assembler glues a literal and the rest of its line - known finding D3 - so that line is
    # ambiguous between a name and a name with its flag.)
    b'my "old" rules\r\ncopy of "main" (2)\r\n"real" ACTIVE\r\n',
]


def reference_listing(listing):
    """What a LISTSCRIPTS payload means (RFC 5804 2.7): one name per line; a quoted string is unescaped (backslash + octet -> octet)
    and is the active script iff ACTIVE (any case) follows it; a line that is not a quoted string is a literal's payload: the name as is."""
    import re
    active, names = None, []
    for line in listing.splitlines():
        m = re.match(rb'"((?:[^"\\]|\\[\s\S])*)"[ \t]*(.*)\Z', line, re.S)
        if m is None:
            names.append(line.decode("utf-8"))
            continue
        name = re.sub(rb"\\([\s\S])", rb"\1", m.group(1)).decode("utf-8")
        if re.match(rb"ACTIVE", m.group(2), re.I):
            active = name
        else:
            names.append(name)
    return active, names


def listing_eval(ctx, R, lst):
    """D2/D5 by evaluation: listscripts interpreted (finite-domain interpreter, stdlib regex engine on the code's constant patterns) over
    sample payloads; its (active, names) must equal the reference reading.  -> True when decisive (all samples followed)."""
    from sa import fd
    from sa.util import module_resolver
    import re
    send = R.sender
    env0 = R.const_env(lst.params[0])
    for a, (pat, flags, _n) in R.regex_attrs.items():
        if isinstance(pat, (bytes, str)) and not a.startswith("<re:"):
            try:
                cp = re.compile(pat, flags)
            except re.error:
                continue
            short = a[len("_" + R.cls.name):] if a.startswith("_" + R.cls.name + "__") else a
            for nm in {a, short}:
                env0["self." + nm] = fd.Const(cp)
    helpers = {}
    for fn, f in R.module.funcs.items():
        helpers[fn] = f
    decided = 0
    first_bad = None
    for sample in LISTING_SAMPLES:
        def oracle(interp, e, name, recv, a, kw, st, sample=sample):
            if name == "self." + send.name or (name and name.startswith("self.") and mangle(R.cls.name, name[5:]) == mangle(R.cls.name, send.name)):
                return [(fd.Tup([fd.Const("OK"), fd.Const(""), fd.Const(sample)]), None)]
            if name and name.startswith("self.") and ("print" in name or "debug" in name.lower()):
                return [(fd.Const(None), None)]
            if name and name.startswith("self.") and name[5:] in R.methods and R.methods[name[5:]] is not lst:
                return fd.Inline(R.methods[name[5:]])
            if name in helpers and isinstance(e.func, ast.Name):
                return fd.Inline(helpers[name])
            return None
        it = fd.Interp(lst.node, R.cls.name, oracle, resolve=module_resolver(ctx.program, R.module), loop_unroll=40, max_paths=400)
        it.record_types = fd.record_types_of(R.module)
        try:
            paths = it.run(dict(env0))
        except fd.TooManyPaths:
            return False
        except RecursionError:
            return False
        if len(paths) != 1:
            return False
        p = paths[0]
        want = reference_listing(sample)
        if p.kind == "raise":
            got = "raises %s" % p.value
        else:
            got = concrete(p.value)
            if got is None:
                return False
            got = (got[0], list(got[1])) if isinstance(got, (tuple, list)) and len(got) == 2 and isinstance(got[1], (list, tuple)) else got
        decided += 1
        if got != want and first_bad is None:
            first_bad = (sample, got, want, p)
    # the same client lists twice: the second answer is about the second payload only
    if first_bad is None:
        seq_env = dict(env0)
        for sample in (b'"only" ACTIVE\r\n', b'"a"\r\n"c"\r\n', b""):
            def oracle2(interp, e, name, recv, a, kw, st, sample=sample):
                if name == "self." + send.name or (name and name.startswith("self.") and mangle(R.cls.name, name[5:]) == mangle(R.cls.name, send.name)):
                    return [(fd.Tup([fd.Const("OK"), fd.Const(""), fd.Const(sample)]), None)]
                if name and name.startswith("self.") and ("print" in name or "debug" in name.lower()):
                    return [(fd.Const(None), None)]
                if name and name.startswith("self.") and name[5:] in R.methods and R.methods[name[5:]] is not lst:
                    return fd.Inline(R.methods[name[5:]])
                if name in helpers and isinstance(e.func, ast.Name):
                    return fd.Inline(helpers[name])
                return None
            it = fd.Interp(lst.node, R.cls.name, oracle2, resolve=module_resolver(ctx.program, R.module), loop_unroll=40, max_paths=400)
            it.record_types = fd.record_types_of(R.module)
            try:
                paths = it.run(dict(seq_env))
            except (fd.TooManyPaths, RecursionError):
                break
            if len(paths) != 1 or paths[0].kind != "return":
                break
            got = concrete(paths[0].value)
            if got is None:
                break
            got = (got[0], list(got[1])) if isinstance(got, (tuple, list)) and len(got) == 2 and isinstance(got[1], (list, tuple)) else got
            want = reference_listing(sample)
            if got != want:
                first_bad = (sample, got, want, paths[0])
                ctx.violation("D5", lst, "model:listing-sequence", "after a listing with an active script, the listing %r is decoded as %r; it says %r: "
                              "what an earlier reply said is reported again" % (sample, got, want), node=lst.node,
                              witness="setactive(''), then listscripts(): the script that was active before is still reported active")
                return True
            seq_env = {k: v for k, v in paths[0].env.items() if k.startswith(lst.params[0] + ".")}
    if first_bad is None:
        ctx.holds("D2", "%s: %d sample listings (escaped quotes and backslashes, names ending in a backslash, literal payload lines, names "
                  "containing ACTIVE, non-ASCII) decode to the reference names" % (lst.qualname, decided))
        ctx.holds("D5", "%s: the active script of %d sample listings is the one whose quoted name is followed by ACTIVE" % (lst.qualname, decided))
        return True
    sample, got, want, p = first_bad
    # the names themselves are right and only the choice of the active one differs, or a name was taken for / with the marker: D5
    rule = "D5" if isinstance(got, tuple) and isinstance(want, tuple) and got[0] != want[0] and (
        set(filter(None, [got[0]] + list(got[1]))) <= set(filter(None, [want[0]] + list(want[1])))) else "D2"
    ctx.violation(rule, lst, "model:listing", "the listing %r is decoded as %r; it says %r" % (sample, got, want), node=p.node or lst.node,
                  witness="LISTSCRIPTS answered with %r" % sample)
    return True


def concrete(v):
    from sa import fd
    if isinstance(v, fd.Const) and isinstance(v.v, fd.Rec) and getattr(v.v, "order", None):
        return tuple(v.v.fields[k] for k in v.v.order)  # a NamedTuple is the tuple of its fields
    if isinstance(v, fd.Const):
        return v.v
    if isinstance(v, fd.Tup):
        items = [concrete(x) for x in v.items]
        return None if any(x is None and not (isinstance(y, fd.Const) and y.v is None) for x, y in zip(items, v.items)) else tuple(items)
    return None


def _d2_d5_syntactic(ctx, R, lst, proto, evaluated):
    # ---- D2 -----------------------------------------------------------------------
    ctx.rule("D2", "quoted-name pattern accepts RFC 5804 quoted strings, name group free of unescaped quotes, result unescaped")
    tv = tainted_vars(R, lst)
    name_calls = []
    proto_attrs = set(proto)
    for c in walk_no_nested(lst.node):
        if isinstance(c, ast.Call) and isinstance(c.func, ast.Attribute) and c.func.attr in ("match", "fullmatch") \
                and norm(c.func.value) == "re" and len(c.args) >= 2:
            pat = const_value(ctx.program, lst, c.args[0])
            if isinstance(pat, bytes) and any(isinstance(n, ast.Name) and n.id in tv for n in ast.walk(c.args[1])):
                fl = 0
                for a_ in c.args[2:]:
                    fl |= regex_flags(a_)
                name_calls.append((c, pat, fl))
        elif isinstance(c, ast.Call) and isinstance(c.func, ast.Attribute) and c.func.attr in ("match", "fullmatch") and c.args:
            # a pattern compiled elsewhere (instance attribute, or compiled where it is used) that is not one of the protocol recognisers
            pr = R.pattern_of(c.func.value, lst)
            if pr and pr[0] not in proto_attrs and isinstance(pr[1], bytes) and pr[1].startswith(b'"') \
                    and any(isinstance(n, ast.Name) and n.id in tv for n in ast.walk(c.args[0])):
                name_calls.append((c, pr[1], pr[2]))
    if len(name_calls) != 1:
        raise AnalysisError("D2", "listscripts: quoted-name pattern not identified (%d candidates)" % len(name_calls))
    ncall, npat, nflags = name_calls[0]
    try:
        NP = rx.Pattern(npat + rb"[\s\S]*", nflags)
        ref = rx.Pattern(b"(?:" + ms_spec.QUOTED + rb")(?: ACTIVE)?")
        d = rx.language_diff(ref, NP, mode="subset")
    except rx.Undecidable as e:
        raise AnalysisError("D2", "name pattern %r: %s" % (npat, e))
    if d is None:
        ctx.holds("D2", "name pattern %r accepts every RFC 5804 quoted string (+ ACTIVE)" % npat)
    else:
        ctx.violation("D2", lst, "quoted-language", "the name pattern %r does not match the quoted string %r" % (npat, d[0]), node=ncall,
                      witness="a script named with an escaped character is listed truncated or under a wrong name")
    from .c09 import _group_sub
    g1 = _group_sub(rx.Pattern(npat, nflags), 1)
    if g1 is None:
        raise AnalysisError("D2", "name pattern has no group 1")
    safe = rx.Pattern(rb'(?:[^"\\]|\\[\s\S])*')
    d = rx.language_diff(g1, safe, mode="subset")
    if d is None:
        ctx.holds("D2", "name group cannot contain an unescaped double quote")
    else:
        ctx.violation("D2", lst, "name-group-quote", "the name group can match %r (an unescaped quote or dangling backslash)" % (d[0],), node=ncall)
    # unescaping of group(1)
    mvar = None
    st = stmt_of(ncall)
    if isinstance(st, ast.Assign) and isinstance(st.targets[0], ast.Name):
        mvar = st.targets[0].id
    unesc = False
    uses = 0
    for c in walk_no_nested(lst.node):
        if isinstance(c, ast.Call) and isinstance(c.func, ast.Attribute) and c.func.attr == "group" and isinstance(c.func.value, ast.Name) \
                and c.func.value.id == mvar and c.args and const_value(ctx.program, lst, c.args[0]) == 1:
            uses += 1
            p = c._parent
            while p is not None and not isinstance(p, ast.stmt):
                if isinstance(p, ast.Call) and call_name(p) == "sub" and len(p.args) >= 2:
                    if len(p.args) >= 3:
                        a0, a1 = const_value(ctx.program, lst, p.args[0]), const_value(ctx.program, lst, p.args[1])
                    else:  # compiled pattern: P.sub(replacement, subject)
                        pr_ = R.pattern_of(p.func.value, lst) if isinstance(p.func, ast.Attribute) else None
                        a0, a1 = (pr_[1] if pr_ else None), const_value(ctx.program, lst, p.args[0])
                    if a0 in (rb"\\(.)", rb"\\([\s\S])", rb'\\(["\\])') and a1 in (rb"\1", rb"\g<1>"):
                        unesc = True
                if isinstance(p, ast.Call) and call_name(p) == "replace" and len(p.args) == 2:
                    chain = []
                    q = p
                    while isinstance(q, ast.Call) and call_name(q) == "replace" and len(q.args) == 2:
                        chain.append((const_value(ctx.program, lst, q.args[0]), const_value(ctx.program, lst, q.args[1])))
                        q = q.func.value
                    up = getattr(p, "_parent", None)
                    while isinstance(up, ast.Attribute) and isinstance(getattr(up, "_parent", None), ast.Call) and up.attr == "replace":
                        up = up._parent
                        chain.append((const_value(ctx.program, lst, up.args[0]), const_value(ctx.program, lst, up.args[1])) if len(up.args) == 2 else (None, None))
                        up = getattr(up, "_parent", None)
                    if (b'\\"', b'"') in chain and (b"\\\\", b"\\") in chain:
                        unesc = True
                p = getattr(p, "_parent", None)
    if evaluated:
        return  # unescaping, raw names and the ACTIVE lookup are decided by evaluation (listing_eval)
    if uses == 0:
        raise AnalysisError("D2", "use of the name group not found")
    if unesc:
        ctx.holds("D2", "captured name is unescaped before decoding")
    else:
        ctx.violation("D2", lst, "name-not-unescaped", "the captured quoted name is decoded without removing the escaping backslashes", node=ncall,
                      witness='the server lists "a\\"b"; the client reports a\\"b (or a\\)')

    # names that are NOT quoted strings (a literal's payload arrives as a bare line) carry no escaping: nothing may be removed from them
    cfgl = ctx.cfg(lst)

    def unmatched(fc):
        e, pol = fact_atom(fc)
        cp = cmp_parts(e)
        if cp and isinstance(cp[0], ast.Name) and cp[0].id == mvar and isinstance(cp[2], ast.Constant) and cp[2].value is None:
            return (cp[1] == "Is" and pol is True) or (cp[1] == "IsNot" and pol is False)
        return isinstance(e, ast.Name) and e.id == mvar and pol is False
    raw_bad = None
    for c in walk_no_nested(lst.node):
        if isinstance(c, ast.Call) and call_name(c) in ("sub", "replace", "translate") and any(
                isinstance(n, ast.Name) and n.id in tv for n in ast.walk(c)):
            nodes = cfgl.node_containing(c)
            if nodes and all(cfgl.guarded(x, unmatched) for x in nodes):
                raw_bad = raw_bad or c
    if raw_bad is not None:
        ctx.violation("D2", lst, "raw-name-unescaped", "a name that is not a quoted string (literal payload) is rewritten by %s: backslashes that "
                      "belong to the name are removed" % norm(raw_bad)[:60], node=raw_bad,
                      witness='the server sends the name a\\b as a literal {3}; the client lists it as ab')
    else:
        ctx.holds("D2", "names that did not match the quoted pattern are decoded without unescaping")

    # ---- D5 -----------------------------------------------------------------------
    ctx.rule("D5", "ACTIVE marker recognised only in the group after the name, anchored")
    act = [a for a, k in proto.items() if k == "active"]
    nact = 0
    for c in walk_no_nested(lst.node):
        if isinstance(c, ast.Call) and isinstance(c.func, ast.Attribute) and c.func.attr in ("match", "search", "fullmatch"):
            pr = R.pattern_of(c.func.value, lst)
            if pr and pr[0] in act:
                nact += 1
                a0 = c.args[0] if c.args else None
                ok = isinstance(a0, ast.Call) and isinstance(a0.func, ast.Attribute) and a0.func.attr == "group" \
                    and isinstance(a0.func.value, ast.Name) and a0.func.value.id == mvar and a0.args \
                    and const_value(ctx.program, lst, a0.args[0]) not in (0, 1, TOP)
                if ok and c.func.attr != "search":
                    ctx.holds("D5", "%s: ACTIVE looked up in %s" % (lst.qualname, norm(a0)))
                else:
                    ctx.violation("D5", lst, "active-in-name", "the ACTIVE marker is searched in %s (%s), which includes the script name"
                                  % (norm(a0) if a0 is not None else "?", c.func.attr), node=c,
                                  witness='a script named "ACTIVE" or "inactive" is reported as the active one')
    ctx.need("D5", "uses of the ACTIVE pattern", nact, 1)



def decoder_rules(ctx, R, skip_d3=False):
    lst = R.methods.get("listscripts")
    get = R.methods.get("getscript")
    if lst is None or get is None:
        raise AnalysisError("D", "listscripts/getscript not found")
    proto = {}
    for a, (pat, flags, node) in R.regex_attrs.items():
        if isinstance(pat, bytes):
            if pat.startswith(rb"\{"):
                proto[a] = "size"
            elif b"OK" in pat:
                proto[a] = "status"
            elif b"ACTIVE" in pat.upper():
                proto[a] = "active"
    if "size" not in proto.values() or "status" not in proto.values():
        raise AnalysisError("D1", "protocol recognisers not identified")

    # ---- D1 -----------------------------------------------------------------------
    ctx.rule("D1", "reply content never flows into the size/status recognisers")
    nfun = 0
    for name, f in R.methods.items():
        tv = tainted_vars(R, f)
        if not tv:
            continue
        nfun += 1
        hit = False
        for c in walk_no_nested(f.node):
            if isinstance(c, ast.Call) and isinstance(c.func, ast.Attribute) and c.func.attr in ("match", "search", "fullmatch", "findall", "split", "sub"):
                pr = R.pattern_of(c.func.value, f)
                if not pr or proto.get(pr[0]) not in ("size", "status"):
                    continue
                if any(isinstance(n, ast.Name) and n.id in tv for a_ in c.args for n in ast.walk(a_)):
                    hit = True
                    ctx.violation("D1", f, "data-as-protocol:%s" % proto[pr[0]], "reply data (%s) is matched against the %s recogniser: stored "
                                  "data that looks like protocol is dropped or misread" % (norm(c.args[0]), proto[pr[0]]), node=c,
                                  witness="a script whose first line is `{5}` / a script named `{7}`")
        if not hit:
            ctx.holds("D1", "%s: content variables %s never reach a protocol recogniser" % (f.qualname, sorted(tv)))
    ctx.need("D1", "functions receiving reply content", nfun, 3)

    # ---- D2 / D5 -------------------------------------------------------------------
    ctx.rule("D2", "quoted-name pattern accepts RFC 5804 quoted strings, name group free of unescaped quotes, result unescaped")
    ctx.rule("D5", "ACTIVE marker recognised only in the group after the name, anchored")
    evaluated = listing_eval(ctx, R, lst)
    try:
        _d2_d5_syntactic(ctx, R, lst, proto, evaluated)
    except AnalysisError as e:
        if not evaluated:
            raise
        ctx.notice("D2", "no per-line name pattern to compare with the quoted-string language (%s); the decoder is decided by evaluation" % e.why)

    # ---- D6 -----------------------------------------------------------------------
    ctx.rule("D6", "what a public operation returns is the caller's: no list or dict it hands out is also kept on the client")
    nlists = 0
    for name_, f_ in R.methods.items():
        if name_.startswith("_"):
            continue
        sn_ = f_.params[0] if f_.params else "self"
        mutable = set()
        for a_ in walk_no_nested(f_.node):
            if isinstance(a_, ast.Assign) and len(a_.targets) == 1 and isinstance(a_.targets[0], ast.Name) and (
                    isinstance(a_.value, (ast.List, ast.Dict, ast.ListComp, ast.DictComp)) or (
                        isinstance(a_.value, ast.Call) and isinstance(a_.value.func, ast.Name) and a_.value.func.id in ("list", "dict", "set"))):
                mutable.add(a_.targets[0].id)
        if not mutable:
            continue
        nlists += 1

        def bare(e, names):
            """names of `names` that e holds as they are (not under list(), tuple(), a slice or a copy)"""
            out = set()
            if isinstance(e, ast.Name) and e.id in names:
                out.add(e.id)
            elif isinstance(e, (ast.Tuple, ast.List)):
                for x in e.elts:
                    out |= bare(x, names)
            return out
        returned = set()
        for r_ in walk_no_nested(f_.node):
            if isinstance(r_, ast.Return) and r_.value is not None:
                returned |= bare(r_.value, mutable)
        for a_ in walk_no_nested(f_.node):
            if isinstance(a_, ast.Assign) and any(isinstance(t, ast.Attribute) and isinstance(t.value, ast.Name) and t.value.id == sn_ for t in a_.targets):
                both = bare(a_.value, mutable) & returned
                for nm in sorted(both):
                    ctx.violation("D6", f_, "result-kept:%s" % nm, "%s returns the list/dict `%s` and also keeps that very object in %s: what the "
                                  "caller does to the result changes what the client will answer (or act upon) next time"
                                  % (f_.qualname, nm, norm(a_.targets[0])), node=a_,
                                  witness="listscripts(); the caller removes a name from the result; an emulated rename onto that name overwrites the script")
    if not any(f.rule == "D6" for f in ctx.findings):
        ctx.holds("D6", "%d public operations build a list or dict; none is both returned and kept" % nlists)

    # ---- D3 -----------------------------------------------------------------------
    ctx.rule("D3", "the assembler keeps literal payload apart from line text")
    asm = R.assembler
    acc_block, acc_line = set(), set()
    for st in walk_no_nested(asm.node):
        if isinstance(st, ast.AugAssign) and isinstance(st.target, ast.Name):
            if any(c_ for c_ in self_calls(asm, R.block_reader.name) if contains(st.value, c_)):
                acc_block.add(st.target.id)
            if any(c_ for c_ in self_calls(asm, R.line_reader.name) if contains(st.value, c_)) or any(
                    isinstance(n, ast.Name) and n.id == "line" for n in ast.walk(st.value)):
                acc_line.add(st.target.id)
    if not acc_block:
        raise AnalysisError("D3", "assembler: accumulation of the block reader's result not recognised")
    if acc_block & acc_line:
        ctx.violation("D3", "Client.<response assembler>", "literal-merged-into-lines", "literal payload and the text of protocol lines are concatenated into the same "
                      "buffer (%s) and later re-split by lines and quotes" % sorted(acc_block & acc_line), node=asm.node, file=asm.file,
                      witness="LISTSCRIPTS reply `{6}\\r\\nscript ACTIVE\\r\\n`: the active script is reported as a script named 'script ACTIVE'")
    else:
        ctx.holds("D3", "literal payload accumulated separately")

    # ---- D4 -----------------------------------------------------------------------
    ctx.rule("D4", "getscript returns the join of all decoded lines: no filter, slice or content-dependent branch")
    tvg = tainted_vars(R, get)
    probs = []
    # the script is decoded strictly: an error policy that replaces or drops undecodable octets hands back another script
    for n in walk_no_nested(get.node):
        if isinstance(n, ast.Call) and isinstance(n.func, ast.Attribute) and n.func.attr == "decode" and any(
                isinstance(x, ast.Name) and x.id in tvg for x in ast.walk(n.func.value)):
            pol = n.args[1] if len(n.args) > 1 else next((k.value for k in n.keywords if k.arg == "errors"), None)
            if pol is not None:
                pv = const_value(ctx.program, get, pol)
                if pv != "strict":
                    ctx.violation("D4", get, "lossy-decode", "getscript decodes the downloaded script with the error policy %s: octets that are not "
                                  "valid UTF-8 are replaced or dropped instead of being reported" % (repr(pv) if pv is not TOP else norm(pol)[:40]),
                                  node=n, witness="a Latin-1 script comes back with U+FFFD characters; an emulated rename stores the altered copy and "
                                  "deletes the original")
    for n in walk_no_nested(get.node):
        if isinstance(n, ast.Subscript) and any(isinstance(x, ast.Name) and x.id in tvg for x in ast.walk(n.value)):
            probs.append(("subscript", n))
        if isinstance(n, (ast.If, ast.While)) and any(isinstance(x, ast.Name) and x.id in tvg for x in ast.walk(n.test)):
            t_ = n.test
            none_test = isinstance(t_, ast.Compare) and len(t_.ops) == 1 and isinstance(t_.ops[0], (ast.Is, ast.IsNot)) \
                and isinstance(t_.comparators[0], ast.Constant) and t_.comparators[0].value is None and isinstance(t_.left, ast.Name)
            type_test = isinstance(t_, ast.Call) and isinstance(t_.func, ast.Name) and t_.func.id == "isinstance"
            if not none_test and not type_test:  # `x is None` / isinstance(x, bytes) do not look at what the script says
                probs.append(("branch", n))
        if isinstance(n, (ast.ListComp, ast.GeneratorExp)) and any(g.ifs for g in n.generators):
            probs.append(("filter", n))
        if isinstance(n, ast.Call) and isinstance(n.func, ast.Attribute) and n.func.attr in ("strip", "rstrip", "lstrip", "replace", "pop", "remove") \
                and any(isinstance(x, ast.Name) and x.id in tvg for x in ast.walk(n.func.value)):
            probs.append(("edit:" + n.func.attr, n))
    for kind, n in probs:
        ctx.violation("D4", get, "content-%s" % kind, "getscript alters the downloaded script depending on its content: %s" % norm(n)[:70],
                      node=n, witness="a script line that looks like protocol (or has significant whitespace) is dropped or changed")
    # lines are split on the bytes (CR / LF / CRLF only); str.splitlines() also splits on FF, VT, FS, GS, RS, NEL, LS, PS
    for c in walk_no_nested(get.node):
        if isinstance(c, ast.Call) and isinstance(c.func, ast.Attribute) and c.func.attr == "splitlines":
            recv = c.func.value
            if isinstance(recv, ast.Name):
                ds = [a.value for a in walk_no_nested(get.node) if isinstance(a, ast.Assign) and any(
                    isinstance(t, ast.Name) and t.id == recv.id for t in a.targets)]
                dec = [d for d in ds if isinstance(d, ast.Call) and call_name(d) in ("decode", "str")]
                if dec:
                    recv = dec[0]  # on the path through that definition the value split is decoded text
            if isinstance(recv, ast.Call) and call_name(recv) in ("decode", "str") or any(
                    isinstance(x, ast.Call) and call_name(x) == "decode" for x in ast.walk(recv)):
                probs.append(("text-splitlines", c))
                ctx.violation("D4", get, "text-splitlines", "getscript splits the DECODED text into lines: str.splitlines() also breaks lines at "
                              "FF, VT, FS/GS/RS, NEL, U+2028 and U+2029, which are data, not line endings", node=c,
                              witness="a script containing U+2028 inside a string comes back with that line broken in two")
            elif isinstance(recv, ast.Name) and recv.id in tvg:
                ctx.holds("D4", "lines are split on the reply bytes (%s.splitlines())" % recv.id)
    rets = [r for r in walk_no_nested(get.node) if isinstance(r, ast.Return) and r.value is not None
            and any(isinstance(x, ast.Name) and x.id in tvg for x in ast.walk(r.value))]
    if not rets:
        ctx.violation("D4", get, "no-content-return", "getscript never returns the downloaded content", node=get.node)
    for r in rets:
        v = r.value
        ok = isinstance(v, ast.Call) and isinstance(v.func, ast.Attribute) and v.func.attr == "join" \
            and const_value(ctx.program, get, v.func.value) == "\n"
        if ok and not probs:
            ctx.holds("D4", "%s: returns %s" % (get.qualname, norm(v)[:70]))
        elif not ok:
            ctx.violation("D4", get, "return-shape", "getscript returns %s, not the newline-join of the decoded lines" % norm(v)[:70], node=r)
