"""C19 - What you put into a filter is what you read back (thin).

B1 kind exhaustiveness builder <-> reader (+ negation folding), B2 no lossy
re-parse of rendered text on comma / quotes, B3 getters go through getfilter.
"""
import ast

from sa.model import AnalysisError, walk_no_nested, norm, call_name, stmt_of, mangle
from sa.util import const_value, fact_atom
from .c12 import FactoryRoles
from .proles import ParserRoles

KINDS = ["header", "exists", "size", "envelope", "address", "body", "currentdate"]


def _what(e):
    """stable name of the value a comma test looks at: the slot it comes from (`key-list`), else the expression"""
    for n in ast.walk(e):
        if isinstance(n, ast.Subscript) and isinstance(n.slice, ast.Constant) and isinstance(n.slice.value, str):
            return n.slice.value
    return norm(e)[:40]


READER_SAMPLES = [
    ("header", "HeaderCommand", {"match-type": ":contains", "header-names": '"Subject"', "key-list": '"x y"'}, {}),
    ("header", "HeaderCommand", {"match-type": ":is", "header-names": ['"To"', '"Cc"'], "key-list": ['"a"', '"b"']}, {}),
    ("header", "HeaderCommand", {"match-type": ":matches", "header-names": '"To"', "key-list": ['"a"', '"b"']}, {}),
    ("address", "AddressCommand", {"match-type": ":is", "header-list": '"from"', "key-list": '"a@b.c"'}, {}),
    ("address", "AddressCommand", {"match-type": ":matches", "header-list": ['"from"', '"to"'], "key-list": ['"*@b.c"']}, {}),
    ("envelope", "EnvelopeCommand", {"match-type": ":contains", "header-list": '"to"', "key-list": '"list"'}, {}),
    ("envelope", "EnvelopeCommand", {"match-type": ":is", "header-list": ['"from"'], "key-list": ['"a"', '"b"']}, {}),
    ("exists", "ExistsCommand", {"header-names": '"List-Id"'}, {}),
    ("exists", "ExistsCommand", {"header-names": ['"A"', '"B"']}, {}),
    ("body", "BodyCommand", {"body-transform": ":text", "match-type": ":contains", "key-list": '"sale"'}, {}),
    ("body", "BodyCommand", {"body-transform": ":raw", "match-type": ":is", "key-list": ['"a"', '"b"']}, {}),
    ("currentdate", "CurrentdateCommand", {"zone": ":zone", "match-type": ":is", "date-part": '"date"', "key-list": '"2019-02-26"'},
     {"zone": '"+0100"'}),
    ("currentdate", "CurrentdateCommand", {"zone": ":zone", "match-type": ":value", "date-part": '"date"', "key-list": '"2019-02-26"'},
     {"zone": '"+0100"', "match-type": '"ge"'}),
    ("currentdate", "CurrentdateCommand", {"zone": ":zone", "match-type": ":count", "date-part": '"hour"', "key-list": ['"1"', '"2"']},
     {"zone": '"-0500"', "match-type": '"lt"'}),
]


# what each of READER_SAMPLES was built from (the tuple addfilter takes): a string is a string, a list is a list - for the kinds whose
# builder tells them apart (header, address, envelope); exists, body and currentdate take their values flattened
READER_EXPECTED = [
    ("Subject", ":contains", "x y"),
    (["To", "Cc"], ":is", ["a", "b"]),
    ("To", ":matches", ["a", "b"]),
    ("address", ":is", "from", "a@b.c"),
    ("address", ":matches", ["from", "to"], ["*@b.c"]),
    ("envelope", ":contains", ["to"], ["list"]),
    ("envelope", ":is", ["from"], ["a", "b"]),
    ("exists", "List-Id"),
    ("exists", "A", "B"),
    ("body", ":text", ":contains", "sale"),
    ("body", ":raw", ":is", "a", "b"),
    ("currentdate", ":zone", "+0100", ":is", "date", "2019-02-26"),
    ("currentdate", ":zone", "+0100", ":value", "ge", "date", "2019-02-26"),
    ("currentdate", ":zone", "-0500", ":count", "lt", "hour", "1", "2"),
]


def reader_eval(ctx, R, gc):
    """B1 by evaluation: get_filter_conditions interpreted over stand-in trees [K], [not, K] and [not, K, K'] for every negatable kind K
    and sample stored arguments.  What is read for `not K` must be what is read for K with the negation folded into the match-type tag
    (:is -> :notis; exists -> notexists) and nothing else changed, and the negation must not reach K'.
    -> ("ok", n) | ("bad", what) | None when the interpreter cannot follow the reader."""
    from sa import fd
    prog = ctx.program
    cm = prog.module("commands")

    def class_names(e):
        out = []
        for x in (e.elts if isinstance(e, ast.Tuple) else [e]):
            out.append(x.attr if isinstance(x, ast.Attribute) else (x.id if isinstance(x, ast.Name) else None))
        return out

    def on_rec(rec, m, k, args, kw, st):
        env = {"%s.%s" % (m.params[0], f): fd.Const(v) for f, v in rec.fields.items()}
        env[m.params[0]] = fd.Const(rec)
        for p_, a_ in zip(m.params[1:], args):
            env[p_] = a_
        for k_, v_ in kw.items():
            env[k_] = v_
        sub = fd.Interp(m.node, k.name, oracle, loop_unroll=12, max_depth=4, max_paths=300)
        sub.getattr_hook = getattr_hook
        sub.record_types = rtypes
        rs = sub.run(env)
        out = []
        for p_ in rs:
            out.append(fd.Exc(p_.value, p_.node) if p_.kind == "raise" else (p_.value, None))
        return out

    def oracle(interp, e, name, recv, args, kw, st):
        if name == "isinstance" and len(e.args) == 2 and args and isinstance(args[0], fd.Const) and isinstance(args[0].v, fd.Rec):
            names = class_names(e.args[1])
            if None in names or not all(prog.cls(n) is not None for n in names):
                return None
            rc = prog.cls(args[0].v.cls)
            mro = [c.name for c in prog.mro(rc)] if rc is not None else [args[0].v.cls]
            return [(fd.Const(any(n in mro for n in names)), None)]
        if name == "walk" and isinstance(recv, fd.Const) and isinstance(recv.v, fd.Rec) and "nodes" in recv.v.fields:
            return [(fd.Const(list(recv.v.fields["nodes"])), None)]
        if isinstance(recv, fd.Const) and isinstance(recv.v, fd.Rec) and isinstance(e.func, ast.Attribute):
            rc = prog.cls(recv.v.cls)
            if rc is not None:
                for k in prog.mro(rc):
                    m = k.methods.get(e.func.attr) or k.methods.get(mangle(k.name, e.func.attr))
                    if m is not None:
                        return on_rec(recv.v, m, k, args, kw, st)
        if name and name.startswith("self.") and name[5:] == "getfilter":
            return None
        if name and name.startswith("self.") and interp.clsname == R.cls.name and name[5:] in R.m and R.m[name[5:]].node is not interp.f:
            return fd.Inline(R.m[name[5:]])
        if name and name.startswith("self.") and interp.clsname and prog.cls(interp.clsname) is not None:
            for k in prog.mro(prog.cls(interp.clsname)):
                m = k.methods.get(name[5:]) or k.methods.get(mangle(k.name, name[5:]))
                if m is not None and m.node is not interp.f and "self" in interp.__dict__.get("_rec_env", {"self": 1}):
                    return fd.Inline(m)
        fn = e.func
        if isinstance(fn, ast.Attribute) and isinstance(fn.value, ast.Name) and fn.value.id in prog.modules and fn.attr in prog.modules[fn.value.id].funcs:
            return fd.Inline(prog.modules[fn.value.id].funcs[fn.attr])
        if isinstance(fn, ast.Name) and interp.f is not None:
            for mod in (cm, prog.module("factory"), prog.modules.get("tools")):
                if mod is not None and fn.id in mod.funcs:
                    return fd.Inline(mod.funcs[fn.id])
        return None

    def getattr_hook(interp, rec, e, st):
        rc = prog.cls(rec.cls)
        if rc is not None:
            for k in prog.mro(rc):
                m = k.methods.get(e.attr)
                if m is not None and "property" in m.decorators:
                    out = []
                    for r_ in on_rec(rec, m, k, [], {}, st):
                        out.append((r_, st) if isinstance(r_, fd.Exc) else (r_[0], st))
                    return out
        return [(fd.Unknown(norm(e)), st)]
    rtypes = fd.record_types_of(cm, prog.module("factory"), prog.modules.get("tools"))

    def read(nodes):
        flt = fd.Rec("IfCommand", nodes=nodes, name="if")
        def orc(interp, e, name, recv, args, kw, st):
            if name and name.startswith("self.") and name[5:] == "getfilter":
                return [(fd.Const(flt), None)]
            return oracle(interp, e, name, recv, args, kw, st)
        it = fd.Interp(gc.node, R.cls.name, orc, loop_unroll=6, max_depth=4, max_paths=300)
        it.getattr_hook = getattr_hook
        it.record_types = rtypes
        try:
            ps = it.run({gc.params[1]: fd.Const("f")})
        except (fd.TooManyPaths, RecursionError):
            return None
        if len(ps) == 1 and ps[0].kind == "raise":
            return ("raises", ps[0].value, ps[0].node)
        if len(ps) != 1 or ps[0].kind != "return":
            return None
        return _plain(ps[0].value)

    def mk(kind, cls, a, x):
        return fd.Rec(cls, name=kind, arguments=dict(a), extra_arguments=dict(x))
    nt = fd.Rec("NotCommand", name="not", arguments={}, extra_arguments={})
    other = mk("header", "HeaderCommand", {"match-type": ":contains", "header-names": '"Subject"', "key-list": '"x"'}, {})
    other_plain = read([other])
    if not (isinstance(other_plain, list) and len(other_plain) == 1):
        return None
    n = 0
    for kind, cls, a, x in READER_SAMPLES:
        if prog.cls(cls) is None:
            continue
        node = mk(kind, cls, a, x)
        plain, neg, seq = read([node]), read([nt, node]), read([nt, node, other])
        exp_ = READER_EXPECTED[READER_SAMPLES.index((kind, cls, a, x))]
        if isinstance(plain, list) and len(plain) == 1 and isinstance(plain[0], tuple) and plain[0] != exp_:
            return ("bad", "a %s condition built from %r reads back as %r" % (kind, exp_, plain[0]), None, "model:reader-shape")
        if plain is None or neg is None or seq is None:
            return None
        for r_, what in ((plain, kind), (neg, "not " + kind)):
            if isinstance(r_, tuple) and r_ and r_[0] == "raises":
                return ("bad", "reading back `%s` with stored arguments %r raises %s" % (what, dict(a, **x), r_[1]), r_[2], "raises:%s" % kind)
        if isinstance(seq, tuple) and seq and seq[0] == "raises":
            return None
        if not (isinstance(plain, list) and len(plain) == 1 and isinstance(plain[0], tuple)):
            return ("bad", "a single %s condition %r is read back as %r" % (kind, a, plain))
        want = _fold(plain[0], a.get("match-type"), kind)
        n += 1
        if not (isinstance(neg, list) and len(neg) == 1 and neg[0] == want):
            return ("bad", "`not %s` with stored arguments %r reads back as %r; the same test without `not` reads %r, so the negated one is %r"
                    % (kind, dict(a, **x), neg[0] if isinstance(neg, list) and len(neg) == 1 else neg, plain[0], want))
        if not (isinstance(seq, list) and len(seq) == 2 and seq[0] == want and seq[1] == other_plain[0]):
            return ("bad", "[not %s, header] reads back as %r; the second test alone reads %r: the negation of the first test reaches the second"
                    % (kind, seq, other_plain[0]))
    return ("ok", n) if n >= 6 else None


def _fold(t, tag, kind):
    if kind == "exists":
        return ("not" + t[0],) + tuple(t[1:])
    out, done = [], False
    for v in t:
        if not done and isinstance(v, str) and v == tag:
            out.append(":not" + v[1:])
            done = True
        else:
            out.append(v)
    return tuple(out)


def _plain(v):
    from sa import fd
    if isinstance(v, fd.Const):
        return v.v
    if isinstance(v, fd.Tup):
        items = [_plain(x) for x in v.items]
        return tuple(items)
    return None


def run(ctx):
    R = FactoryRoles(ctx, "B")
    PR = ParserRoles(ctx, "B")
    prog = ctx.program
    ctx.explanation = (
        "(B1) every condition kind the builder can instantiate (header, exists, size, envelope, address, body, "
        "currentdate) is in the reader's class tuple and defines args_as_tuple, and every kind the builder can negate "
        "has a folding branch in the reader; (B2) the read-back path does not recover values by splitting rendered text "
        "on commas or by deciding 'list or string' from the presence of a comma; (B3) the three getters obtain the "
        "filter through getfilter (which unwraps a disabled filter), never through filters[...]['content'] directly; (F1-F6, "
        "shared with C06) the rendered script a set is reloaded from requires every extension it uses and carries user values only "
        "inside escaped string literals.")
    ctx.not_decided = "equality of what is read back with what was supplied, for all values and combinations (behavioural)."
    gc = R.m.get("get_filter_conditions")
    ga = R.m.get("get_filter_actions")
    gm = R.m.get("get_filter_matchtype")
    if not gc or not ga or not gm:
        raise AnalysisError("B", "getters not found")

    # ---- B1 -----------------------------------------------------------------------
    ctx.rule("B1", "condition kinds: builder <-> reader tuple, args_as_tuple, negation folding")
    # kinds the builder instantiates (constant names in __create_filter / __build_condition)
    built = set()
    neg_dispatch = set()
    for f in R.builders():
        for c in walk_no_nested(f.node):
            if isinstance(c, ast.Call) and call_name(c) == "get_command_instance" and c.args:
                v = const_value(prog, f, c.args[0])
                if isinstance(v, str):
                    built.add(v)
        # kinds named only as keys of a dispatch table {"size": self.__build_size, ...}
        for d in walk_no_nested(f.node):
            if isinstance(d, ast.Dict):
                for k_, v_ in zip(d.keys, d.values):
                    kv = const_value(prog, f, k_) if k_ is not None else None
                    if isinstance(kv, str) and isinstance(v_, ast.Attribute) and v_.attr in R.m:
                        built.add(kv)
                        g = R.m[v_.attr]
                        if any(isinstance(a, ast.Assign) and "negat" in norm(a.targets[0]) and const_value(prog, g, a.value) is True
                               for a in walk_no_nested(g.node)):
                            neg_dispatch.add(kv)
    reader_classes = set()
    for c in walk_no_nested(gc.node):
        if isinstance(c, ast.Call) and call_name(c) == "isinstance" and len(c.args) == 2 and isinstance(c.args[1], ast.Tuple):
            for t in c.args[1].elts:
                reader_classes.add(t.attr if isinstance(t, ast.Attribute) else norm(t))
    if len(reader_classes) < 3:
        raise AnalysisError("B1", "reader's class tuple not found in get_filter_conditions")
    table = PR.table()
    for k in KINDS:
        cls = "%sCommand" % k.capitalize()
        if k not in built:
            ctx.notice("B1", "the builder does not instantiate %s" % k)
            continue
        if cls in reader_classes:
            ctx.holds("B1", "%s is in the reader's class tuple" % cls)
        else:
            ctx.violation("B1", gc, "kind-not-read:%s" % k, "conditions of kind `%s` are built but never read back (not in the reader's class tuple)" % k,
                          node=gc.node, witness="get_filter_conditions returns [] for a filter made of one %s condition" % k)
        c = prog.cls(cls)
        if c is not None and prog.method(c, "args_as_tuple") is not None:
            ctx.holds("B1", "%s defines args_as_tuple" % cls)
        else:
            ctx.violation("B1", gc, "no-args-as-tuple:%s" % k, "%s has no args_as_tuple" % cls, node=gc.node,
                          witness="reading back a %s condition raises AttributeError" % k)
    # negation folding and its scope, by evaluation over stand-in trees when the interpreter can follow the reader
    try:
        rev = reader_eval(ctx, R, gc)
    except RecursionError:
        rev = None
    if rev is not None and rev[0] == "bad":
        ctx.violation("B1", gc, rev[3] if len(rev) > 3 else "model:reader", rev[1], node=rev[2] if len(rev) > 2 and rev[2] is not None else gc.node,
                      witness="the condition read back differs from the one put in (or reading raises)")
    elif rev is not None:
        ctx.holds("B1", "%s: for %d sample tests (string and list arguments of header, address, envelope, exists, body, currentdate) `not T` reads "
                  "back as T with the negation folded into the match-type tag / name, and the negation does not reach the next test"
                  % (gc.qualname, rev[1]))
    if rev is None:
        _negation_syntactic(ctx, R, prog, gc, neg_dispatch)
    _b2_to_b4(ctx, R, PR, prog, gc, ga, gm)


def _negation_syntactic(ctx, R, prog, gc, neg_dispatch):
    # negation: which kinds can the builder negate?
    neg_tag = set()   # via ":not..." tag
    src = R.create
    for st in walk_no_nested(src.node):
        if isinstance(st, ast.If) and isinstance(st.test, ast.Compare) and norm(st.test.left) == "cname" and len(st.test.ops) == 1 \
                and isinstance(st.test.ops[0], ast.Eq):
            kind = const_value(prog, src, st.test.comparators[0])
            if isinstance(kind, str) and any(isinstance(a, ast.Assign) and norm(a.targets[0]) == "negate" for b_ in st.body for a in ast.walk(b_)):
                neg_tag.add(kind)
    # header fallback negates through the else branch
    if any("build_condition" in norm(c) for b_ in R.builders() for c in walk_no_nested(b_.node) if isinstance(c, ast.Call)):
        neg_tag.add("header")
    neg_tag |= neg_dispatch
    folded = set()
    for c in walk_no_nested(gc.node):
        if isinstance(c, ast.Compare) and "node.name" in norm(c.left):
            v = const_value(prog, gc, c.comparators[0])
            if isinstance(v, str):
                folded.add(v)
            elif isinstance(v, (list, tuple)):
                folded |= set(v)
    for k in sorted(neg_tag & set(KINDS)):
        if k in folded:
            ctx.holds("B1", "negated %s conditions are folded back to their :not... form" % k)
        else:
            ctx.violation("B1", gc, "negation-not-folded:%s" % k, "the builder can negate `%s` conditions but the reader has no folding branch for them"
                          % k, node=gc.node, witness="a :not... %s condition reads back without its negation" % k)
    # prefix negation (notexists etc.): any kind can be prefixed with "not"; the property lists notexists
    if "exists" in folded:
        ctx.holds("B1", "not-prefixed exists is folded back")
    else:
        ctx.violation("B1", gc, "negation-not-folded:exists", "`notexists` conditions read back as `exists`", node=gc.node)

    # a consumed negation is cleared before the next condition: every path from the `negate` test to the append resets the flag
    cfgc = ctx.cfg(gc)
    apps = [st for st in walk_no_nested(gc.node) if isinstance(st, ast.Expr) and isinstance(st.value, ast.Call) and call_name(st.value) == "append"
            and "conditions" in norm(st.value.func.value)]
    if not apps:
        raise AnalysisError("B1", "get_filter_conditions: append of a read condition not found")

    def neg_false(fc):
        e, pol = fact_atom(fc)
        return isinstance(e, ast.Name) and e.id == "negate" and pol is False
    resets = [x for x in cfgc.stmt_nodes() if isinstance(x.ast, ast.Assign) and any(isinstance(t, ast.Name) and t.id == "negate" for t in x.ast.targets)
              and const_value(prog, gc, x.ast.value) is False]
    def sets_negate(m):
        return m.kind == "stmt" and isinstance(m.ast, ast.Assign) and any(isinstance(t, ast.Name) and t.id == "negate" for t in m.ast.targets) \
            and m not in resets
    if all(cfgc.guarded(n, neg_false, kill_pred=sets_negate, establish=lambda m: m in resets) for st in apps for n in cfgc.nodes_for(st)):
        ctx.holds("B1", "a pending negation is cleared on every path before the condition is recorded")
    else:
        ctx.violation("B1", gc, "negation-leaks", "a condition can be recorded while `negate` is still set: the negation of one condition leaks onto "
                      "the next one", node=apps[0],
                      witness='[("notexists","List-Id"), ("Subject",":contains","x")] reads back with the second condition negated')



def _b2_to_b4(ctx, R, PR, prog, gc, ga, gm):
    # ---- B2 -----------------------------------------------------------------------
    ctx.rule("B2", "read-back does not decide or split on commas in rendered text")
    n = 0
    readers = []
    for c in prog.subclasses("Command"):
        f = c.methods.get("args_as_tuple")
        if f is not None:
            readers.append(f)
    tl = prog.module("tools").funcs.get("to_list") if "tools" in prog.modules else None
    if tl is not None:
        readers.append(tl)
    for f in readers:
        hit = False
        for x in walk_no_nested(f.node):
            if isinstance(x, ast.Compare) and len(x.ops) == 1 and isinstance(x.ops[0], (ast.In, ast.NotIn)) and isinstance(x.left, ast.Constant) \
                    and x.left.value == ",":
                hit = True
                n += 1
                ctx.violation("B2", f, "comma-decides:%s" % _what(x.comparators[0]), "%s decides `list or single string` from the presence of a comma (%s): a "
                              "string value containing a comma is read back as several values" % (f.qualname, norm(x)[:50]), node=x,
                              witness="(\"Subject\", \":is\", \"a,b\") reads back as (\"Subject\", \":is\", \"a\", \"b\")")
            if isinstance(x, ast.Call) and isinstance(x.func, ast.Attribute) and x.func.attr == "split" and x.args \
                    and isinstance(x.args[0], ast.Constant) and x.args[0].value == ",":
                hit = True
                n += 1
                ctx.violation("B2", f, "comma-split", "%s recovers list items by splitting rendered text on commas: an item containing a comma is "
                              "read back as two" % f.qualname, node=x,
                              witness="envelope with key list [\"a,b\"] reads back as [\"a\", \"b\"]")
        for x in walk_no_nested(f.node):
            if isinstance(x, ast.Call) and isinstance(x.func, ast.Attribute) and x.func.attr in ("strip", "lstrip", "rstrip"):
                a = const_value(prog, f, x.args[0]) if x.args else None
                # blanks removed BEFORE the quotes are (`v.strip().strip('"')`) lie outside the quoted string: they are not part of the value
                par = getattr(x, "_parent", None)
                outer = isinstance(par, ast.Attribute) and par.attr in ("strip", "lstrip", "rstrip") and isinstance(getattr(par, "_parent", None), ast.Call) \
                    and par._parent.args and const_value(prog, f, par._parent.args[0]) == '"'
                if outer and (a is None or (isinstance(a, str) and '"' not in a and not a.strip())):
                    continue
                if a != '"':
                    hit = True
                    ctx.violation("B2", f, "strip-eats-value:%s" % norm(x)[:40], "%s removes %s from the ends of a value, not only the quotes: "
                                  "leading/trailing characters that belong to the value are lost" % (f.qualname, "whitespace" if a is None else repr(a)),
                                  node=x, witness='body :contains " sale " reads back as "sale"')
        if not hit:
            ctx.holds("B2", "%s: no comma-based decision or split, quotes stripped only" % f.qualname)
    ctx.need("B2", "read-back functions", len(readers), 6)

    # ---- B3 -----------------------------------------------------------------------
    ctx.rule("B3", "getters go through getfilter (disabled filters are unwrapped)")
    for g in (gc, ga, gm):
        uses = any(isinstance(c, ast.Call) and call_name(c) == "getfilter" for c in walk_no_nested(g.node))
        direct = any(isinstance(s_, ast.Subscript) and const_value(prog, g, s_.slice) == "content" for s_ in walk_no_nested(g.node)) or any(
            isinstance(a, ast.Attribute) and a.attr == "filters" for a in walk_no_nested(g.node))
        if uses and not direct:
            ctx.holds("B3", "%s reads the filter through getfilter" % g.qualname)
        else:
            ctx.violation("B3", g, "bypasses-getfilter", "%s does not obtain the filter through getfilter: a disabled filter is read with its "
                          "`if false` wrapper" % g.qualname, node=g.node,
                          witness="conditions of a disabled filter read back as [] / the wrapper's test")
    # "irrespective of whether the filter is currently disabled": getfilter unwraps by the flag, so flag and wrapping must stay paired
    from .c12 import o2, o5
    o2(ctx, R)
    o5(ctx, R)
    # "... and on a set reloaded from its rendered script": values must come out of the renderer as string literals
    # (F1-F6 of C06: the require line covers every tag used, values are quoted and escaped)
    from .c06 import factory_rules
    factory_rules(ctx, R, PR)
    # ... and names, descriptions, order and requires must come back from the loader as they went out (N1-N4 of C11): the getters
    # find a reloaded filter by its name
    from .c11 import save_load_rules
    save_load_rules(ctx, R, PR)
    # ---- B4 -----------------------------------------------------------------------
    ctx.rule("B4", "the tree walk the readers rely on is pre-order: a `not` is directly followed by the test it wraps")
    cmdcls = prog.cls("Command")
    wk = cmdcls.methods.get("walk") if cmdcls is not None else None
    if wk is None:
        raise AnalysisError("B4", "Command.walk not found")
    recursive = any(isinstance(c, ast.Call) and isinstance(c.func, ast.Attribute) and c.func.attr == "walk" for c in walk_no_nested(wk.node))
    fifo = [c for c in walk_no_nested(wk.node) if isinstance(c, ast.Call) and isinstance(c.func, ast.Attribute) and (
        (c.func.attr == "pop" and c.args and const_value(prog, wk, c.args[0]) == 0) or c.func.attr == "popleft")]
    first_yield = next((y for y in ast.walk(wk.node) if isinstance(y, (ast.Yield, ast.YieldFrom))), None)
    if fifo:
        ctx.violation("B4", wk, "walk-breadth-first", "Command.walk takes the next node from the FRONT of its work list (%s): siblings come before "
                      "descendants, so the test wrapped by a `not` no longer follows it" % norm(fifo[0])[:30], node=fifo[0],
                      witness="[(Subject, :notcontains, x), (exists, A)] reads back as notexists A, Subject :contains x")
    elif recursive and first_yield is not None:
        ctx.holds("B4", "%s yields the node, then walks each sub-command recursively (pre-order)" % wk.qualname)
    else:
        raise AnalysisError("B4", "Command.walk: traversal order not recognised (neither recursive nor a front-popped work list)")
    # a value memoised on a class is shared by every instance and subclass: what one action class computed answers for all (H1 of C13)
    from .c13 import h1
    h1(ctx, PR)
    gf = R.m["getfilter"]
    s = norm(gf.node)
    if "['enabled']" in s and ".children[0]" in s:
        ctx.holds("B3", "getfilter unwraps a disabled filter")
    else:
        ctx.violation("B3", gf, "getfilter-no-unwrap", "getfilter returns the wrapper of a disabled filter", node=gf.node)
