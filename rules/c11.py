"""C11 - A filter set survives being saved as a script and loaded back (thin).

N1 marker agreement writer/reader, N2 status polarity and recogniser shape,
N3 comment plumbing in the parser, N4 order and requires.
"""
import ast

from sa.model import AnalysisError, walk_no_nested, norm, call_name, stmt_of
from sa.util import fact_atom, cmp_parts, const_value, contains
from .c12 import FactoryRoles
from .proles import ParserRoles


def run(ctx):
    R = FactoryRoles(ctx, "N")
    PR = ParserRoles(ctx, "N")
    ctx.explanation = (
        "(N1) the renderer prefixes filter names with attribute a1 and descriptions with attribute a2 and the loader "
        "recognises names by startswith(a1) and removes a1, descriptions by a2 - the same attribute on both sides, name "
        "to name, description to description; the renderer writes the description only when non-empty and the loader "
        "defaults to the empty string; (N2) the loader sets `enabled` to the negation of the shared disabled-recogniser, "
        "whose shape (an `if` whose test is `false`) is what disablefilter constructs; (N3) in the parser, hash comments "
        "are collected in the token loop, attached in __up to top-level commands only, and the collector is emptied "
        "right after attaching and in the reset, so each comment goes to exactly the next top-level command; (N4) the "
        "loader appends one filter per non-require command in result order and requires every capability (string or "
        "list form); the renderer writes the require command first and then the filters in list order.")
    ctx.not_decided = "equality of the reloaded set with the original for all reachable states (behavioural)."
    save_load_rules(ctx, R, PR)
    # the saved script must be one the parser accepts (else nothing can be loaded from it): the factory's rendering rules (F1-F6 of
    # C06), the decoding of string tokens (P15 of C01) and the token rules themselves (L1-L4 of C01) are part of this property's mechanism
    from .c06 import factory_rules
    factory_rules(ctx, R, PR)
    from .c01 import p15, lexer_rules
    p15(ctx, PR)
    lexer_rules(ctx, PR)


def save_load_rules(ctx, R, PR):
    """N1-N4, H4: what the renderer writes around the filters is what the loader reads (shared with C19: `... and on a set reloaded
    from its rendered script`)."""
    w = R.m["tosieve"]
    r = R.m["from_parser_result"]

    # ---- N1 -----------------------------------------------------------------------
    ctx.rule("N1", "writer/reader marker agreement (name <-> name, description <-> description)")
    init = R.m.get("__init__")
    attrs = {}
    for a in walk_no_nested(init.node):
        if isinstance(a, ast.Assign) and isinstance(a.targets[0], ast.Attribute) and isinstance(a.value, ast.Name) and "pretext" in a.targets[0].attr:
            attrs[a.targets[0].attr] = a.value.id
    name_attr = next((k for k in attrs if "name" in k), None)
    desc_attr = next((k for k in attrs if "desc" in k), None)
    if not name_attr or not desc_attr:
        raise AnalysisError("N1", "marker attributes not found in FiltersSet.__init__")
    # writer
    wname = wdesc = None
    def entry_keys(a):
        """keys of the filter entry whose value the written expression carries: f["k"], f.get("k"), or a local bound to one of them"""
        keys = set()
        for x in ast.walk(a):
            e = x
            if isinstance(e, ast.Name):
                defs = [d.value for d in walk_no_nested(w.node) if isinstance(d, ast.Assign) and any(isinstance(t, ast.Name) and t.id == e.id for t in d.targets)]
                e = defs[0] if len(defs) == 1 else e
            if isinstance(e, ast.Subscript) and isinstance(const_value(ctx.program, w, e.slice), str):
                keys.add(const_value(ctx.program, w, e.slice))
            if isinstance(e, ast.Call) and call_name(e) == "get" and e.args and isinstance(const_value(ctx.program, w, e.args[0]), str):
                keys.add(const_value(ctx.program, w, e.args[0]))
        return keys
    for c in walk_no_nested(w.node):
        if isinstance(c, ast.Call) and call_name(c) == "write" and c.args:
            a = c.args[0]
            ks = entry_keys(a)
            if "name" in ks:
                wname = (a, [x.attr for x in ast.walk(a) if isinstance(x, ast.Attribute) and "pretext" in x.attr], c)
            if "description" in ks:
                wdesc = (a, [x.attr for x in ast.walk(a) if isinstance(x, ast.Attribute) and "pretext" in x.attr], c)
    # the renderer, evaluated over two small sets (syntactic rules below when the interpreter cannot follow it)
    from sa import fd as _fd
    F1 = _fd.Rec("IfCommand", tag="f1")
    F2 = _fd.Rec("IfCommand", tag="f2")
    we = None
    try:
        we = writer_eval(ctx, R, name_attr, desc_attr,
                         [{"name": "n1", "description": "d1", "content": F1, "enabled": True},
                          {"name": "n2", "description": "", "content": F2, "enabled": False}], ["fileinto"])
        we0 = writer_eval(ctx, R, name_attr, desc_attr, [], ["fileinto"]) if we is not None else None
    except AnalysisError:
        raise
    except Exception:
        we = we0 = None
    if we is not None and we0 is not None:
        text, pre_ = we
        NP_, DP_ = pre_[name_attr], pre_[desc_attr]
        want = "<req>\n" + "%sn1\n%sd1\n<f1>" % (NP_, DP_) + "%sn2\n<f2>" % NP_
        if text == want:
            ctx.holds("N1", "renderer: require command, then per filter <%s><name> [<%s><description> when non-empty] <content>" % (name_attr, desc_attr))
        else:
            ctx.violation("N1", w, "writer-text", "for a set of two filters (one described) and one extension the renderer writes %r; the loader "
                          "and the parser need %r" % (text, want), node=w.node,
                          witness="reloaded filters are called 'Unnamed rule N', lose their description or their require line")
        # names and descriptions are the caller's text: runs of blanks, tabs and other space characters are part of it
        odd_n, odd_d = "a  b\tc\u00a0d", " two  spaces \u3000"
        try:
            we2 = writer_eval(ctx, R, name_attr, desc_attr, [{"name": odd_n, "description": odd_d, "content": F1, "enabled": True}], [])
        except Exception:
            we2 = None
        if we2 is not None:
            want2 = "%s%s\n%s%s\n<f1>" % (NP_, odd_n, DP_, odd_d)
            if we2[0] == want2:
                ctx.holds("N1", "renderer: a name / description with runs of blanks, a tab and non-ASCII spaces is written unchanged")
            else:
                ctx.violation("N1", w, "writer-text-altered", "for the name %r and the description %r the renderer writes %r (expected %r)"
                              % (odd_n, odd_d, we2[0], want2), node=w.node,
                              witness="a filter name with two spaces or a tab comes back with one space after save and load")
        if we0[0] == "<req>\n":
            ctx.holds("N1", "renderer: a set without filters still carries its require line")
        else:
            ctx.violation("N1", w, "writer-empty-set", "for a set that holds extensions but no filter the renderer writes %r instead of the "
                          "require line" % (we0[0],), node=w.node,
                          witness="add a fileinto filter, remove it, save and load: the reloaded set has lost its requires")
        wname = wdesc = None
    elif not wname or not wdesc:
        raise AnalysisError("N1", "renderer: name/description writes not found")

    from sa.template import template, shape, holes

    def fmt_ok(a, marker):
        # <marker><value>\n in any spelling: "{}{}\n".format(..), "%s%s\n" % (..), f"{..}{..}\n", marker + value + "\n"
        t = template(a)
        hs = holes(t)
        return shape(t) == "\0\0\n" and len(hs) == 2 and isinstance(hs[0].expr, ast.Attribute) and hs[0].expr.attr == marker \
            and all(h.spec is None for h in hs)
    for what, (a, used, c), marker in ((("name", wname, name_attr), ("description", wdesc, desc_attr)) if wname else ()):
        if used == [marker] and fmt_ok(a, marker):
            ctx.holds("N1", "renderer writes <%s><%s>\\n" % (marker, what))
        else:
            ctx.violation("N1", w, "writer-marker:%s" % what, "the renderer marks a filter's %s with %s (expected %s immediately followed by the value "
                          "and a newline)" % (what, used, marker), node=c, witness="reloaded filters are called 'Unnamed rule N' / lose their description")
    # description only when non-empty
    cfgw = ctx.cfg(w)

    def has_desc(fc):
        e, pol = fact_atom(fc)
        return pol is True and "description" in entry_keys(e)
    if not wdesc:
        pass  # decided by the evaluation of the renderer
    elif all(cfgw.guarded(x, has_desc) for x in cfgw.node_containing(wdesc[2])):
        ctx.holds("N1", "description written only when present and non-empty")
    else:
        ctx.violation("N1", w, "empty-description-written", "an empty description is written as a comment line", node=wdesc[2])
    # reader: evaluated over a five-command script when the interpreter can follow it, by its syntax otherwise
    le = None
    try:
        le = loader_eval(ctx, R, PR, name_attr, desc_attr)
    except AnalysisError:
        raise
    except Exception:
        le = None
    if le is not None:
        reqs, entries, (f1, f2, f3) = le
        ctx.holds("N1", "loader evaluated over require \"fileinto\"; <named+described>; require [..]; <named, disabled>; <unmarked>")
        want = [("n1", "d1", f1, True), ("n2", "", f2, False), ("Unnamed rule 3", "", f3, True)]
        shape_ok = len(entries) == 3 and all(isinstance(e_, dict) and {"name", "description", "content", "enabled"} <= set(e_) for e_ in entries)
        if not shape_ok:
            ctx.violation("N1", r, "entry-shape", "the loader does not append one {name, description, content, enabled} entry per filter "
                          "(it built %r)" % ([sorted(e_) if isinstance(e_, dict) else e_ for e_ in entries],), node=r.node,
                          witness="a saved set of three filters is reloaded as something else")
        else:
            for (wn, wd, wc, we), e_ in zip(want, entries):
                got = (e_["name"], e_["description"], e_["content"], e_["enabled"])
                if e_["content"] is not wc:
                    ctx.violation("N4", r, "result-order", "the loader does not attach each entry to its own command, in script order", node=r.node)
                elif e_["name"] != wn:
                    ctx.violation("N1", r, "reader-name", "the loader names the filter whose comments are %r %r (expected %r)"
                                  % (wc.fields["hash_comments"], e_["name"], wn), node=r.node,
                                  witness="filters are renamed, or take the name of another filter, after save and load")
                elif e_["description"] != wd:
                    ctx.violation("N1", r, "reader-description", "the loader gives the filter whose comments are %r the description %r "
                                  "(expected %r)" % (wc.fields["hash_comments"], e_["description"], wd), node=r.node,
                                  witness="a filter without description inherits the description of the filter before it")
                elif e_["enabled"] is not we:
                    ctx.rule("N2", "enabled = not <disabled recogniser>(content)")
                    ctx.violation("N2", r, "enabled-polarity", "the loader marks a filter the recogniser calls %s as enabled=%r"
                                  % ("enabled" if we else "disabled", e_["enabled"]), node=r.node,
                                  witness="disabled filters come back enabled (or vice versa) after save and load")
                else:
                    ctx.holds("N1", "loader: %r -> name %r, description %r, enabled %r" % (wc.fields["hash_comments"], wn, wd, we))
        # the markers are the caller's choice: non-ASCII text and characters that mean something to a regular expression
        custom = ("# r\u00e8gle(1)*:", "# d\u00e9sc[.]+:")
        try:
            le2 = loader_eval(ctx, R, PR, name_attr, desc_attr, markers=custom)
        except Exception:
            le2 = None
        if le2 is not None:
            _r2, entries2, _fs = le2
            got2 = [(e_.get("name"), e_.get("description")) if isinstance(e_, dict) else e_ for e_ in entries2]
            if got2 == [("n1", "d1"), ("n2", ""), ("Unnamed rule 3", "")]:
                ctx.holds("N1", "loader with the markers %r / %r: the same names and descriptions" % custom)
            else:
                ctx.violation("N1", r, "reader-marker", "with the name / description markers %r / %r the loader reads %r for comments that carry "
                              "the names n1, n2 and the description d1" % (custom[0], custom[1], got2), node=r.node,
                              witness="a set saved with custom markers comes back with parts of the marker in its names")
        if reqs == ['"fileinto"', '"copy"', '"imap4flags"', '"vnd.x,y"'] or reqs == ["fileinto", "copy", "imap4flags", "vnd.x,y"]:
            ctx.rule("N4", "order and requires")
            ctx.holds("N4", "loader requires every capability of every require command, string or list form (%r)" % (reqs,))
        else:
            ctx.rule("N4", "order and requires")
            ctx.violation("N4", r, "requires-form", "the loader requires %r for `require \"fileinto\"; require [\"copy\", \"imap4flags\"]; require \"vnd.x,y\";`"
                          % (reqs,), node=r.node,
                          witness="`require \"fileinto\";` (single string) is loaded character by character, or lists are ignored")
    if le is None:
        seen = {}
        for st in walk_no_nested(r.node):
            if isinstance(st, ast.If) and isinstance(st.test, ast.Call) and call_name(st.test) == "startswith" and st.test.args \
                    and isinstance(st.test.args[0], ast.Attribute) and "pretext" in st.test.args[0].attr:
                marker = st.test.args[0].attr
                for a in st.body:
                    if isinstance(a, ast.Assign) and isinstance(a.targets[0], ast.Name) and isinstance(a.value, ast.Call):
                        v = a.value
                        removed = None
                        if call_name(v) == "replace" and len(v.args) >= 2 and isinstance(v.args[0], ast.Attribute) and const_value(ctx.program, r, v.args[1]) == "":
                            removed = v.args[0].attr
                        elif call_name(v) in ("removeprefix",) and v.args and isinstance(v.args[0], ast.Attribute):
                            removed = v.args[0].attr
                        seen[a.targets[0].id] = (marker, removed, a)
                    elif isinstance(a, ast.Assign) and isinstance(a.targets[0], ast.Name) and isinstance(a.value, ast.Subscript):
                        t = norm(a.value.slice)
                        removed = next((k for k in attrs if k in t), None)
                        seen[a.targets[0].id] = (marker, removed, a)
        for var, marker in (("name", name_attr), ("description", desc_attr)):
            got = seen.get(var)
            if got and got[0] == marker and got[1] == marker:
                ctx.holds("N1", "loader: %s <- comment starting with %s, marker removed" % (var, marker))
            else:
                ctx.violation("N1", r, "reader-marker:%s" % var, "the loader takes the %s from comments marked %s and removes %s (expected %s for both)"
                              % (var, got[0] if got else None, got[1] if got else None, marker), node=got[2] if got else r.node,
                              witness="names and descriptions are swapped or keep their marker after a reload")
        # defaults
        defaults = {a.targets[0].id: a.value for a in walk_no_nested(r.node) if isinstance(a, ast.Assign) and isinstance(a.targets[0], ast.Name)
                    and a.targets[0].id in ("name", "description") and not isinstance(a.value, ast.Call)}
        # ... for every filter anew: the default is set inside the loop over the parsed commands
        outer = [lp for lp in walk_no_nested(r.node) if isinstance(lp, ast.For) and "result" in norm(lp.iter)]
        per_filter = {}
        for a in walk_no_nested(r.node):
            if isinstance(a, ast.Assign) and isinstance(a.targets[0], ast.Name) and a.targets[0].id in ("name", "description") \
                    and not isinstance(a.value, ast.Call) and outer and contains(outer[0], a):
                per_filter[a.targets[0].id] = a
        if "description" in defaults and const_value(ctx.program, r, defaults["description"]) == "" and outer and "description" not in per_filter:
            ctx.violation("N1", r, "description-default-once", "the loader sets the default description once, before the loop over the commands: a "
                          "filter without description inherits the description of the filter before it", node=r.node,
                          witness="two filters, only the first with a description: after a reload both carry it")
        elif "name" in defaults and outer and "name" not in per_filter:
            ctx.violation("N1", r, "name-default-once", "the loader sets the default name once, before the loop over the commands: a "
                          "filter without name comment inherits the name of the filter before it", node=r.node)
        elif "description" in defaults and const_value(ctx.program, r, defaults["description"]) == "":
            ctx.holds("N1", "loader defaults description to ''")
        else:
            ctx.violation("N1", r, "description-default", "the loader does not default a missing description to the empty string", node=r.node)
        # the dict built by the loader carries the four fields from those variables
        dicts = [d for d in ast.walk(r.node) if isinstance(d, ast.Dict)]
        ok = False
        for d in dicts:
            keys = {const_value(ctx.program, r, k): v for k, v in zip(d.keys, d.values) if k is not None}
            if {"name", "description", "content", "enabled"} <= set(keys):
                ok = isinstance(keys["name"], ast.Name) and keys["name"].id == "name" and isinstance(keys["description"], ast.Name) \
                    and keys["description"].id == "description"
                loopvar = next((lp.target.id for lp in walk_no_nested(r.node) if isinstance(lp, ast.For) and "result" in norm(lp.iter)), None)
                ok = ok and isinstance(keys["content"], ast.Name) and keys["content"].id == loopvar
                ed = keys["enabled"]
                # ---- N2
                ctx.rule("N2", "enabled = not <disabled recogniser>(content)")
                if isinstance(ed, ast.UnaryOp) and isinstance(ed.op, ast.Not) and isinstance(ed.operand, ast.Call) \
                        and call_name(ed.operand) == R.isdisabled.name and ed.operand.args and isinstance(ed.operand.args[0], ast.Name) \
                        and ed.operand.args[0].id == loopvar:
                    ctx.holds("N2", "loader: enabled = not %s(content)" % R.isdisabled.name)
                else:
                    ctx.violation("N2", r, "enabled-polarity", "the loader sets enabled to %s (expected `not %s(<content>)`)" % (norm(ed), R.isdisabled.name),
                                  node=d, witness="disabled filters come back enabled (or vice versa) after save and load")
        if ok:
            ctx.holds("N1", "loader builds {name, description, content, enabled} from the decoded comment and the command")
        else:
            ctx.violation("N1", r, "entry-shape", "the loader does not build the entry from (name, description, command, status)", node=r.node)
    rsrc = norm(R.isdisabled.node)
    if "IfCommand" in rsrc and "FalseCommand" in rsrc and "['test']" in rsrc:
        ctx.holds("N2", "recogniser tests for IfCommand with a FalseCommand test (the shape disablefilter builds)")
    else:
        ctx.violation("N2", R.isdisabled, "recogniser-shape", "the disabled-recogniser does not test for `if false`", node=R.isdisabled.node)
    dis = R.m["disablefilter"]
    built = [const_value(ctx.program, dis, a.value.args[0]) for a in walk_no_nested(dis.node) if isinstance(a, ast.Assign)
             and isinstance(a.value, ast.Call) and call_name(a.value) == "get_command_instance" and a.value.args]
    if "if" in built and "false" in built:
        ctx.holds("N2", "disablefilter constructs `if false { ... }`")
    else:
        ctx.violation("N2", dis, "wrapper-shape", "disablefilter builds %s, not if/false" % built, node=dis.node)

    # the saved status is the wrapping: flag and wrapping must stay paired through update / replace / disable / enable (O2, O5 of C12)
    from .c12 import o2, o5
    o2(ctx, R)
    o5(ctx, R)

    # ---- N3 -----------------------------------------------------------------------
    ctx.rule("N3", "hash comments: collected in the token loop, attached to the next top-level command, collector emptied after attach and in reset")
    parse = PR.parse
    coll = [st for st in walk_no_nested(parse.node) if isinstance(st, (ast.AugAssign, ast.Expr)) and "hash_comments" in norm(st)
            and ("+=" in norm(st) or "append" in norm(st))]
    cfgp = ctx.cfg(parse)

    def is_hash(fc):
        e, pol = fact_atom(fc)
        cp = cmp_parts(e)
        return bool(cp and pol is True and cp[1] == "Eq" and const_value(ctx.program, parse, cp[2]) == "hash_comment")
    if len(coll) == 1 and all(cfgp.guarded(x, is_hash) for x in cfgp.nodes_for(coll[0])):
        ctx.holds("N3", "collected exactly for hash_comment tokens: %s" % norm(coll[0]))
    else:
        ctx.violation("N3", parse, "collect", "hash comments are not collected exactly for hash_comment tokens", node=parse.node,
                      witness="filter names are lost on reload")
    up = PR.up
    att = [st for st in walk_no_nested(up.node) if isinstance(st, ast.Assign) and any(isinstance(t, ast.Attribute) and t.attr == "hash_comments"
                                                                                       and PR.an("curcommand") in norm(t.value) for t in st.targets)]
    rst = [st for st in walk_no_nested(up.node) if isinstance(st, ast.Assign) and any(isinstance(t, ast.Attribute) and t.attr == "hash_comments"
                                                                                       and isinstance(t.value, ast.Name) for t in st.targets)]
    cfgu = ctx.cfg(up)

    def toplevel(fc):
        from sa.util import presence_fact
        e, pol = presence_fact(fc)
        return isinstance(e, ast.Attribute) and e.attr == "parent" and pol is False
    if len(att) == 1 and len(rst) == 1 and all(cfgu.guarded(x, toplevel) for x in cfgu.nodes_for(att[0])) \
            and isinstance(rst[0].value, ast.List) and not rst[0].value.elts and att[0]._parent is rst[0]._parent \
            and rst[0].lineno > att[0].lineno and norm(att[0].value).endswith("hash_comments"):
        ctx.holds("N3", "attached to top-level commands only; collector emptied right after")
    else:
        ctx.violation("N3", up, "attach-reset", "comments are not attached to top-level commands with an immediate reset of the collector",
                      node=up.node, witness="a filter inherits the name comments of the filters before it")
    if any(isinstance(a, ast.Assign) and any(isinstance(t, ast.Attribute) and t.attr == "hash_comments" for t in a.targets)
           and isinstance(a.value, ast.List) and not a.value.elts for a in walk_no_nested(PR.reset.node)):
        ctx.holds("N3", "collector emptied by the parser reset")
    else:
        ctx.violation("N3", PR.reset, "collector-not-reset", "the comment collector is not emptied by the parser reset", node=PR.reset.node)

    # ---- N4 -----------------------------------------------------------------------
    ctx.rule("N4", "order and requires")
    loops = [lp for lp in walk_no_nested(r.node) if isinstance(lp, ast.For) and "result" in norm(lp.iter)]
    if len(loops) == 1 and isinstance(loops[0].iter, ast.Attribute):
        ctx.holds("N4", "loader iterates parser.result in order")
    elif le is not None and not any(f_.rule == "N4" and "result-order" in f_.key for f_ in ctx.findings):
        ctx.holds("N4", "every entry of the evaluated five-command script is attached to its own command, in script order")
    else:
        ctx.violation("N4", r, "result-order", "the loader does not iterate parser.result directly", node=r.node)
    apps = [st for st in walk_no_nested(r.node) if isinstance(st, (ast.AugAssign, ast.Expr)) and "filters" in norm(st) and ("+=" in norm(st) or "append(" in norm(st))]
    if len(apps) == 1 and not any(isinstance(c, ast.Call) and call_name(c) == "insert" for c in walk_no_nested(r.node)):
        ctx.holds("N4", "one append per command")
    else:
        ctx.violation("N4", r, "append", "the loader does not append exactly one entry per command", node=r.node)
    reqs = {id(c): c for c in ast.walk(r.node) if isinstance(c, ast.Call) and call_name(c) == "require"}
    islist = any(("capabilities" in norm(x)) and ("== list" in norm(x) or ("isinstance" in norm(x) and "list" in norm(x)))
                 for x in ast.walk(r.node) if isinstance(x, (ast.Compare, ast.Call)))
    if le is not None:
        pass  # decided by the evaluation above
    elif len(reqs) >= 2 and islist:
        ctx.holds("N4", "loader requires capabilities in both string and list form")
    else:
        ctx.violation("N4", r, "requires-form", "the loader does not handle both the string and the list form of require", node=r.node,
                      witness="`require \"fileinto\";` (single string) is loaded character by character, or lists are ignored")
    # writer: require first, then filters in order
    cfgw = ctx.cfg(w)
    gen = [c for c in walk_no_nested(w.node) if isinstance(c, ast.Call) and R.gen_require is not None and call_name(c) == R.gen_require.name]
    floops = [lp for lp in walk_no_nested(w.node) if isinstance(lp, ast.For) and "filters" in norm(lp.iter)]
    if gen and floops and isinstance(floops[0].iter, ast.Attribute) and gen[0].lineno < floops[0].lineno:
        ctx.holds("N4", "renderer: require command, then filters in list order")
    else:
        ctx.violation("N4", w, "render-order", "the renderer does not write the require command before iterating the filters in order", node=w.node)
    if R.gen_require is not None and any("requires" in norm(c) for c in walk_no_nested(R.gen_require.node) if isinstance(c, ast.Call) and call_name(c) == "check_next_arg"):
        ctx.holds("N4", "require command built from the full requires list")
    else:
        ctx.violation("N4", R.gen_require or w, "require-list", "the require command is not built from the full requires list", node=(R.gen_require or w).node)
    # what is loaded comes from the parser that was handed in, not from process-wide state another parse may have changed since
    from .c13 import registry_readers
    ctx.rule("H4", "the loader reads nothing but its parser: no function outside the gates reads the process-global extension registry")
    registry_readers(ctx, PR)



def loader_eval(ctx, R, PR, name_attr, desc_attr, markers=None):
    """Finite-domain evaluation of the loader over a parsed script of five top-level commands (two require commands - one
    capability written as a string, two written as a list - and three filters: name + description, name only, no marker).
    Returns (requires, entries) - the arguments of require() in call order and the appended entries - or None when the
    interpreter cannot follow the loader (then the syntactic reader rules decide)."""
    from sa import fd
    prog = ctx.program
    r = R.m["from_parser_result"]
    init = R.m.get("__init__")
    pre = {}
    for a in walk_no_nested(init.node):
        if isinstance(a, ast.Assign) and isinstance(a.targets[0], ast.Attribute) and isinstance(a.value, ast.Name) and "pretext" in a.targets[0].attr:
            dflt = init.defaults().get(a.value.id)
            v = const_value(prog, init, dflt) if dflt is not None else TOP
            if not isinstance(v, str):
                return None
            pre[a.targets[0].attr] = v
    NP, DP = pre.get(name_attr), pre.get(desc_attr)
    if NP is None or DP is None:
        return None
    if markers is not None:
        NP, DP = markers  # the markers are constructor arguments: any text the caller chose
    mk = fd.Rec
    f1 = mk("IfCommand", hash_comments=[(NP + "n1").encode(), (DP + "d1").encode()], disabled=False, tag="f1")
    f2 = mk("IfCommand", hash_comments=[(NP + "n2").encode()], disabled=True, tag="f2")
    f3 = mk("IfCommand", hash_comments=[], disabled=False, tag="f3")
    q1 = mk("RequireCommand", arguments={"capabilities": '"fileinto"'}, hash_comments=[], tag="q1")
    q2 = mk("RequireCommand", arguments={"capabilities": ['"copy"', '"imap4flags"']}, hash_comments=[], tag="q2")
    q3 = mk("RequireCommand", arguments={"capabilities": '"vnd.x,y"'}, hash_comments=[], tag="q3")  # one name, with a comma in it
    result = [q1, f1, q2, f2, f3, q3]
    parser = mk("Parser", result=result)
    selfp = r.params[0]
    pparam = r.params[1] if len(r.params) > 1 else None
    if pparam is None:
        return None

    def class_names(e):
        out = []
        for x in (e.elts if isinstance(e, ast.Tuple) else [e]):
            out.append(x.attr if isinstance(x, ast.Attribute) else (x.id if isinstance(x, ast.Name) else None))
        return out

    def oracle(interp, e, name, recv, args, kw, st):
        if name == "isinstance" and len(e.args) == 2 and args and isinstance(args[0], fd.Const) and isinstance(args[0].v, fd.Rec):
            names = class_names(e.args[1])
            if None in names:
                return None
            rc = prog.cls(args[0].v.cls)
            mro = [c.name for c in prog.mro(rc)] if rc is not None else [args[0].v.cls]
            return [(fd.Const(any(n in mro for n in names)), None)]
        if name == "isinstance" and len(e.args) == 2 and args and isinstance(args[0], fd.Const) and isinstance(args[0].v, fd.Rec) \
                and all(isinstance(x, ast.Name) and x.id in ("list", "tuple", "dict", "str", "bytes", "set") for x in (
                    e.args[1].elts if isinstance(e.args[1], ast.Tuple) else [e.args[1]])):
            return [(fd.Const(False), None)]  # an object of the package is none of the builtin containers
        if name == "isinstance" and len(e.args) == 2 and args and isinstance(args[0], fd.Const) and isinstance(args[0].v, list) \
                and isinstance(e.args[1], ast.Name) and e.args[1].id == "list":
            return [(fd.Const(True), None)]
        if name in ("self.require", "require") and args:
            return [(fd.Const(None), ("require", args[0]))]
        if isinstance(recv, fd.Const) and isinstance(recv.v, fd.Rec) and isinstance(e.func, ast.Attribute) and not args and not kw:
            # a method of the stand-in's class that only reads the object (`f.extensions()`): interpreted on the stand-in
            c_ = prog.cls(recv.v.cls)
            if c_ is not None:
                for k_ in prog.mro(c_):
                    m_ = k_.methods.get(e.func.attr)
                    if m_ is not None and "property" not in m_.decorators and len(m_.params) == 1 and not any(
                            isinstance(x, ast.Attribute) and isinstance(x.ctx, ast.Store) for x in ast.walk(m_.node)):
                        sub_ = fd.Interp(m_.node, None, oracle, loop_unroll=8, max_depth=2)
                        sub_.getattr_hook = getattr_hook
                        outs = []
                        for p_ in sub_.run({m_.params[0]: recv}, fd.State({}, st.events, {})):
                            outs.append((fd.Exc(p_.value, p_.node) if p_.kind == "raise" else p_.value, None))
                        return outs
                    if m_ is not None:
                        break
        if name == "getattr" and len(args) >= 2 and isinstance(args[0], fd.Const) and isinstance(args[0].v, fd.Rec) \
                and isinstance(args[1], fd.Const) and isinstance(args[1].v, str):
            if args[1].v in args[0].v.fields:
                return [(fd.Const(args[0].v.fields[args[1].v]), None)]
            if len(args) == 3:
                return [(args[2], None)]
        if name and name.startswith("self.") and R.isdisabled is not None and name[5:] == R.isdisabled.name and args \
                and isinstance(args[0], fd.Const) and isinstance(args[0].v, fd.Rec):
            return [(fd.Const(args[0].v.fields.get("disabled", False)), None)]
        if name and name.startswith("self.") and name[5:] in R.m and R.m[name[5:]] is not r:
            return fd.Inline(R.m[name[5:]])
        fn_ = e.func
        fm_ = prog.module("factory")
        if isinstance(fn_, ast.Name) and fn_.id in fm_.funcs:
            g_ = fm_.funcs[fn_.id]
            # a memoised pure function answers like the function (functools caches are keyed by the arguments)
            if all(("lru_cache" in d) or d in ("functools.cache", "cache") for d in g_.decorators):
                return fd.Inline(g_)
        return None

    def getattr_hook(interp, rec, e, st):
        # a property of the object's class, evaluated on the stand-in
        c = prog.cls(rec.cls)
        if c is not None:
            for k in prog.mro(c):
                m = k.methods.get(e.attr)
                if m is not None and "property" in m.decorators:
                    # (no class name: `self` is the stand-in record, its attributes are the record's fields)
                    sub = fd.Interp(m.node, None, oracle, loop_unroll=8, max_depth=2)
                    sub.getattr_hook = getattr_hook
                    outs = []
                    for p_ in sub.run({m.params[0]: fd.Const(rec)}, fd.State({}, st.events, {})):
                        s2 = st.copy()
                        s2.events = list(p_.events)
                        outs.append((fd.Exc(p_.value, p_.node) if p_.kind == "raise" else p_.value, s2))
                    return outs
        return [(fd.Unknown(norm(e)), st)]
    it = fd.Interp(r.node, R.cls.name, oracle, loop_unroll=8, max_depth=3)
    it.getattr_hook = getattr_hook
    env = {pparam: fd.Const(parser), "%s.filters" % selfp: fd.Const([]), "%s.requires" % selfp: fd.Const([]),
           "%s.%s" % (selfp, name_attr): fd.Const(NP), "%s.%s" % (selfp, desc_attr): fd.Const(DP)}
    try:
        paths = it.run(env)
    except fd.TooManyPaths:
        return None
    if len(paths) != 1 or paths[0].kind != "return":
        return None
    p_ = paths[0]
    reqs = [ev[1].v if isinstance(ev[1], fd.Const) else None for ev in p_.events if ev[0] == "require"]
    fl = p_.env.get("%s.filters" % selfp)
    if not isinstance(fl, fd.Const) or not isinstance(fl.v, list) or None in reqs:
        return None
    return reqs, fl.v, (f1, f2, f3)


def writer_eval(ctx, R, name_attr, desc_attr, filters, requires):
    """Finite-domain evaluation of the renderer over a given set: the text written to the target, with <tag> standing for what a
    command object prints for itself, or None when the interpreter cannot follow the renderer."""
    from sa import fd
    prog = ctx.program
    w = R.m["tosieve"]
    init = R.m.get("__init__")
    pre = {}
    for a in walk_no_nested(init.node):
        if isinstance(a, ast.Assign) and isinstance(a.targets[0], ast.Attribute) and isinstance(a.value, ast.Name) and "pretext" in a.targets[0].attr:
            dflt = init.defaults().get(a.value.id)
            v = const_value(prog, init, dflt) if dflt is not None else TOP
            if not isinstance(v, str):
                return None
            pre[a.targets[0].attr] = v
    selfp = w.params[0]
    target = w.params[1] if len(w.params) > 1 else None
    if target is None:
        return None
    counter = [0]

    def buf_key(rec):
        return "@sio:%s" % rec.fields["tag"]

    def oracle(interp, e, name, recv, args, kw, st):
        f_ = e.func
        if isinstance(f_, ast.Attribute) and f_.attr == "StringIO" and not args:
            counter[0] += 1
            rec = fd.Rec("StringIO", tag="b%d" % counter[0])
            st.env[buf_key(rec)] = fd.Const("")
            return [(fd.Const(rec), None)]
        if isinstance(recv, fd.Const) and isinstance(recv.v, fd.Rec) and recv.v.cls == "StringIO":
            k = buf_key(recv.v)
            if name == "write" and args:
                cur = st.env.get(k)
                st.env[k] = fd.Const(cur.v + args[0].v) if isinstance(cur, fd.Const) and isinstance(args[0], fd.Const) and isinstance(args[0].v, str) \
                    else fd.Unknown("buffer")
                return [(fd.Const(None), None)]
            if name == "getvalue":
                return [(st.env.get(k, fd.Unknown("buffer")), None)]
            if name == "close":
                return [(fd.Const(None), None)]
        if name == "write" and isinstance(f_, ast.Attribute) and isinstance(f_.value, ast.Name) and f_.value.id == target:
            return [(fd.Const(None), ("write", args[0] if args else None))]
        if name == "tosieve" and isinstance(recv, fd.Const) and isinstance(recv.v, fd.Rec):
            tgt = kw.get("target") or (args[-1] if args else None)
            text = "<%s>" % recv.v.fields.get("tag", "?")
            if isinstance(tgt, fd.Const) and isinstance(tgt.v, fd.Rec) and tgt.v.cls == "StringIO":
                k = buf_key(tgt.v)
                cur = st.env.get(k)
                st.env[k] = fd.Const(cur.v + text) if isinstance(cur, fd.Const) else fd.Unknown("buffer")
                return [(fd.Const(None), None)]
            return [(fd.Const(None), ("write", fd.Const(text)))]
        if name and name.startswith("self.") and R.gen_require is not None and name[5:] == R.gen_require.name:
            reqs = st.env.get("%s.requires" % selfp)
            if isinstance(reqs, fd.Const) and not reqs.v:
                return [(fd.Const(None), None)]
            return [(fd.Const(fd.Rec("RequireCommand", tag="req")), None)]
        if name and name.startswith("self.") and name[5:] in R.m and R.m[name[5:]] is not w:
            return fd.Inline(R.m[name[5:]])
        return None
    it = fd.Interp(w.node, R.cls.name, oracle, loop_unroll=max(4, len(filters) + 1), max_depth=3)
    env = {"%s.filters" % selfp: fd.Const(filters), "%s.requires" % selfp: fd.Const(requires), target: fd.Unknown("target"),
           "%s.%s" % (selfp, name_attr): fd.Const(pre.get(name_attr)), "%s.%s" % (selfp, desc_attr): fd.Const(pre.get(desc_attr))}
    try:
        paths = it.run(env)
    except fd.TooManyPaths:
        return None
    if len(paths) != 1 or paths[0].kind != "return":
        return None
    out = []
    for ev in paths[0].events:
        if ev[0] == "write":
            if not (isinstance(ev[1], fd.Const) and isinstance(ev[1].v, str)):
                return None
            out.append(ev[1].v)
    return "".join(out), pre
