"""C07 - Extension use is gated by require.

E1 bindings present in the tables, E2 command gate, E3 tag gate, E4 value
gate, E5 no bypass from the parser, E6 registry ownership, E7 message.
"""
import ast

from sa.model import AnalysisError, walk_no_nested, norm, call_name, stmt_of, mangle
from sa.util import fact_atom, cmp_parts, const_value, raise_name, contains, bound_arg
from sa.consteval import TOP
from .proles import ParserRoles
from ref import ext_spec


def tag_bindings(entry):
    """(tag -> extension) bindings of one command's table entry."""
    out = {}
    for slot in entry["args_definition"] or []:
        if "tag" not in (slot.get("type") or []):
            continue
        for t in slot.get("values", []) or []:
            if slot.get("extension"):
                out[t] = slot["extension"]
        for t, e in (slot.get("extension_values") or {}).items():
            out[t] = e
    return out


def registry_test(e, pol):
    """fact `X not in <...>.loaded_extensions` with polarity -> 'loaded' (X is
    in the registry) / 'missing' / None"""
    cp = cmp_parts(e)
    if cp and cp[1] in ("In", "NotIn") and "loaded_extensions" in norm(cp[2]):
        present = (cp[1] == "In") == pol
        return "loaded" if present else "missing"
    return None


def run(ctx):
    R = ParserRoles(ctx, "E")
    ctx.explanation = (
        "A construct bound to an extension is accepted only through one of three gates, each comparing against the "
        "registry of required extensions: (E1) every binding of the frozen reference table (12 commands, 6 tags, 3 "
        "match-type values on 7 tests) is present in the statically evaluated command tables; (E2) in the lookup "
        "function the instance is returned only on paths that crossed `checkexists` false, `extension` falsy or "
        "`extension in registry`; (E3) in the argument interpreter an optional slot is recorded only on paths that "
        "crossed `check_extension` false, slot extension falsy or loaded; (E4) the value-validity helper returns True "
        "for an extension-bound value only when it is loaded (or the check was disabled), and both call sites pass the "
        "caller's flag; (E5) no call from parser.py disables either check; (E6) the registry is written only by the "
        "parser's reset (emptied) and by RequireCommand.complete_cb (names from its own argument), which only the "
        "semicolon branch invokes; (E7) the message is `extension '<name>' not loaded`.")
    ctx.not_decided = "'naming the FIRST missing extension in script order' follows from token-order processing but is not separately proved."
    table = R.table()
    by_name = {e["name"]: e for e in table.values() if not e["abstract"]}

    # ---- E1 ----------------------------------------------------------------------
    ctx.rule("E1", "every reference construct -> extension binding is present in the evaluated tables")
    n = 0
    for cmd, ext in ext_spec.COMMAND_EXT.items():
        n += 1
        e = by_name.get(cmd)
        if e is None:
            ctx.violation("E1", "commands.%sCommand" % cmd.capitalize(), "command-missing:%s" % cmd, "command %s is not defined" % cmd,
                          file=R.cmod.relpath, line=1)
        elif e.get("extension") == ext:
            ctx.holds("E1", "command %s -> %s" % (cmd, ext))
        else:
            ctx.violation("E1", e["class"], "command-ext:%s" % cmd, "command %s is bound to extension %r, the reference says %r"
                          % (cmd, e.get("extension"), ext), file=R.cmod.relpath, line=e["lineno"],
                          witness="`%s ...;` is accepted without `require \"%s\"`" % (cmd, ext))
    for (cmd, tag), ext in ext_spec.TAG_EXT.items():
        n += 1
        e = by_name.get(cmd)
        got = tag_bindings(e).get(tag) if e else None
        if got == ext:
            ctx.holds("E1", "%s %s -> %s" % (cmd, tag, ext))
        else:
            ctx.violation("E1", e["class"] if e else cmd, "tag-ext:%s%s" % (cmd, tag), "tag %s of %s is bound to %r, the reference says %r"
                          % (tag, cmd, got, ext), file=R.cmod.relpath, line=e["lineno"] if e else 1,
                          witness="`%s %s ...` is accepted without `require \"%s\"`" % (cmd, tag, ext))
    for cmd in ext_spec.MATCH_TYPE_TESTS:
        e = by_name.get(cmd)
        b = tag_bindings(e) if e else {}
        for tag, ext in ext_spec.MATCH_VALUE_EXT.items():
            n += 1
            if b.get(tag) == ext:
                ctx.holds("E1", "%s %s -> %s" % (cmd, tag, ext))
            else:
                ctx.violation("E1", e["class"] if e else cmd, "value-ext:%s%s" % (cmd, tag), "match type %s of %s is bound to %r, the reference "
                              "says %r" % (tag, cmd, b.get(tag), ext), file=R.cmod.relpath, line=e["lineno"] if e else 1,
                              witness="`%s %s ...` is accepted without `require \"%s\"`" % (cmd, tag, ext))
    for cmd in ext_spec.CORE:
        e = by_name.get(cmd)
        if e is not None and e.get("extension"):
            ctx.violation("E1", e["class"], "core-needs-ext:%s" % cmd, "core command %s demands extension %r" % (cmd, e["extension"]),
                          file=R.cmod.relpath, line=e["lineno"])
    ctx.need("E1", "reference bindings", n, 39)
    # a tag bound to an extension through `extension_values` is refused by the value helper only if the plain `values` list does not
    # accept it first
    for cname, e in sorted(table.items()):
        if e["abstract"]:
            continue
        for sdef in e["args_definition"] or []:
            both = sorted(set(v.lower() for v in sdef.get("values") or []) & set(k.lower() for k in (sdef.get("extension_values") or {})))
            if both:
                ctx.violation("E1", e["class"], "value-listed-twice:%s%s" % (e["name"], both[0]), "%s of %s is listed both in `values` and in "
                              "`extension_values` of slot %s: the plain list accepts it before the extension is looked at" % (
                                  both[0], e["name"], sdef.get("name")), file=R.cmod.relpath, line=e.get("lineno"),
                              witness="`%s %s ...` is accepted without the require" % (e["name"], both[0]))

    gates(ctx, R)


def scoped_switches(ctx, R):
    """Module-level boolean switches of commands.py that can turn the extension checks off for a while: names bound to True at module
    level and re-bound (through `global`) only in functions that give the previous value back on EVERY way out, exceptions included
    (`previous = X; X = False; try: ... finally: X = previous`).  Whoever is not inside such a scope sees True, so a gate may
    treat `not X` like an explicit check_extension=False.  A switch whose scope can be left without the restore is reported."""
    mod = R.cmod
    out = set()
    for name, val in mod.assigns.items():
        if not (isinstance(val, ast.Constant) and val.value is True):
            continue
        writers = [f for f in mod.all_funcs() if any(isinstance(g, ast.Global) and name in g.names for g in ast.walk(f.node))]
        if not writers:
            continue
        ctx.rule("E7", "a switch that suspends the extension checks is restored on every way out of the scope that lowered it")
        ok_all = True
        for f in writers:
            saved = {a.targets[0].id for a in walk_no_nested(f.node) if isinstance(a, ast.Assign) and len(a.targets) == 1
                     and isinstance(a.targets[0], ast.Name) and isinstance(a.value, ast.Name) and a.value.id == name}
            for a in walk_no_nested(f.node):
                if not (isinstance(a, ast.Assign) and any(isinstance(t, ast.Name) and t.id == name for t in a.targets)):
                    continue
                v = a.value
                restoring = (isinstance(v, ast.Constant) and v.value is True) or (isinstance(v, ast.Name) and v.id in saved)
                if restoring:
                    continue
                # a lowering store: the very next statement must be a try whose finally restores the switch
                par = getattr(a, "_parent", None)
                nxt = None
                for fld in ("body", "orelse", "finalbody"):
                    lst = getattr(par, fld, None)
                    if isinstance(lst, list) and a in lst and lst.index(a) + 1 < len(lst):
                        nxt = lst[lst.index(a) + 1]
                good = isinstance(nxt, ast.Try) and any(
                    isinstance(x, ast.Assign) and any(isinstance(t, ast.Name) and t.id == name for t in x.targets) and (
                        (isinstance(x.value, ast.Constant) and x.value.value is True) or (isinstance(x.value, ast.Name) and x.value.id in saved))
                    for x in nxt.finalbody)
                if good:
                    ctx.holds("E7", "%s: %s lowered, restored in a finally clause" % (f.qualname, name))
                else:
                    ok_all = False
                    ctx.violation("E7", f, "switch-not-restored:%s" % name, "%s sets %s = %s without a try/finally that restores it: an exception "
                                  "raised while it is lowered leaves the extension checks off for the rest of the process"
                                  % (f.qualname, name, norm(v)), node=a,
                                  witness="a filter definition rejected by the factory (unknown action) and every later script is accepted "
                                          "whatever it requires")
        if ok_all:
            out.add(name)
    return out


def gates(ctx, R):
    switches = scoped_switches(ctx, R)
    table = R.table()
    by_name = {e["name"]: e for e in table.values() if not e["abstract"]}
    # ---- E2 ----------------------------------------------------------------------
    ctx.rule("E2", "lookup: instance returned only past the extension test (bypass only by checkexists)")
    lk = R.lookup
    cfg = ctx.cfg(lk)
    bypass = [p for p in lk.params if "check" in p.lower()]
    rets = [r for r in walk_no_nested(lk.node) if isinstance(r, ast.Return) and r.value is not None]
    if not rets:
        raise AnalysisError("E2", "lookup returns nothing")

    def gate2(fc):
        e, pol = fact_atom(fc)
        if isinstance(e, ast.Name) and (e.id in bypass or e.id in switches):
            return pol is False
        if registry_test(e, pol) == "loaded":
            return True
        if isinstance(e, ast.Attribute) and e.attr == "extension":
            return pol is False
        if isinstance(e, ast.Name) and e.id in ext_locals:
            return pol is False  # a local holding <class>.extension: falsy means the command needs none
        return False
    ext_locals = {a.targets[0].id for a in walk_no_nested(lk.node) if isinstance(a, ast.Assign) and len(a.targets) == 1
                  and isinstance(a.targets[0], ast.Name) and isinstance(a.value, ast.Attribute) and a.value.attr == "extension"}

    from .geval import lookup_eval
    lev = lookup_eval(ctx, R)
    if lev is not None and lev[0] == "bad":
        ctx.violation("E2", lk, "model:lookup-gate", lev[1], node=lk.node,
                      witness="a command of an extension is accepted although the script does not require that extension (or refused although it does)")
    elif lev is not None:
        ctx.holds("E2", "%s: %d (name, registry, flag) cases answer as the command tables prescribe (look-alike extension names included)"
                  % (lk.qualname, lev[1]))
    _prev_e2 = ctx.demote(["E2"], "the evaluation of the lookup (E2)", keep_keys=("model:",)) if lev is not None and lev[0] == "ok" else None
    for r in rets:
        for nd in cfg.nodes_for(r):
            if cfg.guarded(nd, gate2):
                ctx.holds("E2", "%s: %s behind the extension gate" % (lk.qualname, norm(r)[:40]))
            else:
                p = cfg.unguarded_path(nd, gate2)
                ctx.violation("E2", lk, "command-gate", "a command instance is returned on a path that did not establish that its extension is "
                              "loaded", node=r, path=cfg.describe_path(p) if p else None,
                              witness="`fileinto \"x\";` without `require \"fileinto\"` is accepted")
    if not any(raise_name(r) == "ExtensionNotLoaded" for r in walk_no_nested(lk.node) if isinstance(r, ast.Raise)):
        ctx.violation("E2", lk, "no-raise", "the lookup never raises ExtensionNotLoaded", node=lk.node)
    if _prev_e2 is not None:
        ctx.restore(_prev_e2)
    # the registry consulted is the class-level list
    # ---- E3 ----------------------------------------------------------------------
    # the argument interpreter followed over sample sequences with the extension loaded / not loaded / the check switched off (G11)
    from .geval import g11, arg_eval
    g11(ctx, R, aspects=("gate",))
    _full = arg_eval(ctx, R)
    _prev_e3 = ctx.demote(["E3"], "G11") if _full is not None and _full[0] == "ok" else None
    ctx.rule("E3", "interpreter: an optional slot is recorded only past the slot's extension test")
    cna = R.check_next_arg
    cfgc = ctx.cfg(cna)
    ce = [p for p in cna.params if "extension" in p.lower()]
    if not ce:
        raise AnalysisError("E3", "check_next_arg has no check_extension parameter")
    stores = []
    for st in walk_no_nested(cna.node):
        if isinstance(st, ast.Assign) and any(isinstance(t, ast.Subscript) and isinstance(t.value, ast.Attribute)
                                              and t.value.attr == "arguments" for t in st.targets):
            stores.append(st)

    def required_true(fc):
        e, pol = fact_atom(fc)
        return pol is True and isinstance(e, ast.Call) and call_name(e) == "get" and e.args and const_value(ctx.program, cna, e.args[0]) == "required"

    ext_vars = set()
    for a in walk_no_nested(cna.node):
        if isinstance(a, ast.Assign) and isinstance(a.value, ast.Call) and call_name(a.value) == "get" and a.value.args \
                and const_value(ctx.program, cna, a.value.args[0]) == "extension":
            for t in a.targets:
                if isinstance(t, ast.Name):
                    ext_vars.add(t.id)

    def gate3(fc):
        e, pol = fact_atom(fc)
        if isinstance(e, ast.Name) and (e.id in ce or e.id in switches):
            return pol is False
        if isinstance(e, ast.Name) and e.id in ext_vars:
            return pol is False
        if registry_test(e, pol) == "loaded":
            cp = cmp_parts(e)
            return isinstance(cp[0], ast.Name) and cp[0].id in ext_vars or "extension" in norm(cp[0])
        return False

    # only tag slots carry an extension in the command tables: a value that is not a tag cannot land in an extension-bound slot
    from .c01 import _cna_names
    ATYPE = _cna_names(R)[0]
    ext_only_on_tags = True
    for cname, ent in R.table().items():
        for slot in ent.get("args_definition") or []:
            if isinstance(slot, dict) and slot.get("extension") and slot.get("type") != ["tag"]:
                ext_only_on_tags = False

    def not_a_tag(fc):
        e, pol = fact_atom(fc)
        cp = cmp_parts(e)
        return bool(ext_only_on_tags and cp and cp[1] in ("Eq", "NotEq") and norm(cp[0]) == ATYPE
                    and const_value(ctx.program, cna, cp[2]) == "tag" and ((cp[1] == "Eq") != pol))

    nopt = 0
    for st in stores:
        for nd in cfgc.nodes_for(st):
            if cfgc.guarded(nd, required_true):
                continue  # required slots carry no extension (T2)
            nopt += 1
            if cfgc.guarded(nd, lambda fc: gate3(fc) or not_a_tag(fc)):
                ctx.holds("E3", "%s: optional store %s behind the slot-extension gate" % (cna.qualname, norm(st)[:50]))
            else:
                ctx.violation("E3", cna, "tag-gate", "an optional (tagged) argument is recorded on a path that did not establish that the slot's "
                              "extension is loaded", node=st, witness="`fileinto :copy \"x\";` with only `require \"fileinto\"` is accepted")
    ctx.need("E3", "optional-slot stores", nopt, 1)
    if _prev_e3 is not None:
        ctx.restore(_prev_e3)

    # ---- E4 ----------------------------------------------------------------------
    ctx.rule("E4", "value gate: True for an extension-bound value only when loaded; both call sites pass the caller's flag")
    vv = R.valid_value
    if vv is None:
        raise AnalysisError("E4", "value-validity helper not found")
    cfgv = ctx.cfg(vv)
    cev = [p for p in vv.params if "extension" in p.lower() and "check" in p.lower()]
    # the extension obtained from extension_values
    evars = set()
    for a in walk_no_nested(vv.node):
        if isinstance(a, ast.Assign) and "extension_values" in norm(a.value):
            for t in a.targets:
                if isinstance(t, ast.Name):
                    evars.add(t.id)
    changed = True
    while changed:
        changed = False
        for a in walk_no_nested(vv.node):
            if isinstance(a, ast.Assign) and any(isinstance(x, ast.Name) and x.id in evars for x in ast.walk(a.value)):
                for t in a.targets:
                    if isinstance(t, ast.Name) and t.id not in evars:
                        evars.add(t.id)
                        changed = True
    # ... or tested where it is looked up (`if arg["extension_values"].get(v):`)
    direct = [fc for fc in cfgv.facts() if isinstance(fact_atom(fc)[0], ast.Call) and call_name(fact_atom(fc)[0]) == "get"
              and "extension_values" in norm(fact_atom(fc)[0].func)]
    _e4_structural = True
    if not evars and not direct:
        from .geval import arg_eval as _ae
        _a = _ae(ctx, R)
        if _a is not None and _a[0] == "ok":
            # the value gate is not written as a lookup in extension_values inside this helper; the evaluation G11 followed the
            # argument interpreter (value helper included) over extension-bound values with the extension loaded / not loaded
            ctx.notice("E4", "value helper: lookup in extension_values not recognised; the value gate is decided by the evaluation G11")
            _e4_structural = False
        else:
            raise AnalysisError("E4", "value helper: lookup in extension_values not recognised")
    if _e4_structural:

        def ext_found(fc):
            e, pol = fact_atom(fc)
            if isinstance(e, ast.Name) and e.id in evars and pol is True:
                return True
            if isinstance(e, ast.Call) and call_name(e) == "get" and "extension_values" in norm(e.func) and pol is True:
                return True
            cp = cmp_parts(e)
            if cp and cp[1] in ("In", "NotIn") and (norm(cp[2]) in evars or "extension_values" in norm(cp[2])) and not isinstance(cp[0], ast.Constant):
                return (cp[1] == "In") == pol
            return False

        def gate4(fc):
            e, pol = fact_atom(fc)
            if isinstance(e, ast.Name) and (e.id in cev or e.id in switches):
                return pol is False
            if isinstance(e, ast.Name) and e.id in evars:
                return pol is False  # no extension found for the value after all: nothing to gate on this edge
            if registry_test(e, pol) == "loaded":
                return True
            return False

        vev = value_gate_eval(ctx, R, vv, cev, switches)
        if vev is not None and vev[0] == "bad":
            ctx.violation("E4", vv, "model:value-gate", vev[1], node=vv.node,
                          witness="`if header :REGEX \"a\" \"b\" {...}` without `require \"regex\"` is accepted (or a loaded one refused)")
        elif vev is not None:
            ctx.holds("E4", "%s: %d (slot definition, tag spelling, flag, registry) cases answer as the definition says (extension-bound values in any "
                      "letter case need their extension unless the caller's flag is off)" % (vv.qualname, vev[1]))
        _prev_e4 = ctx.demote(["E4"], "the evaluation of the value helper (E4)", keep_keys=("model:", "value-gate-flag")) \
            if vev is not None and vev[0] == "ok" else None
        k = 0
        for r in walk_no_nested(vv.node):
            if isinstance(r, ast.Return) and r.value is not None and const_value(ctx.program, vv, r.value) is not False:
                for nd in cfgv.nodes_for(r):
                    if not cfgv.guarded(nd, ext_found):
                        continue  # plain `values` branch
                    k += 1
                    if cfgv.guarded(nd, gate4):
                        ctx.holds("E4", "%s: extension-bound value accepted only when loaded" % vv.qualname)
                    else:
                        ctx.violation("E4", vv, "value-gate", "an extension-bound tag value is accepted without the registry test", node=r,
                                      witness="`if header :regex \"a\" \"b\" {...}` without `require \"regex\"` is accepted")
        ctx.need("E4", "extension-value accept paths", k, 1)
        if _prev_e4 is not None:
            ctx.restore(_prev_e4)
        calls = [c for c in walk_no_nested(cna.node) if isinstance(c, ast.Call) and isinstance(c.func, ast.Attribute)
                 and c.func.attr == vv.name]
        ctx.need("E4", "calls of the value helper", len(calls), 2)
        for c in calls:
            a = bound_arg(c, vv, cev[0]) if cev else None
            if isinstance(a, ast.Name) and a.id in ce:
                ctx.holds("E4", "%s passes %s" % (norm(c)[:60], a.id))
            else:
                ctx.violation("E4", cna, "value-gate-flag:%s" % (norm(a) if a is not None else "default"), "the value helper is called with "
                              "check_extension=%s instead of the caller's flag" % (norm(a) if a is not None else "<default>"), node=c)

    # ---- E5 ----------------------------------------------------------------------
    ctx.rule("E5", "no call from parser.py disables the extension checks")
    k = 0
    for f in R.pmod.all_funcs():
        for c in walk_no_nested(f.node):
            if not isinstance(c, ast.Call):
                continue
            cn = call_name(c)
            if cn == R.lookup.name:
                k += 1
                a = bound_arg_fn(c, R.lookup, bypass[0]) if bypass else None
                if a is None:
                    ctx.holds("E5", "%s: %s" % (f.qualname, norm(c)[:60]))
                else:
                    ctx.violation("E5", f, "lookup-bypass", "the parser looks a command up with %s=%s" % (bypass[0], norm(a)), node=c,
                                  witness="extension commands are accepted without require")
            elif cn == "check_next_arg":
                k += 1
                a = bound_arg(c, cna, ce[0])
                if a is None:
                    ctx.holds("E5", "%s: %s" % (f.qualname, norm(c)[:60]))
                else:
                    ctx.violation("E5", f, "arg-bypass", "the parser checks an argument with %s=%s" % (ce[0], norm(a)), node=c,
                                  witness="extension tags are accepted without require")
    ctx.need("E5", "parser calls into the gates", k, 6)

    # ---- E6 ----------------------------------------------------------------------
    ctx.rule("E6", "registry writers: parser reset (empty) and RequireCommand.complete_cb (own argument); complete_cb only from the ';' branch")
    ws = []
    for f in ctx.program.all_funcs():
        for nd in walk_no_nested(f.node):
            if isinstance(nd, ast.Attribute) and nd.attr == "loaded_extensions":
                p = nd._parent
                if isinstance(nd.ctx, (ast.Store, ast.Del)):
                    ws.append((f, stmt_of(nd)))
                elif isinstance(p, ast.Attribute) and p.attr in ("append", "extend", "insert", "remove", "pop", "clear") \
                        and isinstance(p._parent, ast.Call):
                    ws.append((f, stmt_of(nd)))
                elif isinstance(p, ast.Subscript) and isinstance(p.ctx, (ast.Store, ast.Del)):
                    ws.append((f, stmt_of(nd)))
    ctx.need("E6", "registry writes", len(ws), 1)
    if not any(f is R.reset for f, _ in ws):
        ctx.violation("E6", R.reset, "registry-not-emptied-by-reset", "the parser reset does not empty the extension registry: extensions required "
                      "by a previously parsed script stay loaded", node=R.reset.node,
                      witness="parse('require \"fileinto\";') then parse('fileinto \"x\";'): the second script is accepted")
    for f, st in ws:
        if f is R.reset:
            v = st.value if isinstance(st, ast.Assign) else None
            is_clear = isinstance(st, ast.Expr) and isinstance(st.value, ast.Call) and call_name(st.value) == "clear"
            if is_clear or (v is not None and R.fresh_start_value(v) is not None):
                ctx.holds("E6", "%s starts the registry anew (%s)" % (f.qualname, "cleared" if is_clear else R.fresh_start_value(v)))
            else:
                ctx.violation("E6", f, "reset-not-empty", "the parser reset writes %s to the registry" % norm(st), node=st)
        elif f.cls is R.Require and f.name == "complete_cb":
            ctx.holds("E6", "%s: %s" % (f.qualname, norm(st)[:60]))
        else:
            ctx.violation("E6", f, "foreign-registry-write", "the extension registry is modified in %s: %s" % (f.qualname, norm(st)[:60]), node=st,
                          witness="an extension counts as required although the script has no such require")
    # what complete_cb adds comes from its own argument
    if R.Require is not None and "complete_cb" in R.Require.methods:
        cb = R.Require.methods["complete_cb"]
        from .geval import require_eval
        rqv = require_eval(ctx, R)
        if rqv is not None and rqv[0] == "bad":
            ctx.violation("E6", cb, "model:require", rqv[1], node=cb.node,
                          witness="an extension that no require names counts as loaded, or a required one does not")
        elif rqv is not None:
            ctx.holds("E6", "%s: %d (argument shape, registry) cases load exactly the names the command wrote" % (cb.qualname, rqv[1]))
        _prev_e6 = ctx.demote(["E6"], "the evaluation of complete_cb (E6)", keep_keys=("model:", "registry-not-emptied", "reset-", "foreign-registry",
                                                                                     "complete-cb-")) if rqv is not None and rqv[0] == "ok" else None
        src_ok = any(isinstance(s_, ast.Subscript) and "arguments" in norm(s_.value) for s_ in ast.walk(cb.node))
        if src_ok:
            ctx.holds("E6", "%s takes the names from the command's own arguments" % cb.qualname)
        else:
            ctx.violation("E6", cb, "registry-source", "complete_cb does not read the names from the command's arguments", node=cb.node)
        # every value added is the loop variable over the command's own capabilities (quotes stripped)
        arg_vars = set()
        for a in walk_no_nested(cb.node):
            if isinstance(a, ast.Assign) and any("arguments" in norm(x) for x in ast.walk(a.value) if isinstance(x, (ast.Subscript, ast.Attribute))):
                arg_vars |= {t.id for t in a.targets if isinstance(t, ast.Name)}
        # every written name is looked at: the loop over the names is not left early
        for lp in walk_no_nested(cb.node):
            if isinstance(lp, ast.For):
                early = [x for x in walk_no_nested(lp) if isinstance(x, (ast.Return, ast.Break))]
                if early:
                    ctx.violation("E6", cb, "registry-loop-left-early", "the loop over the required names is left by `%s`: the names after that "
                                  "point are not loaded" % norm(early[0])[:20], node=early[0],
                                  witness='`require ["fileinto", "fileinto", "copy"];` does not load copy')
                else:
                    ctx.holds("E6", "%s visits every required name" % cb.qualname)
        # the list iterated is the argument itself (or the argument wrapped in a list): nothing may re-split or re-derive the names
        for a in walk_no_nested(cb.node):
            if isinstance(a, ast.Assign) and any(isinstance(t, ast.Name) and t.id in arg_vars for t in a.targets):
                for c_ in ast.walk(a.value):
                    if isinstance(c_, ast.Call) and call_name(c_) not in ("strip", "list", "tuple", "isinstance", "type"):
                        ctx.violation("E6", cb, "registry-names-rederived:%s" % call_name(c_), "the names to load are re-derived with %s: a single written "
                                      "name can become several" % norm(c_)[:50], node=a,
                                      witness='`require "fileinto,copy";` loads two extensions that no require names')
        loopvars = {lp.target.id for lp in walk_no_nested(cb.node) if isinstance(lp, ast.For) and isinstance(lp.target, ast.Name)
                    and any(isinstance(x, ast.Name) and x.id in arg_vars for x in ast.walk(lp.iter))}
        for f_, st_ in ws:
            if f_ is not cb:
                continue
            vals = []
            if isinstance(st_, ast.AugAssign) and isinstance(st_.value, ast.List):
                vals = st_.value.elts
            elif isinstance(st_, ast.Expr) and isinstance(st_.value, ast.Call) and st_.value.args:
                vals = st_.value.args
            else:
                vals = [getattr(st_, "value", None)]
            def written_name(e, depth=0):
                # the loop variable, its text with the quotes stripped, or a local holding one of these
                if depth > 4 or e is None:
                    return False
                if isinstance(e, ast.Name):
                    if e.id in loopvars:
                        return True
                    ds = [a for a in walk_no_nested(cb.node) if isinstance(a, ast.Assign) and any(isinstance(t, ast.Name) and t.id == e.id for t in a.targets)]
                    return bool(ds) and all(written_name(a.value, depth + 1) for a in ds)
                if isinstance(e, ast.Call) and isinstance(e.func, ast.Attribute) and e.func.attr == "strip" and len(e.args) <= 1 and not e.keywords \
                        and all(isinstance(x, ast.Constant) and x.value in ('"', "'", '"\'', ' "') for x in e.args):
                    return written_name(e.func.value, depth + 1)
                return False
            for v_ in vals:
                if written_name(v_):
                    ctx.holds("E6", "%s adds the required name itself (%s)" % (cb.qualname, norm(v_)[:40]))
                else:
                    ctx.violation("E6", cb, "registry-foreign-value:%s" % (norm(v_)[:40] if v_ is not None else "?"), "complete_cb loads %s, which is "
                                  "not one of the names written in the require command" % (norm(v_)[:60] if v_ is not None else "?"), node=st_,
                                  witness="an extension that no require names counts as loaded (e.g. vacation through vacation-seconds)")
        if _prev_e6 is not None:
            ctx.restore(_prev_e6)
    # callers of complete_cb
    callers = []
    for f in ctx.program.all_funcs():
        for c in walk_no_nested(f.node):
            if isinstance(c, ast.Call) and call_name(c) == "complete_cb":
                callers.append((f, c))
    for f, c in callers:
        if f is R.command:
            cfgm = ctx.cfg(f)

            def semi(fc):
                e, pol = fact_atom(fc)
                cp = cmp_parts(e)
                return bool(cp and pol is True and cp[1] == "Eq" and const_value(ctx.program, f, cp[2]) == "semicolon")
            if all(cfgm.guarded(nd, semi) for nd in cfgm.node_containing(c)):
                ctx.holds("E6", "complete_cb invoked only on ';' in %s" % f.qualname)
            else:
                ctx.violation("E6", f, "complete-cb-early", "complete_cb is invoked outside the ';' branch", node=c)
        else:
            ctx.violation("E6", f, "complete-cb-foreign", "complete_cb is invoked from %s" % f.qualname, node=c)
    ctx.need("E6", "complete_cb call sites", len(callers), 1)

    # ---- E7 ----------------------------------------------------------------------
    ctx.rule("E7", "message text: extension '<name>' not loaded")
    exc = R.cmod.classes.get("ExtensionNotLoaded")
    if exc is None or "__str__" not in exc.methods:
        raise AnalysisError("E7", "ExtensionNotLoaded.__str__ not found")
    sf = exc.methods["__str__"]
    rets = [r for r in walk_no_nested(sf.node) if isinstance(r, ast.Return) and r.value is not None]
    good = False
    for r in rets:
        v = r.value
        fmt = None
        if isinstance(v, ast.Call) and isinstance(v.func, ast.Attribute) and v.func.attr == "format" and isinstance(v.func.value, ast.Constant):
            fmt = v.func.value.value.replace("{}", "%s").replace("{0}", "%s")
            arg = v.args[0] if v.args else None
        elif isinstance(v, ast.BinOp) and isinstance(v.op, ast.Mod) and isinstance(v.left, ast.Constant):
            fmt = v.left.value
            arg = v.right.elts[0] if isinstance(v.right, ast.Tuple) and v.right.elts else v.right
        elif isinstance(v, ast.JoinedStr):
            fmt = "".join(p.value if isinstance(p, ast.Constant) else "%s" for p in v.values)
            arg = next((p.value for p in v.values if isinstance(p, ast.FormattedValue)), None)
        if fmt == "extension '%s' not loaded" and arg is not None and norm(arg).endswith(".name"):
            good = True
    if good:
        ctx.holds("E7", "ExtensionNotLoaded.__str__ == \"extension '<name>' not loaded\"")
    else:
        ctx.violation("E7", sf, "message", "the message is not `extension '<name>' not loaded`: %s" % (norm(rets[0].value) if rets else "?"),
                      node=sf.node)
    init = exc.methods.get("__init__")
    if init is not None and any(isinstance(a, ast.Assign) and norm(a.targets[0]).endswith(".name") and isinstance(a.value, ast.Name)
                                and a.value.id in init.params for a in walk_no_nested(init.node)):
        ctx.holds("E7", "ExtensionNotLoaded stores the extension name it is given")
    # every raise passes the extension that was tested
    from .geval import lookup_eval, arg_eval
    _lev, _aev = lookup_eval(ctx, R), arg_eval(ctx, R)
    for f in (R.lookup, cna, vv):
        # what the exception names was compared by the evaluations (E2 for the lookup, G11 for the argument interpreter and its value helper)
        _followed = (_lev is not None and _lev[0] == "ok") if f is R.lookup else (_aev is not None and _aev[0] == "ok")
        _prev_e7 = ctx.demote(["E7"], "the evaluation", keep_keys=("message", "switch-")) if _followed else None
        for r in walk_no_nested(f.node):
            if isinstance(r, ast.Raise) and raise_name(r) == "ExtensionNotLoaded":
                a = r.exc.args[0] if isinstance(r.exc, ast.Call) and r.exc.args else None
                cf = ctx.cfg(f)
                tested = False
                for fc in cf.facts():
                    e, pol = fact_atom(fc)
                    cp = cmp_parts(e)
                    if cp and registry_test(e, pol) == "missing" and a is not None and norm(cp[0]) == norm(a):
                        if all(cf.guarded(nd, lambda x, fc=fc: x is fc) for nd in cf.nodes_for(r)):
                            tested = True
                if tested:
                    ctx.holds("E7", "%s: raises with the extension that was found missing (%s)" % (f.qualname, norm(a)))
                else:
                    ctx.violation("E7", f, "raise-names-other:%s" % (norm(a) if a is not None else "?"), "ExtensionNotLoaded is raised naming %s, "
                                  "which is not the extension found missing" % (norm(a) if a is not None else "nothing"), node=r)
        if _prev_e7 is not None:
            ctx.restore(_prev_e7)


def bound_arg_fn(call, func, pname):
    params = list(func.params)
    if pname in params:
        i = params.index(pname)
        for k in call.keywords:
            if k.arg == pname:
                return k.value
        if i < len(call.args):
            return call.args[i]
    return None


def value_gate_eval(ctx, R, vv, cev, switches):
    """E4 by evaluation: the value helper interpreted for slot definitions with plain and extension-bound values, tag spellings in
    several letter cases, both settings of the caller's flag and an empty / a filled registry.
    -> ("ok", n) | ("bad", what) | None when the interpreter cannot follow the helper."""
    from sa import fd
    from sa.util import module_resolver
    if len(vv.params) < 3 or len(cev) != 1 or switches:
        return None
    sn, parg, pval = vv.params[0], vv.params[1], vv.params[2]
    defs = [
        {"name": "match-type", "type": ["tag"], "values": [":is", ":contains"], "extension_values": {":regex": "regex", ":count": "relational"}},
        {"name": "match-type", "type": ["tag"], "extension_values": {":regex": "regex"}},
        {"name": "match-type", "type": ["tag"], "values": [":is"]},
        {"name": "x", "type": ["tag"]},
    ]
    tags = [":is", ":IS", ":regex", ":REGEX", ":Count", ":bogus"]

    def oracle(interp, e, name, recv, args, kw, st):
        if name and name.startswith("self.") and (name[5:] in R.Command.methods or mangle(R.Command.name, name[5:]) in R.Command.methods):
            m = R.Command.methods.get(name[5:]) or R.Command.methods[mangle(R.Command.name, name[5:])]
            if m.node is not interp.f:
                return fd.Inline(m)
        fn = e.func
        if isinstance(fn, ast.Name) and fn.id in R.cmod.funcs:
            return fd.Inline(R.cmod.funcs[fn.id])
        return None
    n = 0
    for d in defs:
        for tag in tags:
            for flag in (True, False):
                for loaded in ([], ["regex"], ["relational", "regex"], ["reg", "relation", "ex", ""]):
                    ext = {k: v for k, v in d.get("extension_values", {}).items()}.get(tag.lower())
                    plain = tag.lower() in d.get("values", [])
                    if "values" not in d and "extension_values" not in d:
                        want = True
                    elif plain:
                        want = True
                    elif ext is not None:
                        want = ("raise", ext) if flag and ext not in loaded else True
                    else:
                        want = False
                    env = {parg: fd.Const(dict(d)), pval: fd.Const(tag), cev[0]: fd.Const(flag),
                           "RequireCommand.loaded_extensions": fd.Const(list(loaded))}
                    it = fd.Interp(vv.node, R.Command.name, oracle, resolve=module_resolver(ctx.program, R.cmod), loop_unroll=8, max_paths=60)
                    try:
                        ps = it.run(env)
                    except fd.TooManyPaths:
                        return None
                    if len(ps) != 1:
                        return None
                    p = ps[0]
                    if p.kind == "raise":
                        got = ("raise", None)
                        if p.value != "ExtensionNotLoaded":
                            return None
                    elif isinstance(p.value, fd.Const) and isinstance(p.value.v, bool):
                        got = p.value.v
                    else:
                        t_ = fd.truth(p.value)
                        if t_ is None:
                            return None
                        got = t_
                    n += 1
                    ok = (got == want) if not isinstance(want, tuple) else (isinstance(got, tuple))
                    if not ok:
                        return ("bad", "for the tag %s, a slot with values %r and extension-bound values %r, %s=%s and the extensions %r loaded, the value "
                                "helper %s; the definition says: %s" % (
                                    tag, d.get("values"), d.get("extension_values"), cev[0], flag, loaded,
                                    "raises ExtensionNotLoaded" if isinstance(got, tuple) else "answers %r" % got,
                                    "ExtensionNotLoaded(%s)" % want[1] if isinstance(want, tuple) else want))
    return ("ok", n)
