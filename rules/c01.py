"""C01 - Parser accepts exactly the valid scripts of its supported language.

L1-L4 lexer language / precedence / flags / case, T1-T5 command tables,
P1-P9 state-machine disciplines, G2-G6 argument-interpreter disciplines.
"""
import ast
import json
import os

from sa import rx
from sa.model import AnalysisError, walk_no_nested, norm, call_name, stmt_of
from sa.util import fact_atom, fact_call, cmp_parts, const_value, raise_name, contains, bound_arg
from sa.consteval import TOP
from .proles import ParserRoles
from .c02 import t4, expr_guards, _atom
from ref import lexer_spec

HERE = os.path.dirname(os.path.abspath(__file__))
REF = os.path.join(os.path.dirname(HERE), "ref")
VALID_TYPES = {"tag", "string", "stringlist", "number", "test", "testlist"}


def run(ctx):
    R = ParserRoles(ctx, "C01")
    ctx.explanation = (
        "Lexer: (L1) for each token rule the extent selected by Python's matcher equals that of an independently written "
        "RFC 5228 reference (regex -> automaton with one-symbol look-ahead; selection discipline longest/shortest "
        "proved from the pattern's shape); (L2) wherever two rules can match at one position their order equals the "
        "reference order; (L3) compile flags and master-pattern construction; (L4) identifiers/tags accept both cases. "
        "Tables: (T1) the statically evaluated command tables equal the reviewed reference table; (T2) every slot "
        "definition is well-formed; (T3) class attributes are consistent; (T4) the lookup scheme only reaches concrete "
        "commands; (T5) every optional slot is reachable. State machine: (P1) every verdict of the argument checker and "
        "of addchild is consumed; (P2) at end of input each pending-construct component is examined and rejected when "
        "non-empty; (P3) role checks dominate adoption of a command; (P4) brackets are pushed/popped pairwise and the "
        "pop raises on mismatch; (P5/P9) a block opens only on a control that takes one, ';' only ends commands that "
        "take none; (P6) must_follow is enforced before recording; (P7) the expected-token set is enforced before "
        "dispatch; (P8) lookup lower-cases. Interpreter: (G2) a pending tag parameter is either recorded or rejected; "
        "(G4) every store is dominated by the type and value tests of the same slot; (G5) a failed match always raises; "
        "(G6) tag tokens are compared case-insensitively.")
    ctx.not_decided = ("that the state machine as a whole recognises exactly the RFC 5228 language (language equivalence between ~300 lines of "
                       "Python and a grammar is not decided by shape).")
    lexer_rules(ctx, R)
    t1(ctx, R)
    t2(ctx, R)
    t3(ctx, R)
    t4(ctx, R, "T4")
    t5(ctx, R)
    p1(ctx, R)
    p2(ctx, R)
    p3(ctx, R)
    p4(ctx, R)
    p5_p9(ctx, R)
    p6(ctx, R)
    p7(ctx, R)
    p8(ctx, R)
    p12(ctx, R)
    p13(ctx, R)
    p14(ctx, R)
    p15(ctx, R)
    p16(ctx, R)
    from .p17 import p17
    p17(ctx, R)
    from .c03 import g9, t3p
    from .geval import with_g11
    with_g11(ctx, R, [g2, g4, g5, g6, g9])
    t3p(ctx, R)
    # a verdict is returned at all: no str-only method on a list / test value before the slot's type test (X14 of C02)
    from .c02 import x14
    x14(ctx, R)
    # "has required every extension it uses": the three gates, registry ownership and its per-parse reset (rules of C07 / C13)
    from .c07 import gates
    from .c13 import h3, h2
    gates(ctx, R)
    h3(ctx, R)
    # the verdict for a script is decided by that script alone: parser state written while handling tokens is re-initialised (H2 of C13)
    h2(ctx, R)


# =============================================================================== lexer
def lexer_rules(ctx, R, rules=("L1", "L2", "L3", "L4")):
    import re
    names = [n for n, _ in R.lrules]
    if "L1" in rules:
        ctx.rule("L1", "token extent selected by each lexer rule == reference (RFC 5228 8.1)")
        thorough = ctx.tier == "thorough"
        for name, pat in R.lrules + [("<whitespace>", R.ws_pattern)]:
            ref = lexer_spec.TOKENS.get(name) if name != "<whitespace>" else lexer_spec.WHITESPACE
            if ref is None:
                ctx.notice("L1", "lexer rule %s is not in the reference (new token class): language not compared" % name)
                continue
            try:
                P = R.pattern(name) if name != "<whitespace>" else rx.Pattern(pat, R.ws_flags)
                Q = rx.Pattern(ref[0], re.M)
                disc = rx.discipline(P)
                if disc is None:
                    ctx.notice("L1", "rule %s (%r): selection discipline not decidable by RX; only the language is compared" % (name, pat))
                    d = rx.language_diff(P, Q)
                    w = None if d is None else (d[0], "language differs")
                else:
                    w = rx.selection_diff(P, disc, Q, ref[1])
            except rx.Undecidable as e:
                ctx.notice("L1", "rule %s (%r) not analysable: %s" % (name, pat, e))
                continue
            if w is None:
                ctx.holds("L1", "rule %s: %r selects the same extents as the reference" % (name, pat))
            else:
                ctx.violation("L1", "Parser.lrules", "token-language:%s" % name, "lexer rule %s (%r) tokenises %r differently from the "
                              "reference %r (%s)" % (name, pat, w[0], ref[0], w[1]), file=R.pmod.relpath, line=R.Parser.node.lineno,
                              witness="a script containing %r" % (w[0],))
        missing = [n for n in lexer_spec.TOKENS if n not in names]
        for n in missing:
            ctx.violation("L1", "Parser.lrules", "token-missing:%s" % n, "token class %s has no lexer rule" % n, file=R.pmod.relpath,
                          line=R.Parser.node.lineno)
        ctx.need("L1", "lexer rules", len(names), 12)
    if "L2" in rules:
        ctx.rule("L2", "ordered alternation: overlapping rules are listed in the reference order")
        npairs = nover = 0
        for i in range(len(names)):
            for j in range(i + 1, len(names)):
                a, b = names[i], names[j]
                npairs += 1
                try:
                    w = rx.overlap(R.pattern(a), R.pattern(b))
                except rx.Undecidable:
                    continue
                if w is None:
                    continue
                nover += 1
                if a in lexer_spec.ORDER and b in lexer_spec.ORDER:
                    if lexer_spec.ORDER.index(a) < lexer_spec.ORDER.index(b):
                        ctx.holds("L2", "%s before %s (both can match at the start of %r)" % (a, b, w))
                    else:
                        ctx.violation("L2", "Parser.lrules", "precedence:%s/%s" % (b, a), "rule %s is listed before %s although both can match "
                                      "%r and the reference gives %s precedence" % (a, b, w, b), file=R.pmod.relpath, line=R.Parser.node.lineno,
                                      witness="input %r is tokenised as %s" % (w, a))
                else:
                    ctx.notice("L2", "rules %s and %s overlap on %r; one of them is not in the reference" % (a, b, w))
        ctx.holds("L2", "%d rule pairs examined on the product automaton, %d overlapping" % (npairs, nover))
    if "L3" in rules:
        ctx.rule("L3", "compile flags / master pattern construction / no constructs that break lastgroup dispatch")
        uses_dollar = any(rx.has_anchor(p, 0, "end") for _, p in R.lrules)
        ml = bool(R.master_flags & re.M)
        if uses_dollar and not ml:
            ctx.violation("L3", "Lexer.__init__", "multiline-flag", "lexer rules use `$` but the master pattern is compiled without re.MULTILINE: "
                          "`$` only matches at the end of the script", file=R.pmod.relpath, line=R.master_node.lineno,
                          witness="a hash comment followed by another line is an unknown token")
        else:
            ctx.holds("L3", "re.MULTILINE=%s, rules use $: %s" % (ml, uses_dollar))
        # (re.DOTALL only changes what `.` matches: rule L1 compares every rule's language under the flags actually used)
        extra = R.master_flags & ~(re.M | re.U | re.S)
        if extra:
            ctx.violation("L3", "Lexer.__init__", "extra-flags", "the master pattern is compiled with extra flags %s (IGNORECASE/DOTALL/VERBOSE "
                          "change every rule's language)" % re.RegexFlag(extra), file=R.pmod.relpath, line=R.master_node.lineno)
        for name, pat in R.lrules:
            bad = rx.uses_unsupported(pat, R.master_flags)
            if bad and set(bad) <= {"look-around", "possessive/atomic"}:
                # these do not disturb the dispatch on the group name; the regex model of this tool (sa/rx.py) has no automaton for them:
                # the language rules cannot be decided for this rule - no verdict, not a violation
                raise AnalysisError("L3", "lexer rule %s uses %s, which the regex model does not cover: its language is not decided" % (name, bad))
            if bad:
                ctx.violation("L3", "Parser.lrules", "construct:%s" % name, "lexer rule %s uses %s, which breaks the group-name dispatch" % (name, bad),
                              file=R.pmod.relpath, line=R.Parser.node.lineno)
            else:
                ctx.holds("L3", "rule %s: plain pattern" % name)
        # construction: (?P<name>pattern) joined by | in definition order; Parser passes lrules
        init = R.Lexer.methods["__init__"]
        src = norm(init.node)
        ok = "(?P<%s>%s)" in src and ".join(" in src and "'|'" in src
        iters = [n.iter for n in walk_no_nested(init.node) if isinstance(n, ast.For)] + [
            g.iter for n in walk_no_nested(init.node) if isinstance(n, (ast.ListComp, ast.GeneratorExp)) for g in n.generators]
        ok = ok and any("definitions" in norm(it) and not isinstance(it, ast.Call) for it in iters)
        pinit = R.Parser.methods.get("__init__")
        ok2 = pinit is not None and any(isinstance(c, ast.Call) and call_name(c) == "Lexer" and c.args and "lrules" in norm(c.args[0])
                                        for c in walk_no_nested(pinit.node))
        if ok and ok2:
            ctx.holds("L3", "master pattern = '|'.join('(?P<name>pattern)') over Parser.lrules in definition order")
        else:
            ctx.violation("L3", "Lexer.__init__", "master-construction", "the master pattern is not the ordered alternation of the named rules",
                          file=R.pmod.relpath, line=init.node.lineno)
        # dispatch uses lastgroup
        scan_src = norm(R.scan.node)
        if "lastgroup" in scan_src:
            ctx.holds("L3", "scan dispatches on m.lastgroup")
        else:
            ctx.violation("L3", R.scan, "no-lastgroup", "scan does not derive the token type from m.lastgroup", node=R.scan.node)
    if "L4" in rules:
        ctx.rule("L4", "identifier and tag classes contain both letter cases")
        for name in ("identifier", "tag"):
            try:
                bs = rx.byteset(R.pattern(name))
                fb = rx.first_bytes(R.pattern(name)) if name == "identifier" else bs
            except (AnalysisError, rx.Undecidable):
                continue
            lower = all(bs >> c & 1 and fb >> c & 1 for c in range(97, 123))
            upper = all(bs >> c & 1 and fb >> c & 1 for c in range(65, 91))
            if lower and upper:
                ctx.holds("L4", "rule %s accepts a-z and A-Z" % name)
            else:
                ctx.violation("L4", "Parser.lrules", "case:%s" % name, "rule %s does not accept both letter cases" % name, file=R.pmod.relpath,
                              line=R.Parser.node.lineno, witness="`IF TRUE { KEEP; }` is a lexical error")


# =============================================================================== tables
def norm_slot(s):
    ea = s.get("extra_arg")
    d = {"name": s.get("name"), "type": sorted(s.get("type") or []), "required": bool(s.get("required", False))}
    if "values" in s:
        d["values"] = sorted(s["values"])
    if "extension" in s:
        d["extension"] = s["extension"]
    if "extension_values" in s:
        d["extension_values"] = dict(sorted(s["extension_values"].items()))
    if ea is not None:
        t = ea.get("type")
        e = {"type": sorted(t) if isinstance(t, list) else [t]}
        if "values" in ea:
            e["values"] = sorted(ea["values"])
        if "valid_for" in ea:
            e["valid_for"] = sorted(ea["valid_for"])
        d["extra_arg"] = e
    return d


def t1(ctx, R):
    ctx.rule("T1", "evaluated command tables == reviewed reference table (ref/command_spec.json)")
    with open(os.path.join(REF, "command_spec.json")) as fp:
        ref = json.load(fp)
    by_name = {e["name"]: e for e in R.concrete().values()}
    n = 0
    for cmd, r in sorted(ref.items()):
        e = by_name.get(cmd)
        if e is None:
            ctx.violation("T1", "commands.%s" % r["class"], "command-removed:%s" % cmd, "supported command %s is no longer defined" % cmd,
                          file=R.cmod.relpath, line=1, witness="`%s ...` is now an unknown command" % cmd)
            continue
        where = dict(file=R.cmod.relpath, line=e["lineno"])
        for attr, key in (("_type", "type"), ("accept_children", "accept_children"), ("variable_args_nb", "variable_args_nb"),
                          ("non_deterministic_args", "non_deterministic_args"), ("must_follow", "must_follow"), ("extension", "extension")):
            n += 1
            got = e.get(attr)
            want = r[key]
            if isinstance(want, bool):
                got = bool(got)
            if got == want:
                ctx.holds("T1", "%s.%s = %r" % (cmd, key, want))
            else:
                ctx.violation("T1", e["class"], "attr:%s.%s" % (cmd, key), "command %s: %s is %r, the reference says %r" % (cmd, key, got, want),
                              witness=attr_witness(cmd, key, got, want), **where)
        slots = [norm_slot(s) for s in e["args_definition"]]
        rslots = r["slots"]
        # required sequence
        req = [s for s in slots if s["required"]]
        rreq = [s for s in rslots if s["required"]]
        n += 1
        if [(s["name"], s["type"], s.get("values")) for s in req] == [(s["name"], s["type"], s.get("values")) for s in rreq]:
            ctx.holds("T1", "%s: required arguments %s" % (cmd, [s["name"] for s in rreq]))
        else:
            ctx.violation("T1", e["class"], "required:%s" % cmd, "command %s: required arguments are %s, the reference says %s" % (
                cmd, [(s["name"], s["type"]) for s in req], [(s["name"], s["type"]) for s in rreq]),
                witness="a valid `%s` with the reference's arguments is rejected, or an invalid one accepted" % cmd, **where)
        # optional slots
        opt = {s["name"]: s for s in slots if not s["required"]}
        ropt = {s["name"]: s for s in rslots if not s["required"]}
        for nm, rs in ropt.items():
            n += 1
            s = opt.get(nm)
            if s is None:
                ctx.violation("T1", e["class"], "slot-removed:%s.%s" % (cmd, nm), "command %s: optional argument %s %s is no longer accepted"
                              % (cmd, nm, rs.get("values") or list((rs.get("extension_values") or {}).keys())),
                              witness="`%s %s ...` is rejected" % (cmd, (rs.get("values") or [nm])[0]), **where)
            elif s == rs:
                ctx.holds("T1", "%s: optional %s" % (cmd, nm))
            else:
                diffs = [k for k in set(s) | set(rs) if s.get(k) != rs.get(k)]
                ctx.violation("T1", e["class"], "slot:%s.%s:%s" % (cmd, nm, ",".join(sorted(diffs))), "command %s: optional argument %s differs "
                              "from the reference in %s: %s vs %s" % (cmd, nm, diffs, {k: s.get(k) for k in diffs}, {k: rs.get(k) for k in diffs}),
                              witness=slot_witness(cmd, nm, s, rs, diffs), **where)
        for nm in opt:
            if nm not in ropt:
                ctx.notice("T1", "command %s has a new optional argument %s (extends the supported language)" % (cmd, nm))
        # positions of optional non-tag slots relative to the required ones
        def posmap(sl):
            out = {}
            k = 0
            for s in sl:
                if s["required"]:
                    k += 1
                elif "tag" not in s["type"]:
                    out[s["name"]] = k
            return out
        if posmap(slots) != posmap(rslots):
            ctx.violation("T1", e["class"], "positional-order:%s" % cmd, "command %s: optional positional arguments moved: %s vs reference %s"
                          % (cmd, posmap(slots), posmap(rslots)), **where)
    for cmd in by_name:
        if cmd not in ref:
            ctx.notice("T1", "command %s is not in the reference table (new command): checked by T2/T3 only" % cmd)
    ctx.need("T1", "table comparisons", n, 200)


def attr_witness(cmd, key, got, want):
    if key == "extension":
        return "`%s` is accepted without `require \"%s\"`" % (cmd, want) if want else "`%s` now needs a require" % cmd
    if key == "accept_children":
        return "`%s ... { }` verdict changes" % cmd
    if key == "must_follow":
        return "`%s` is accepted where it must not appear (e.g. without a preceding if)" % cmd
    if key == "type":
        return "`%s` is accepted in the wrong role (test as command or vice versa)" % cmd
    return "verdict of scripts using %s changes" % cmd


def slot_witness(cmd, nm, s, rs, diffs):
    if "values" in diffs:
        a, b = set(s.get("values") or []), set(rs.get("values") or [])
        if b - a:
            return "`%s %s ...` is rejected" % (cmd, sorted(b - a)[0])
        if a - b:
            return "`%s %s ...` is accepted" % (cmd, sorted(a - b)[0])
    if "extra_arg" in diffs:
        return "the parameter of %s's %s tag is checked differently (type / allowed values / which tags take it)" % (cmd, nm)
    if "extension" in diffs or "extension_values" in diffs:
        return "%s's %s tag is accepted without the require it needs" % (cmd, nm)
    return "verdict of `%s` with %s changes" % (cmd, nm)


def t2(ctx, R):
    ctx.rule("T2", "well-formedness of every args_definition slot")
    n = 0
    for cname, e in sorted(R.concrete().items()):
        slots = e["args_definition"]
        where = dict(file=R.cmod.relpath, line=e["lineno"])
        if not isinstance(slots, list):
            ctx.violation("T2", cname, "not-a-list", "args_definition of %s is not a list" % cname, **where)
            continue
        names = [s.get("name") for s in slots if isinstance(s, dict)]
        if len(set(names)) != len(names):
            ctx.violation("T2", cname, "duplicate-slot-name", "%s: duplicate slot names %s" % (cname, names), **where)
        for i, s in enumerate(slots):
            n += 1
            key = "%s[%d]" % (cname, i)
            probs = []
            if not isinstance(s, dict):
                probs.append("slot is not a dict")
            else:
                if not isinstance(s.get("name"), str):
                    probs.append("name missing")
                t = s.get("type")
                if not isinstance(t, list) or not t or not set(t) <= VALID_TYPES:
                    probs.append("type %r not a non-empty list of %s" % (t, sorted(VALID_TYPES)))
                    t = []
                for v in (s.get("values") or []):
                    if "tag" in t and not (isinstance(v, str) and v.startswith(":") and v == v.lower()):
                        probs.append("tag value %r must be lower-case and start with ':'" % (v,))
                for v in (s.get("extension_values") or {}):
                    if not (isinstance(v, str) and v.startswith(":") and v == v.lower()):
                        probs.append("extension tag value %r must be lower-case and start with ':'" % (v,))
                if "tag" in t and not s.get("values") and not s.get("extension_values"):
                    probs.append("tag slot without values: any tag would match")
                ea = s.get("extra_arg")
                if ea is not None:
                    if not isinstance(ea, dict) or "type" not in ea:
                        probs.append("extra_arg without type")
                    else:
                        et = ea["type"] if isinstance(ea["type"], list) else [ea["type"]]
                        if not set(et) <= {"string", "stringlist", "number"}:
                            probs.append("extra_arg type %r" % (ea["type"],))
                        allowed = set(s.get("values") or []) | set((s.get("extension_values") or {}).keys())
                        if not set(ea.get("valid_for") or []) <= allowed:
                            probs.append("valid_for %s not among the slot's tags" % (ea.get("valid_for"),))
                    if "tag" not in t:
                        probs.append("extra_arg on a non-tag slot")
                if s.get("required") and ("extension" in s):
                    probs.append("extension on a required slot is never consulted by the interpreter")
                if "testlist" in t and not (s.get("required") and e["variable_args_nb"] and len([x for x in slots if x.get("required")]) == 1):
                    probs.append("testlist must be the sole required slot of a variable_args_nb command")
                if "test" in t and not s.get("required"):
                    probs.append("optional test slot")
            if probs:
                ctx.violation("T2", cname, "slot:%s:%s" % (key, probs[0][:40]), "%s slot %s: %s" % (cname, s.get("name") if isinstance(s, dict) else i,
                                                                                                  "; ".join(probs)), **where)
            else:
                ctx.holds("T2", "%s.%s" % (cname, s["name"]))
    ctx.need("T2", "slots", n, 60)


def t3(ctx, R):
    ctx.rule("T3", "class-attribute consistency (overrides the interpreter relies on)")
    table = R.concrete()
    names = {e["name"] for e in table.values()}
    for cname, e in sorted(table.items()):
        where = dict(file=R.cmod.relpath, line=e["lineno"])
        ok = True
        if e.get("_type") not in ("control", "action", "test"):
            ok = False
            ctx.violation("T3", cname, "no-type", "%s has no _type (control/action/test) through its bases" % cname,
                          witness="`%s` raises NotImplementedError out of parse()" % e["name"], **where)
        if e["non_deterministic_args"] and "reassign_arguments" not in e["overrides"]:
            ok = False
            ctx.violation("T3", cname, "no-reassign", "%s sets non_deterministic_args but does not override reassign_arguments" % cname,
                          witness="NotImplementedError out of parse()", **where)
        types = {t for s in e["args_definition"] for t in (s.get("type") or [])}
        if types & {"test", "testlist"} and "get_expected_first" not in e["overrides"] and "get_expected_first" in R.Command.methods:
            ok = False
            ctx.violation("T3", cname, "no-expected-first", "%s takes a test but does not override get_expected_first: `%s ;` style garbage is "
                          "not rejected at the next token" % (cname, e["name"]), **where)
        if "testlist" in types and not e["accept_children"]:
            pass
        for m in (e["must_follow"] or []):
            if m not in names:
                ok = False
                ctx.violation("T3", cname, "must-follow-unknown:%s" % m, "%s.must_follow names %r, which is not a command" % (cname, m), **where)
        if e["must_follow"] is not None and not isinstance(e["must_follow"], list):
            ok = False
            ctx.violation("T3", cname, "must-follow-type", "%s.must_follow is not a list" % cname, **where)
        if e.get("_type") == "control" and e["accept_children"] is False and types & {"test"}:
            ctx.notice("T3", "%s takes a test but no block" % cname)
        if ok:
            ctx.holds("T3", cname)
    ctx.need("T3", "concrete command classes", len(table), 25)


def t5(ctx, R):
    ctx.rule("T5", "every optional slot is reachable: the interpreter refuses arguments once iscomplete() holds")
    # the refusal guard at the top of check_next_arg
    cna = R.check_next_arg
    guard = any(isinstance(n, ast.If) and isinstance(n.test, ast.Call) and call_name(n.test) == "iscomplete" for n in cna.node.body)
    for cname, e in sorted(R.concrete().items()):
        slots = e["args_definition"]
        if not slots:
            continue
        nreq = len([s for s in slots if s.get("required")])
        if nreq == 0 and guard and not e["variable_args_nb"]:
            ctx.violation("T5", cname, "unreachable-optional:%s" % e["name"], "%s has only optional arguments: the command is complete before any "
                          "argument, so check_next_arg refuses every one of them (%s)" % (cname, [s["name"] for s in slots]),
                          file=R.cmod.relpath, line=e["lineno"],
                          witness='`require "imap4flags"; keep :flags "\\\\Seen";` is rejected')
        else:
            ctx.holds("T5", "%s: %d required argument(s)" % (cname, nreq))


# =============================================================================== state machine
def p1(ctx, R):
    ctx.rule("P1", "every verdict of check_next_arg / addchild in parser.py is consumed")
    n = 0
    for f in R.Parser.methods.values():
        for c in walk_no_nested(f.node):
            if isinstance(c, ast.Call) and call_name(c) in ("check_next_arg", "addchild"):
                n += 1
                p = c._parent
                used = False
                q = c
                while p is not None and not isinstance(p, ast.stmt):
                    q, p = p, p._parent
                if isinstance(p, ast.Return) or isinstance(p, (ast.If, ast.While)) and contains(p.test, c):
                    used = True
                elif isinstance(p, ast.Assign) and isinstance(p.targets[0], ast.Name):
                    nm = p.targets[0].id
                    used = any(isinstance(x, (ast.If, ast.While, ast.Return)) and any(
                        isinstance(y, ast.Name) and y.id == nm for y in ast.walk(x.test if not isinstance(x, ast.Return) else (x.value or ast.Pass())))
                        for x in walk_no_nested(f.node))
                if used:
                    ctx.holds("P1", "%s: %s" % (f.qualname, norm(c)[:60]))
                else:
                    ctx.violation("P1", f, "verdict-dropped:%s" % norm(c)[:60], "the result of %s is ignored: a refused argument is silently "
                                  "accepted and dropped" % norm(c)[:60], node=c,
                                  witness='`stop ["a"];` / `stop true;` is accepted')
    ctx.need("P1", "verdict-returning calls in the parser", n, 6)


def _after_loop_facts(ctx, R):
    parse = R.parse
    cfg = ctx.cfg(parse)
    return cfg


def p2(ctx, R):
    ctx.rule("P2", "end of input: expected set, bracket stack and current command are examined and rejected when non-empty")
    parse = R.parse
    cfg = ctx.cfg(parse)
    rets = [r for r in walk_no_nested(parse.node) if isinstance(r, ast.Return) and const_value(ctx.program, parse, r.value) is True]
    fors = [x for x in walk_no_nested(parse.node) if isinstance(x, ast.For) and "scan" in norm(x.iter)]
    if not fors:
        raise AnalysisError("P2", "token loop not found")
    after = fors[0].lineno
    # accepting exits taken before any token was scanned: only for an input without tokens
    tparam = parse.params[1] if len(parse.params) > 1 else None

    def blank_input(fc):
        e, pol = fact_atom(fc)
        if pol is False and isinstance(e, ast.Name) and e.id == tparam:
            return True
        if pol is False and isinstance(e, ast.Call) and isinstance(e.func, ast.Attribute) and e.func.attr in ("strip", "lstrip", "rstrip") \
                and isinstance(e.func.value, ast.Name) and e.func.value.id == tparam and not e.args:
            return True
        return False
    early = [r for r in rets if r.lineno < after]
    for r in early:
        if all(cfg.guarded(x, blank_input) for x in cfg.nodes_for(r)):
            ctx.holds("P2", "early `return True` only for an input that is empty or blank")
        else:
            ctx.violation("P2", parse, "accept-without-scanning", "parse() can return True before the token loop for an input that was not "
                          "found empty", node=r, witness="a script is accepted without having been scanned")
    rets = [r for r in rets if r.lineno > after]
    if len(rets) != 1:
        raise AnalysisError("P2", "parse(): expected exactly one `return True` after the token loop")
    rn = cfg.nodes_for(rets[0])[0]

    def empty_fact(attr_sub):
        def pred(fc):
            if fc.lineno <= after or contains(fors[0], fc.expr):
                return False
            e, pol = fact_atom(fc)
            cp = cmp_parts(e)
            if cp and isinstance(cp[0], ast.Attribute) and attr_sub == cp[0].attr.lstrip("_") and isinstance(cp[2], ast.Constant) and cp[2].value is None:
                return (cp[1] == "Is" and pol is True) or (cp[1] == "IsNot" and pol is False)
            if isinstance(e, ast.Attribute) and e.attr.lstrip("_") == attr_sub:
                return pol is False
            return False
        return pred

    for attr, what, wit in ((R.an("expected"), "expected-token set", "`if true` (end of input while a token is expected)"),
                            (R.an("curcommand"), "current command", "`keep` without semicolon is accepted with an empty tree")):
        if cfg.guarded(rn, empty_fact(attr)):
            ctx.holds("P2", "`return True` only with an empty %s" % what)
        else:
            ctx.violation("P2", parse, "pending:%s" % attr, "parse() can return True while the %s is still pending" % what, node=rets[0],
                          witness=wit)
    # bracket stack: a non-empty stack leads to raise (directly or by making the expected set non-empty)
    bfacts = [fc for fc in cfg.facts() if fc.lineno > after and not contains(fors[0], fc.expr) and isinstance(fact_atom(fc)[0], ast.Attribute)
              and R.an("expected_brackets") in fact_atom(fc)[0].attr and fact_atom(fc)[1] is True]
    ok = False
    for fc in bfacts:
        r = cfg.reach(fc, exc=False)
        sets = [x for x in r if x.kind == "stmt" and isinstance(x.ast, ast.Expr) and isinstance(x.ast.value, ast.Call)
                and call_name(x.ast.value) == R.set_expected.name and x.ast.value.args]
        raises = [x for x in r if x.kind == "stmt" and isinstance(x.ast, ast.Raise)]
        if (sets or raises) and rn in r:
            # the path continues to the expected-set test, which rejects (checked above)
            ok = bool(sets) and any(x.lineno < y.lineno for x in sets for y in cfg.facts(empty_fact(R.an("expected"))) if True) or bool(raises)
        elif raises and rn not in r:
            ok = True
    if ok:
        ctx.holds("P2", "a non-empty bracket stack at end of input makes the expected set non-empty (then rejected)")
    else:
        ctx.violation("P2", parse, "pending:brackets", "parse() can return True with an unclosed bracket", node=rets[0],
                      witness="`if true { keep;` is accepted")


def p3(ctx, R):
    ctx.rule("P3", "role checks dominate the adoption of a looked-up command")
    for f, want_test, label in ((R.command, False, "command position"), (R.arguments, True, "test position")):
        cfg = ctx.cfg(f)
        adoptions = []
        for st in walk_no_nested(f.node):
            if isinstance(st, ast.Assign) and any(isinstance(t, ast.Attribute) and R.an("curcommand") in t.attr for t in st.targets) \
                    and isinstance(st.value, ast.Name):
                # only adoptions of a freshly looked-up command
                v = st.value.id
                looked = any(isinstance(a, ast.Assign) and isinstance(a.value, ast.Call) and call_name(a.value) == R.lookup.name
                             and any(isinstance(t, ast.Name) and t.id == v for t in a.targets) for a in walk_no_nested(f.node))
                if looked:
                    adoptions.append((st, v))
        if not adoptions:
            raise AnalysisError("P3", "%s: adoption of the looked-up command not found" % f.qualname)
        for st, v in adoptions:
            def role(fc, v=v):
                e, pol = fact_atom(fc)
                cp = cmp_parts(e)
                if cp and isinstance(cp[0], ast.Call) and call_name(cp[0]) == "get_type" and norm(cp[0].func.value) == v \
                        and const_value(ctx.program, f, cp[2]) == "test":
                    is_test = (cp[1] == "Eq") == pol
                    return is_test is want_test
                return False
            if all(cfg.guarded(n, role) for n in cfg.nodes_for(st)):
                ctx.holds("P3", "%s: `%s` adopted only when it %s a test" % (f.qualname, v, "is" if want_test else "is not"))
            else:
                ctx.violation("P3", f, "role-unchecked", "in %s a command is adopted as current without its role having been checked" % label,
                              node=st, witness="`header \"a\" \"b\";` (test as command) or `if keep { }` (action as test) is accepted")


def p4(ctx, R):
    ctx.rule("P4", "bracket pairing: left_X pushes right_X, right_X pops first; the pop raises on empty stack and on mismatch")
    opens = closes = 0
    for f in R.state_funcs:
        cfg = ctx.cfg(f)
        for c in walk_no_nested(f.node):
            if isinstance(c, ast.Call) and call_name(c) == R.push_bracket.name:
                opens += 1
                want = const_value(ctx.program, f, c.args[0]) if c.args else TOP

                def open_fact(fc, want=want):
                    e, pol = fact_atom(fc)
                    cp = cmp_parts(e)
                    return bool(cp and pol is True and cp[1] == "Eq" and isinstance(want, str)
                                and const_value(ctx.program, f, cp[2]) == want.replace("right_", "left_"))
                if isinstance(want, str) and want.startswith("right_") and all(cfg.guarded(n, open_fact) for n in cfg.node_containing(c)):
                    ctx.holds("P4", "%s: %s pushes %s" % (f.qualname, want.replace("right_", "left_"), want))
                else:
                    ctx.violation("P4", f, "push-mismatch:%s" % norm(c)[:50], "%s is not executed exactly for the matching opening token" % norm(c)[:50],
                                  node=c, witness="`if anyof (true] { keep; }` style mismatches are accepted or valid nesting rejected")
            if isinstance(c, ast.Call) and call_name(c) == R.pop_bracket.name:
                closes += 1
                a0 = c.args[0] if c.args else None
                if not (isinstance(a0, ast.Name) and "type" in a0.id):
                    ctx.violation("P4", f, "pop-arg", "the pop is not given the closing token's type: %s" % norm(c), node=c)

                def close_fact(fc):
                    e, pol = fact_atom(fc)
                    cp = cmp_parts(e)
                    v = const_value(ctx.program, f, cp[2]) if cp else TOP
                    return bool(cp and pol is True and cp[1] == "Eq" and isinstance(v, str) and v.startswith("right_"))
                if all(cfg.guarded(n, close_fact) for n in cfg.node_containing(c)):
                    ctx.holds("P4", "%s: pop on a closing token" % f.qualname)
                else:
                    ctx.violation("P4", f, "pop-unguarded", "the bracket stack is popped for a token that is not a closing bracket", node=c)
                # pop precedes other state changes of the branch
                st = stmt_of(c)
                blk = st._parent
                body = blk.body if st in getattr(blk, "body", []) else getattr(blk, "orelse", [])
                if body and body[0] is not st:
                    ctx.violation("P4", f, "pop-not-first", "state is changed before the closing bracket has been matched against the stack", node=st)
    # every closing token type has a pop site
    types = set()
    for f in R.state_funcs:
        cfg = ctx.cfg(f)
        for c in walk_no_nested(f.node):
            if isinstance(c, ast.Call) and call_name(c) == R.pop_bracket.name:
                for fc in cfg.facts():
                    e, pol = fact_atom(fc)
                    cp = cmp_parts(e)
                    v = const_value(ctx.program, f, cp[2]) if cp else TOP
                    if cp and pol is True and isinstance(v, str) and v.startswith("right_") and all(
                            cfg.guarded(n, lambda x, fc=fc: x is fc) for n in cfg.node_containing(c)):
                        types.add(v)
    for t in ("right_bracket", "right_parenthesis", "right_cbracket"):
        if t in types:
            ctx.holds("P4", "%s is matched against the stack" % t)
        else:
            ctx.violation("P4", R.command, "no-pop:%s" % t, "no branch pops the bracket stack for %s" % t, node=R.command.node,
                          witness="unbalanced %s is accepted" % t)
    ctx.need("P4", "push sites", opens, 2)
    ctx.need("P4", "pop sites", closes, 1)
    for t in ("right_bracket", "right_parenthesis", "right_cbracket"):
        pushed = any(isinstance(c, ast.Call) and call_name(c) == R.push_bracket.name and c.args
                     and const_value(ctx.program, f, c.args[0]) == t for f in R.state_funcs for c in walk_no_nested(f.node))
        if not pushed:
            ctx.violation("P4", R.command, "no-push:%s" % t, "no branch pushes %s onto the bracket stack" % t, node=R.command.node)
    # the pop itself
    pop = R.pop_bracket
    raises = [r for r in walk_no_nested(pop.node) if isinstance(r, ast.Raise) and raise_name(r) == "ParseError"]
    empty = any(isinstance(h, ast.ExceptHandler) and h.type is not None and "IndexError" in norm(h.type) and any(
        isinstance(x, ast.Raise) for x in ast.walk(h)) for h in ast.walk(pop.node)) or any(
        isinstance(i, ast.If) and R.an("expected_brackets") in norm(i.test) and any(isinstance(x, ast.Raise) for x in ast.walk(i)) for i in ast.walk(pop.node))
    cfgp = ctx.cfg(pop)
    mismatch = False
    for fc in cfgp.facts():
        e, pol = fact_atom(fc)
        cp = cmp_parts(e)
        if cp and cp[1] in ("NotEq", "Eq") and "type" in norm(cp[0]) and "type" in norm(cp[2]):
            differs = (cp[1] == "NotEq") == pol
            if differs and any(x.kind == "stmt" and isinstance(x.ast, ast.Raise) for x in cfgp.reach(fc, exc=False)) and cfgp.exit not in cfgp.reach(fc, exc=False):
                mismatch = True
    if empty and mismatch and raises:
        ctx.holds("P4", "%s raises on an empty stack and on a type mismatch" % pop.qualname)
    else:
        ctx.violation("P4", pop, "pop-lenient", "the pop does not reject %s" % ("an empty stack" if not empty else "a mismatching bracket type"),
                      node=pop.node, witness="`keep; }` or `if anyof (true] {...}` is accepted")


def p5_p9(ctx, R):
    ctx.rule("P5", "a block opens only on a control command that accepts children")
    ctx.rule("P9", "';' only terminates commands that take no block")
    f = R.command
    cfg = ctx.cfg(f)

    def children(pol_want):
        def pred(fc):
            e, pol = fact_atom(fc)
            return isinstance(e, ast.Attribute) and e.attr == "accept_children" and pol is pol_want
        return pred

    pushes = [c for c in walk_no_nested(f.node) if isinstance(c, ast.Call) and call_name(c) == R.push_bracket.name
              and c.args and const_value(ctx.program, f, c.args[0]) == "right_cbracket"]
    if not pushes:
        raise AnalysisError("P5", "block-open branch not found in %s" % f.qualname)
    for c in pushes:
        if all(cfg.guarded(n, children(True)) for n in cfg.node_containing(c)):
            ctx.holds("P5", "%s: `{` opens a block only when the current command accepts children" % f.qualname)
        else:
            ctx.violation("P5", f, "block-on-any-command", "`{` opens a block whatever the current command is", node=c,
                          witness="`stop { }` and `redirect \"a@b\" { }` are accepted")
    ups = [c for c in walk_no_nested(f.node) if isinstance(c, ast.Call) and call_name(c) in (R.up.name, "complete_cb")]

    def semi(fc):
        e, pol = fact_atom(fc)
        cp = cmp_parts(e)
        return bool(cp and pol is True and cp[1] == "Eq" and const_value(ctx.program, f, cp[2]) == "semicolon")
    k = 0
    for c in ups:
        nodes = cfg.node_containing(c)
        if not all(cfg.guarded(n, semi) for n in nodes):
            continue
        k += 1
        if all(cfg.guarded(n, children(False)) for n in nodes):
            ctx.holds("P9", "%s: `;` completes a command only when it takes no block (%s)" % (f.qualname, call_name(c)))
        else:
            ctx.violation("P9", f, "semicolon-after-block-command", "`;` terminates a command that needs a block", node=c,
                          witness="`if true { keep; } else;` is accepted")
    ctx.need("P9", "completion calls in the ';' branch", k, 1)


def p6(ctx, R):
    ctx.rule("P6", "must_follow is tested before a command is recorded; the predecessor comes from the container recorded into")
    f = R.up
    cfg = ctx.cfg(f)
    recs = [st for st in walk_no_nested(f.node) if isinstance(st, (ast.AugAssign, ast.Expr)) and "result" in norm(st) and (
        isinstance(st, ast.AugAssign) or "append" in norm(st))]
    if not recs:
        raise AnalysisError("P6", "recording into result not found in %s" % f.qualname)
    tests = [n for n in cfg.nodes if n.kind == "test" and "must_follow" in norm(n.expr)]
    raises = [r for r in walk_no_nested(f.node) if isinstance(r, ast.Raise)]
    ok = bool(tests) and bool(raises)
    for st in recs:
        for n in cfg.nodes_for(st):
            if not (tests and cfg.dominates(tests, n, exc=False)):
                ok = False
    # the raise is reachable exactly under: must_follow not None, and (prev is None or prev.name not in must_follow)
    def viol(fc):
        e, pol = fact_atom(fc)
        cp = cmp_parts(e)
        if cp and cp[1] in ("NotIn", "In") and "must_follow" in norm(cp[2]) and "name" in norm(cp[0]):
            return (cp[1] == "NotIn") == pol
        if cp and isinstance(cp[2], ast.Constant) and cp[2].value is None and "prev" in norm(cp[0]):
            return (cp[1] == "Is") == pol
        return False
    for r in raises:
        if not all(cfg.guarded(n, viol) for n in cfg.nodes_for(r)):
            ok = False
    # and not reaching the raise means the predecessor is legal: recording guarded by (must_follow None) or (name in must_follow)
    def legal(fc):
        e, pol = fact_atom(fc)
        cp = cmp_parts(e)
        if cp and isinstance(cp[2], ast.Constant) and cp[2].value is None and "must_follow" in norm(cp[0]):
            return (cp[1] == "IsNot") != pol
        if cp and cp[1] in ("NotIn", "In") and "must_follow" in norm(cp[2]):
            return (cp[1] == "In") == pol
        return False
    for st in recs:
        for n in cfg.nodes_for(st):
            if not cfg.guarded(n, legal):
                ok = False
    if ok:
        ctx.holds("P6", "%s: recording dominated by the must_follow test" % f.qualname)
    else:
        ctx.violation("P6", f, "must-follow-bypassed", "a command can be recorded without its must_follow constraint having been enforced",
                      node=recs[0], witness="`else { keep; }` without a preceding `if` is accepted")
    # predecessor source
    aliases = {}
    for a in walk_no_nested(f.node):
        if isinstance(a, ast.Assign) and isinstance(a.targets[0], ast.Name) and isinstance(a.value, ast.Attribute):
            aliases[a.targets[0].id] = a.value.attr
    top = nested = False
    parent_names = {n_ for n_, at in aliases.items() if at == "parent"}

    def parent_fact(want):
        def pred(fc):
            from sa.util import presence_fact
            e, pol = presence_fact(fc)
            is_parent = (isinstance(e, ast.Attribute) and e.attr == "parent") or (isinstance(e, ast.Name) and e.id in parent_names)
            return is_parent and pol is want
        return pred
    for s_ in walk_no_nested(f.node):
        if isinstance(s_, ast.Subscript) and isinstance(s_.ctx, ast.Load):
            k = const_value(ctx.program, f, s_.slice)
            base = s_.value.attr if isinstance(s_.value, ast.Attribute) else (aliases.get(s_.value.id) if isinstance(s_.value, ast.Name) else None)
            nodes = cfg.node_containing(s_)
            if k == -1 and base == "result":
                top = True
                if not (nodes and all(cfg.guarded(x, parent_fact(False)) for x in nodes)):
                    ctx.violation("P6", f, "predecessor-toplevel-for-nested", "the last top-level command is used as predecessor on a path where the "
                                  "command has a parent (is nested)", node=s_,
                                  witness="`if true {keep;} if false { else {stop;} }`: the nested else is accepted because the previous TOP-LEVEL command is an if")
            if k == -2 and base == "children":
                nested = True
                if not (nodes and all(cfg.guarded(x, parent_fact(True)) for x in nodes)):
                    ctx.violation("P6", f, "predecessor-sibling-unguarded", "the previous sibling is looked up without the command having a parent", node=s_)
    if top and nested:
        ctx.holds("P6", "predecessor = result[-1] (top level) / parent.children[-2] (nested: the command itself is already children[-1])")
    else:
        ctx.violation("P6", f, "predecessor-source", "the predecessor of a must_follow command is not taken from the container the command is "
                      "recorded into (result[-1] / parent.children[-2])", node=f.node,
                      witness="`if true { if true {keep;} } else {keep;}` or a nested else after a non-if is judged wrongly")


def p7(ctx, R):
    ctx.rule("P7", "the expected-token set is enforced before a token is dispatched, and cleared only after a match")
    f = R.parse
    cfg = ctx.cfg(f)
    calls = [c for c in walk_no_nested(f.node) if isinstance(c, ast.Call) and call_name(c) == R.command.name]
    if not calls:
        raise AnalysisError("P7", "dispatch to the command handler not found")

    def ok_fact(fc):
        e, pol = fact_atom(fc)
        cp = cmp_parts(e)
        if cp and R.an("expected") in norm(cp[0]) and isinstance(cp[2], ast.Constant) and cp[2].value is None:
            return (cp[1] == "Is") == pol  # nothing expected
        if cp and cp[1] in ("In", "NotIn") and norm(cp[2]).endswith(R.an("expected")):
            return (cp[1] == "In") == pol
        return False
    for c in calls:
        if all(cfg.guarded(n, ok_fact) for n in cfg.node_containing(c)):
            ctx.holds("P7", "%s: token dispatched only if nothing is expected or the token is in the expected set" % f.qualname)
        else:
            ctx.violation("P7", f, "expected-not-enforced", "a token can be dispatched although it is not in the expected set", node=c,
                          witness="`if keep` / `anyof true` style sequences are accepted")
    clears = [st for st in walk_no_nested(f.node) if isinstance(st, ast.Assign) and any(
        isinstance(t, ast.Attribute) and t.attr.lstrip("_") == R.an("expected") for t in st.targets)
        and isinstance(st.value, ast.Constant) and st.value.value is None]

    def in_fact(fc):
        e, pol = fact_atom(fc)
        cp = cmp_parts(e)
        return bool(cp and cp[1] in ("In", "NotIn") and norm(cp[2]).endswith(R.an("expected")) and ((cp[1] == "In") == pol))
    for st in clears:
        # (clearing when nothing is expected changes nothing: None stays None)
        if all(cfg.guarded(n, in_fact) or cfg.guarded(n, ok_fact) for n in cfg.nodes_for(st)):
            ctx.holds("P7", "expected set cleared only after a matching token")
        else:
            ctx.violation("P7", f, "expected-cleared-early", "the expected set is cleared without the token having matched", node=st)


def p8(ctx, R):
    ctx.rule("P8", "command lookup lower-cases the identifier")
    f = R.lookup
    name_param = f.params[0]
    ok = False
    for n in walk_no_nested(f.node):
        if isinstance(n, ast.Call) and isinstance(n.func, ast.Attribute) and n.func.attr in ("lower", "casefold") \
                and isinstance(n.func.value, ast.Name) and n.func.value.id == name_param:
            ok = True
    if ok:
        ctx.holds("P8", "%s: %s.lower() before the table lookup" % (f.qualname, name_param))
    else:
        ctx.violation("P8", f, "case-sensitive-lookup", "command names are looked up case-sensitively", node=f.node,
                      witness="`IF true { keep; }` is an unknown command")
    # the class name is built from the lowered name + capitalize + "Command"
    built = [n for n in walk_no_nested(f.node) if isinstance(n, ast.BinOp) and isinstance(n.op, ast.Mod) and isinstance(n.left, ast.Constant)
             and n.left.value == "%sCommand"]
    if built and "capitalize" in norm(built[0]):
        ctx.holds("P8", "class name = name.lower().capitalize() + 'Command'")
    else:
        ctx.notice("P8", "class-name construction differs from '%sCommand' % name.lower().capitalize()")


# =============================================================================== interpreter
def pending_block(ctx, R):
    cna = R.check_next_arg
    for st in cna.node.body:
        if isinstance(st, ast.If) and "curarg" in norm(st.test) and "extra_arg" in norm(st.test):
            return st
    raise AnalysisError("G2", "pending-parameter block not found in check_next_arg")


def _cna_names(R):
    """(type param, value param, add param) of check_next_arg, taken from its signature"""
    ps = R.check_next_arg.params
    return (ps[1] if len(ps) > 1 else "atype", ps[2] if len(ps) > 2 else "avalue", ps[3] if len(ps) > 3 else "add")


def g2(ctx, R):
    ATYPE, AVALUE, ADD = _cna_names(R)
    ctx.rule("G2", "pending tag parameter: every exit of the block is record+clear+return True or raise BadValue")
    cna = R.check_next_arg
    cfg = ctx.cfg(cna)
    blk = pending_block(ctx, R)
    idx = cna.node.body.index(blk)
    nxt = cna.node.body[idx + 1] if idx + 1 < len(cna.node.body) else None
    # fall-through: from the block's body, the statement after the block is reachable
    first = cfg.nodes_for(blk.body[0])
    if nxt is not None and first and any(x in cfg.reach(first, exc=False) for x in cfg.nodes_for(nxt)):
        ctx.violation("G2", cna, "pending-fallthrough", "with a tag parameter pending, control can fall through to the ordinary argument scan",
                      node=blk, witness="`vacation :days \"x\" \"r\";`: the wrong-typed parameter is taken as the reason")
    else:
        ctx.holds("G2", "%s: no fall-through out of the pending-parameter block" % cna.qualname)
    rets = [r for r in walk_no_nested(blk) if isinstance(r, ast.Return)]
    for r in rets:
        if const_value(ctx.program, cna, r.value) is not True:
            ctx.violation("G2", cna, "pending-return", "the pending-parameter block returns %s" % norm(r.value), node=r)
            continue
        clears = [x for x in cfg.stmt_nodes() if isinstance(x.ast, ast.Assign) and contains(blk, x.ast) and any(
            isinstance(t, ast.Attribute) and t.attr == "curarg" for t in x.ast.targets) and isinstance(x.ast.value, ast.Constant) and x.ast.value.value is None]
        stores = [x for x in cfg.stmt_nodes() if isinstance(x.ast, ast.Assign) and contains(blk, x.ast) and any(
            isinstance(t, ast.Subscript) and "extra_arguments" in norm(t.value) for t in x.ast.targets)]
        rn = cfg.nodes_for(r)[0]
        if clears and cfg.dominates(clears, rn, exc=False):
            ctx.holds("G2", "pending slot cleared before `return True`")
        else:
            ctx.violation("G2", cna, "pending-not-cleared", "the pending slot is not cleared when its parameter has been accepted", node=r,
                          witness="the next argument is again taken as the tag's parameter")

        def add_false(fc):
            e, pol = fact_atom(fc)
            return isinstance(e, ast.Name) and e.id == ADD and pol is False
        if stores and cfg.guarded(rn, add_false, establish=lambda m: m in stores):
            ctx.holds("G2", "parameter recorded in extra_arguments (unless add=False)")
        else:
            ctx.violation("G2", cna, "pending-not-recorded", "the tag's parameter is accepted without being recorded", node=r)
    if not any(isinstance(x, ast.Raise) and raise_name(x) == "BadValue" for x in walk_no_nested(blk)):
        ctx.violation("G2", cna, "pending-no-raise", "a wrong parameter for a tag does not raise BadValue", node=blk)


def g4(ctx, R):
    ATYPE, AVALUE, ADD = _cna_names(R)
    ctx.rule("G4", "every store into arguments is dominated by the type and value tests of the same slot definition")
    cna = R.check_next_arg
    cfg = ctx.cfg(cna)
    blk = pending_block(ctx, R)
    n = 0
    for st in walk_no_nested(cna.node):
        if isinstance(st, (ast.Assign, ast.AugAssign)):
            tg = st.targets[0] if isinstance(st, ast.Assign) else st.target
            val = st.value
        elif isinstance(st, ast.Expr) and isinstance(st.value, ast.Call) and isinstance(st.value.func, ast.Attribute) \
                and st.value.func.attr in ("append", "extend") and st.value.args:
            tg = st.value.func.value  # <container>[<slot>].append(value)
            val = st.value.args[0]
            if isinstance(tg, ast.Call) and isinstance(tg.func, ast.Attribute) and tg.func.attr == "setdefault" and len(tg.args) == 2 \
                    and isinstance(tg.args[1], ast.List) and not tg.args[1].elts:
                # <container>.setdefault(<slot>, []).append(value): the same store, the empty list made on first use
                tg = ast.copy_location(ast.Subscript(value=tg.func.value, slice=tg.args[0], ctx=ast.Store()), tg)
        else:
            continue
        if not (isinstance(tg, ast.Subscript) and isinstance(tg.value, ast.Attribute) and tg.value.attr in ("arguments", "extra_arguments")):
            continue
        if isinstance(val, ast.List) and not val.elts:
            continue  # initialisation of the testlist container
        n += 1
        key = tg.slice
        slotvar = None
        if isinstance(key, ast.Subscript) and const_value(ctx.program, cna, key.slice) == "name":
            slotvar = norm(key.value)
        if slotvar is None:
            ctx.violation("G4", cna, "store-key:%s" % norm(tg), "a value is stored under %s, not under <slot>['name']" % norm(key), node=st)
            continue
        nodes = cfg.nodes_for(st)
        in_pending = contains(blk, st)

        def type_ok(fc):
            e, pol = fact_atom(fc)
            cp = cmp_parts(e)
            if cp and cp[1] in ("In", "NotIn") and norm(cp[0]) == ATYPE and slotvar in norm(cp[2]) and "type" in norm(cp[2]):
                return (cp[1] == "In") == pol
            if isinstance(e, ast.Call) and "valid_type" in (call_name(e) or "") and len(e.args) == 2 and norm(e.args[0]) == ATYPE \
                    and slotvar in norm(e.args[1]):
                return pol is True
            if cp and norm(cp[0]) == ATYPE and const_value(ctx.program, cna, cp[2]) == "test" and cp[1] in ("Eq", "NotEq"):
                return (cp[1] == "Eq") == pol
            return False

        def value_ok(fc):
            e, pol = fact_atom(fc)
            if isinstance(e, ast.Call) and "valid_value" in (call_name(e) or "") and e.args and norm(e.args[0]) == slotvar \
                    and len(e.args) > 1 and norm(e.args[1]) == AVALUE:
                return pol is True
            cp = cmp_parts(e)
            if cp and cp[1] in ("In", "NotIn") and slotvar in norm(cp[2]):
                if norm(cp[0]) == AVALUE and "values" in norm(cp[2]):
                    return (cp[1] == "In") == pol
                if const_value(ctx.program, cna, cp[0]) == "values":
                    return (cp[1] == "NotIn") == pol  # slot has no value restriction
            return False
        is_testlist = any(isinstance(x, ast.List) for x in ast.walk(val)) or isinstance(st, (ast.AugAssign, ast.Expr))
        t_ok = all(cfg.guarded(x, type_ok) for x in nodes)
        v_ok = True if is_testlist else all(cfg.guarded(x, value_ok) for x in nodes)
        if t_ok and v_ok:
            ctx.holds("G4", "%s: %s after type%s test on %s" % (cna.qualname, norm(st)[:50], "" if is_testlist else " and value", slotvar))
        else:
            ctx.violation("G4", cna, "store-unchecked:%s" % norm(tg), "%s can be executed without the %s test of slot %s having passed"
                          % (norm(st)[:50], "type" if not t_ok else "value", slotvar), node=st,
                          witness="an ill-typed argument or an illegal tag value is accepted")
        # the value stored is the incoming one, unmodified
        src = val.elts[0] if isinstance(val, ast.List) and val.elts else val
        if not (isinstance(src, ast.Name) and src.id == AVALUE):
            ctx.violation("G4", cna, "store-value:%s" % norm(tg), "the value stored is %s, not the incoming argument" % norm(val), node=st)
    ctx.need("G4", "argument stores", n, 4)


def g5(ctx, R):
    ctx.rule("G5", "a failed match always raises BadArgument")
    cna = R.check_next_arg
    cfg = ctx.cfg(cna)
    FLAG = "failed"
    for i_ in walk_no_nested(cna.node):
        if isinstance(i_, ast.If) and isinstance(i_.test, ast.Name) and any(isinstance(r_, ast.Raise) and raise_name(r_) == "BadArgument" for r_ in i_.body):
            FLAG = i_.test.id
    sets = [x for x in cfg.stmt_nodes() if isinstance(x.ast, ast.Assign) and any(isinstance(t, ast.Name) and t.id == FLAG for t in x.ast.targets)
            and const_value(ctx.program, cna, x.ast.value) is True]
    if not sets:
        ctx.notice("G5", "no `failed = True` idiom (the interpreter may raise directly)")
        return
    # the only statement reading `failed` must lead to raise; nothing resets it
    resets = [x for x in cfg.stmt_nodes() if isinstance(x.ast, ast.Assign) and any(isinstance(t, ast.Name) and t.id == FLAG for t in x.ast.targets)
              and x not in sets and x.lineno > min(s.lineno for s in sets)]

    def failed_true(fc):
        e, pol = fact_atom(fc)
        return isinstance(e, ast.Name) and e.id == FLAG and pol is True
    tf = cfg.facts(failed_true)
    ok = bool(tf) and not resets
    for fc in tf:
        r = cfg.reach(fc, exc=False)
        if cfg.exit in r or not any(x.kind == "stmt" and isinstance(x.ast, ast.Raise) and raise_name(x.ast) == "BadArgument" for x in r):
            ok = False
    # every path from a `failed = True` to the function end passes the test of `failed`
    tests = [p for fc in tf for p, _ in fc.pred]
    for s in sets:
        if cfg.exit in cfg.reach(s, avoid=tests, exc=False):
            ok = False
    if ok:
        ctx.holds("G5", "%s: each of %d `failed = True` reaches `raise BadArgument` on every path" % (cna.qualname, len(sets)))
    else:
        ctx.violation("G5", cna, "failed-not-raised", "a failed argument match can end without BadArgument being raised", node=sets[0].ast,
                      witness="`redirect 10;` (ill-typed required argument) is accepted")
    # an argument that no remaining slot accepts must not be accepted: the scan loop's exhausted exit never reaches `return True`
    loops = [lp for lp in walk_no_nested(cna.node) if isinstance(lp, ast.While)]
    for lp in loops:
        for fc in cfg.facts():
            if fc.site is lp and fc.pol is False and fc.expr is lp.test:
                r = cfg.reach(fc, exc=False)
                trues = [x for x in r if x.kind == "stmt" and isinstance(x.ast, ast.Return) and const_value(ctx.program, cna, x.ast.value) is True]
                top_guard = any(isinstance(n_, ast.If) and isinstance(n_.test, ast.Call) and call_name(n_.test) == "iscomplete" for n_ in cna.node.body)
                if trues and not top_guard:
                    ctx.violation("G5", cna, "scan-exhausted-accepts", "when no remaining slot accepts the argument the scan ends and check_next_arg "
                                  "returns True: the surplus argument is silently dropped", node=lp,
                                  witness='`keep "x";` is accepted')
                else:
                    ctx.holds("G5", "%s: an argument that no slot accepts is refused" % cna.qualname)
    # leaving the scan without a match must not count as success for a complete-less command: the while loop's normal exit
    # is reached only with pos >= len(args_definition): that means surplus argument -> handled by iscomplete() guard at the top


def _command_helpers(R, root):
    """Command methods reachable from `root` through self-calls (root first)."""
    from sa.util import self_calls
    prog = R.ctx.program if hasattr(R, "ctx") else None
    out, todo = [], [root]
    while todo:
        f = todo.pop()
        if f is None or f in out:
            continue
        out.append(f)
        for c in self_calls(f):
            g = _resolve_private(R.Command, c.func.attr)
            if g is not None:
                todo.append(g)
    return out


def _resolve_private(cls, attr):
    if attr in cls.methods:
        return cls.methods[attr]
    for n, f in cls.methods.items():
        if n.lstrip("_") == attr.lstrip("_"):
            return f
    return None


def _is_lowered(e):
    return isinstance(e, ast.Call) and isinstance(e.func, ast.Attribute) and e.func.attr in ("lower", "casefold")


def g6(ctx, R):
    from sa.util import self_calls, bound_arg
    ctx.rule("G6", "tag tokens are compared case-insensitively with the tables")
    n = 0
    funcs = []
    for f in (R.check_next_arg, R.valid_value, R.iscomplete):
        for g in _command_helpers(R, f):
            if g not in funcs and g not in (R.tosieve,):
                funcs.append(g)
    for f in funcs:
        defs = {}
        for a in walk_no_nested(f.node):
            if isinstance(a, ast.Assign) and len(a.targets) == 1 and isinstance(a.targets[0], ast.Name):
                defs.setdefault(a.targets[0].id, []).append(a.value)
        for c in walk_no_nested(f.node):
            tok = None
            table_side = None
            if isinstance(c, ast.Compare) and len(c.ops) == 1 and isinstance(c.ops[0], (ast.In, ast.NotIn)):
                table_side = norm(c.comparators[0])
                if isinstance(c.comparators[0], ast.Name) and len(defs.get(c.comparators[0].id, [])) == 1:
                    table_side += " " + norm(defs[c.comparators[0].id][0])
                tok = c.left
            elif isinstance(c, ast.Call) and isinstance(c.func, ast.Attribute) and c.func.attr == "get" and c.args \
                    and "extension_values" in norm(c.func.value):
                table_side = norm(c.func.value)
                tok = c.args[0]
            if tok is None or not any(k in table_side for k in ("values", "valid_for")):
                continue
            if "arguments" in table_side or "loaded_extensions" in table_side:
                continue
            if isinstance(tok, ast.Constant):
                continue  # `"values" in arg`
            if "extra_arg" in table_side and "values" in table_side and "valid_for" not in table_side:
                continue  # parameter values ("gt", "i;octet") are not tags
            # parameter-valued operand: guarded in the same expression by `atype in <...>['extra_arg']['type']`
            if any("['extra_arg']['type']" in norm(e) and pol for e, pol in expr_guards(c)):
                ctx.holds("G6", "%s: %s compares a parameter value, not a tag (outside the rule)" % (f.qualname, norm(c)[:60]))
                continue
            n += 1
            lowered = _is_lowered(tok)
            where = norm(c)[:70]
            if not lowered and isinstance(tok, ast.Name):
                if tok.id in defs and all(_is_lowered(v) for v in defs[tok.id]):
                    lowered = True
                elif tok.id in f.params and f not in (R.check_next_arg,):
                    # a helper's parameter: every call site must pass the lowered token
                    sites = [(g, cs) for g in R.Command.methods.values() for cs in self_calls(g) if _resolve_private(R.Command, cs.func.attr) is f]
                    passed = [bound_arg(cs, f, tok.id) for g, cs in sites]
                    if sites and all(e is not None and _is_lowered(e) for e in passed):
                        lowered = True
                    else:
                        where = "%s, called as %s" % (norm(c)[:50], "; ".join(norm(cs)[:60] for g, cs in sites)[:120])
            if lowered:
                ctx.holds("G6", "%s: %s" % (f.qualname, norm(c)[:70]))
            else:
                ctx.violation("G6", f, "case-sensitive-tag:%s" % norm(c)[:60], "the tag token is compared case-sensitively: %s" % where,
                              node=c, witness='`header :COUNT "gt" "a" "1"` is rejected while `:count` is accepted')
    ctx.need("G6", "tag membership tests", n, 2)


# =============================================================================== transitions (added after the first build)
EXPECTED_AFTER = {
    # (state function, token that was just accepted) -> tokens that may follow (RFC 5228 8.2)
    ("stringlist", "string"): {"comma", "right_bracket"},
    ("stringlist", "comma"): {"string"},
    ("argument", "left_bracket"): {"string"},
    ("arguments", "left_parenthesis"): {"identifier"},
    ("arguments", "comma"): {"identifier"},
}
# (the token demanded after a block-taking control / a test-taking test is evaluated per command class: _first_token_by_class)
EXPECTED_UNKEYED = {
    # function -> multiset of expected-sets installed without a token guard
    "check_command_completion": [{"semicolon"}, {"left_cbracket"}, {"comma", "right_parenthesis"}],
    "up": [{"comma", "right_parenthesis"}],
}
EXPECTED_FIRST = {"if": ["identifier"], "elsif": ["identifier"], "not": ["identifier"], "allof": ["left_parenthesis"],
                  "anyof": ["left_parenthesis"]}


def p12(ctx, R):
    ctx.rule("P12", "expected-token transitions: after each accepted token exactly the RFC 5228 follow set is installed")
    seen_keyed = {}
    seen_unkeyed = {}
    for f in R.Parser.methods.values():
        role = R.role_of(f)
        cfg = None
        for c in walk_no_nested(f.node):
            if not (isinstance(c, ast.Call) and call_name(c) == R.set_expected.name):
                continue
            if f is R.parse:
                continue
            vals = [const_value(ctx.program, f, a) for a in c.args]
            if any(v is TOP for v in vals):
                ctx.notice("P12", "%s: %s installs a non-constant expected set" % (f.qualname, norm(c)))
                continue
            cfg = cfg or ctx.cfg(f)
            tok = None
            for fc in cfg.facts():
                e, pol = fact_atom(fc)
                cp = cmp_parts(e)
                if cp and pol is True and cp[1] == "Eq" and isinstance(cp[0], ast.Name) and "type" in cp[0].id:
                    v = const_value(ctx.program, f, cp[2])
                    if isinstance(v, str) and all(cfg.guarded(n, lambda x, fc=fc: x is fc) for n in cfg.node_containing(c)):
                        tok = v
            if tok is not None or role == "command":
                seen_keyed.setdefault((role, tok), []).append((set(vals), c, f))
            else:
                seen_unkeyed.setdefault(role, []).append((set(vals), c, f))
    n = 0
    for key, want in EXPECTED_AFTER.items():
        got = seen_keyed.get(key, [])
        n += 1
        if len(got) == 1 and got[0][0] == want:
            ctx.holds("P12", "%s after %s -> %s" % (key[0], key[1] or "<command start>", sorted(want)))
        elif not got:
            ctx.violation("P12", _by_role(R, key[0]), "transition-missing:%s/%s" % key, "after %s in %s no expected set is installed (the "
                          "grammar allows only %s next)" % (key[1] or "a block-taking control", key[0], sorted(want)), node=_by_role(R, key[0]).node,
                          witness=transition_witness(key))
        else:
            s_, c, f = got[0]
            ctx.violation("P12", f, "transition:%s/%s" % key, "after %s the parser expects %s; the grammar allows only %s" % (
                key[1] or "a block-taking control", sorted(s_), sorted(want)), node=c, witness=transition_witness(key))
    for key, got in seen_keyed.items():
        if key not in EXPECTED_AFTER:
            ctx.notice("P12", "unreferenced transition %s -> %s" % (key, [sorted(g[0]) for g in got]))
    for role, want in EXPECTED_UNKEYED.items():
        got = [g[0] for g in seen_unkeyed.get(role, [])]
        n += 1
        if sorted(map(sorted, got)) == sorted(map(sorted, want)):
            ctx.holds("P12", "%s installs %s" % (role, [sorted(w) for w in want]))
        else:
            f = _by_role(R, role)
            ctx.violation("P12", f, "completion-sets:%s" % role, "%s installs the expected sets %s; the grammar needs %s" % (
                role, sorted(map(sorted, got)), sorted(map(sorted, want))), node=f.node,
                witness="after a complete test / command the wrong token is demanded (valid scripts rejected) or none (garbage accepted)")
    # first token of commands that take a test: what is installed when such a command is adopted, evaluated per command class
    # (finite-domain interpretation of the adopting state function with the class's table values; no code is run)
    n += _first_token_by_class(ctx, R)
    ctx.need("P12", "transition obligations", n, 12)


def _first_token_by_class(ctx, R):
    from sa import fd
    table = R.concrete()
    exp_attr = None
    for a in walk_no_nested(R.set_expected.node):
        if isinstance(a, ast.Assign):
            for t in a.targets:
                if isinstance(t, ast.Attribute):
                    exp_attr = t.attr
    roles = {f.name for f in (R.command, R.arguments, R.argument, R.stringlist, R.up, R.completion, R.push_bracket, R.pop_bracket)}
    count = 0
    for fn, position in ((R.arguments, "test"), (R.command, "command")):
        lookvars = [t.id for a in walk_no_nested(fn.node) if isinstance(a, ast.Assign) and isinstance(a.value, ast.Call)
                    and call_name(a.value) == R.lookup.name for t in a.targets if isinstance(t, ast.Name)]
        if len(set(lookvars)) != 1:
            raise AnalysisError("P12", "%s: variable holding the looked-up command not identified" % fn.qualname)
        var = lookvars[0]
        for cname, e in sorted(table.items()):
            want = EXPECTED_FIRST.get(e["name"])
            if want is None or (position == "test") != (e.get("_type") == "test"):
                continue
            c = ctx.program.cls(cname)
            gef = ctx.program.method(c, "get_expected_first") if c else None
            gef_vals = []
            if gef is not None:
                gef_vals = [const_value(ctx.program, gef, r.value) for r in walk_no_nested(gef.node) if isinstance(r, ast.Return) and r.value is not None]

            def oracle(interp, ex, name, recv, args, kw, st, e=e, gef_vals=gef_vals):
                if name == R.lookup.name:
                    return [(fd.Unknown("cmd"), ("lookup", None))]
                if name == "get_type":
                    return [(fd.Const(e.get("_type")), None)]
                if name == "has_arguments":
                    return [(fd.Const(bool(e["args_definition"])), None)]
                if name == "get_expected_first":
                    if len(gef_vals) == 1 and gef_vals[0] is not TOP:
                        return [(fd.Const(gef_vals[0]), None)]
                    return [(fd.Unknown("first"), None)]
                if name == "check_next_arg":
                    return [(fd.Const(True), None)]
                if name and name.startswith("self."):
                    m = name[5:]
                    if m == R.set_expected.name:
                        vals = tuple(a.v if isinstance(a, fd.Const) else None for a in args)
                        return [(fd.Const(None), ("expect", vals))]
                    if m in roles:
                        return [(fd.Const(True), ("role", m))]
                    if m in R.Parser.methods:
                        return [(fd.Unknown(m), None)]
                return None
            params = fn.params
            env = {params[1]: fd.Const("identifier"), params[2]: fd.Const(e["name"].encode()),
                   "%s.variable_args_nb" % var: fd.Const(bool(e.get("variable_args_nb"))), "%s.accept_children" % var: fd.Const(bool(e.get("accept_children"))),
                   "%s.name" % var: fd.Const(e["name"]), "%s.non_deterministic_args" % var: fd.Const(bool(e.get("non_deterministic_args"))),
                   "%s.must_follow" % var: fd.Const(e.get("must_follow")), "%s.extension" % var: fd.Const(e.get("extension"))}
            it = fd.Interp(fn.node, R.Parser.name, oracle, loop_unroll=1, max_depth=1)
            try:
                paths = it.run(env)
            except fd.TooManyPaths:
                raise AnalysisError("P12", "path explosion in %s" % fn.qualname)
            count += 1
            got = set()
            for p in paths:
                if p.kind != "return" or fd.truth(p.value) is False or not any(ev[0] == "lookup" for ev in p.events):
                    continue
                installed = None
                # the set in force when the function hands over (to the completion check or to its caller)
                for ev in p.events:
                    if ev[0] == "expect":
                        installed = tuple(ev[1])
                    elif ev[0] == "role" and ev[1] == R.completion.name:
                        break
                key = "%s.%s" % (fn.params[0], exp_attr)
                if installed is None and exp_attr is not None and key in p.env and isinstance(p.env[key], fd.Const) and p.env[key].v is not None:
                    installed = tuple(p.env[key].v)
                got.add(installed)
            if got == {tuple(want)}:
                ctx.holds("P12", "%s adopted in %s position: %s expected next" % (e["name"], position, want))
            else:
                ctx.violation("P12", fn, "expected-first:%s" % e["name"], "after `%s` in %s position the expected set is %s; the grammar needs %s" % (
                    e["name"], position, sorted(map(str, got)), want), node=fn.node,
                    witness="`%s ,` / `%s ;` style garbage is not rejected at the next token, or a valid test is rejected" % (e["name"], e["name"]))
    if count < 4:
        raise AnalysisError("P12", "only %d first-token evaluations" % count)
    return count


def _by_role(R, role):
    for f in R.Parser.methods.values():
        if R.role_of(f) == role:
            return f
    return R.parse


def transition_witness(key):
    return {
        ("stringlist", "string"): '`["a" "b"]` (missing comma) is accepted',
        ("stringlist", "comma"): '`["a",]` (trailing comma) is accepted',
        ("argument", "left_bracket"): "`[]` (empty string list) is accepted",
        ("arguments", "left_parenthesis"): "`anyof ()` (empty test list) is accepted",
        ("arguments", "comma"): "`anyof (true,)` is accepted",
        ("command", None): "`if { keep; }` (control without its test) is accepted",
    }.get(key, "an ill-formed token sequence is accepted")


def p16(ctx, R):
    """After a command is closed the parser climbs to the closest ancestor that still waits for something; `,` or `)` is expected next
    exactly when THAT ancestor takes a test list.  The test that decides the expectation must therefore look at the command the climb
    ends on: nothing may move the climbing variable after the test."""
    ctx.rule("P16", "the `,`/`)` expectation after a closed test is decided on the ancestor the climb ends on (no step of the climb after the test)")
    up = R.up
    cfg = ctx.cfg(up)
    calls = [c for c in walk_no_nested(up.node) if isinstance(c, ast.Call) and call_name(c) and call_name(c).lstrip("_") == R.set_expected.name.lstrip("_")
             and any(const_value(ctx.program, up, a) in ("comma", "right_parenthesis") for a in c.args)]
    if not calls:
        raise AnalysisError("P16", "%s: the comma / right_parenthesis expectation is not set here" % up.qualname)
    n = 0
    for c in calls:
        # the variable whose variable_args_nb guards the call
        guards = []
        for fc in cfg.facts():
            e, pol = fact_atom(fc)
            if pol is True and isinstance(e, ast.Attribute) and e.attr == "variable_args_nb" and all(
                    cfg.guarded(nd, lambda x, fc=fc: x is fc) for nd in cfg.node_containing(c)):
                guards.append((fc, norm(e.value)))
        if not guards:
            ctx.violation("P16", up, "expectation-unguarded", "`,`/`)` is expected without a test that the current ancestor takes a test list", node=c)
            continue
        for fc, var in guards:
            n += 1
            tests = [nd for nd in cfg.nodes if nd.kind == "test" and getattr(nd, "expr", None) is not None and contains(nd.expr, fact_atom(fc)[0])]
            after = cfg.reach(tests, exc=False) if tests else set()
            moved = [nd for nd in after if nd.kind == "stmt" and isinstance(nd.ast, ast.Assign) and any(norm(t) == var for t in nd.ast.targets)
                     and not (len(nd.ast.targets) == 1 and norm(nd.ast.value) == var)]
            if moved:
                ctx.violation("P16", up, "climb-after-test:%s" % var, "%s is tested for variable_args_nb and then moved on (%s): the expectation is "
                              "taken from an ancestor the climb does not stop at" % (var, norm(moved[0].ast)[:50]), node=moved[0].ast,
                              witness="`if anyof(not allof(true) false) { stop; }` (no comma after the inner list) is accepted")
            else:
                ctx.holds("P16", "%s: %s.variable_args_nb is tested after the climb has ended" % (up.qualname, var))
    ctx.need("P16", "expectation guards", n, 1)


def p13(ctx, R):
    ctx.rule("P13", "a command / test is attached to its parent before it becomes the current command")
    f = R.command
    cfg = ctx.cfg(f)
    for st in walk_no_nested(f.node):
        if isinstance(st, ast.Assign) and any(isinstance(t, ast.Attribute) and R.an("curcommand") in t.attr for t in st.targets) and isinstance(st.value, ast.Name):
            v = st.value.id
            if not any(isinstance(a, ast.Assign) and isinstance(a.value, ast.Call) and call_name(a.value) == R.lookup.name
                       and any(isinstance(t, ast.Name) and t.id == v for t in a.targets) for a in walk_no_nested(f.node)):
                continue
            adds = [c for c in walk_no_nested(f.node) if isinstance(c, ast.Call) and call_name(c) == "addchild" and c.args
                    and isinstance(c.args[0], ast.Name) and c.args[0].id == v]
            add_nodes = [x for c in adds for x in cfg.node_containing(c)]

            def no_parent(fc):
                e, pol = fact_atom(fc)
                cp = cmp_parts(e)
                return bool(cp and R.an("curcommand") in norm(cp[0]) and isinstance(cp[2], ast.Constant) and cp[2].value is None
                            and ((cp[1] == "Is") == pol))
            if add_nodes and all(cfg.guarded(n, no_parent, establish=lambda m: m in add_nodes) for n in cfg.nodes_for(st)):
                ctx.holds("P13", "%s: nested command added to the current command's children before adoption" % f.qualname)
            else:
                ctx.violation("P13", f, "child-not-attached", "a command can become current without having been added to its parent's children",
                              node=st, witness="commands inside a block are accepted but missing from the tree")
            # the parent handed to the lookup is the current command
            for a in walk_no_nested(f.node):
                if isinstance(a, ast.Assign) and isinstance(a.value, ast.Call) and call_name(a.value) == R.lookup.name \
                        and any(isinstance(t, ast.Name) and t.id == v for t in a.targets):
                    if len(a.value.args) >= 2 and R.an("curcommand") in norm(a.value.args[1]):
                        ctx.holds("P13", "%s: new command's parent is the current command" % f.qualname)
                    else:
                        ctx.violation("P13", f, "parent-link", "the new command is not created with the current command as parent", node=a)
    g = R.arguments
    cfgg = ctx.cfg(g)
    for st in walk_no_nested(g.node):
        if isinstance(st, ast.Assign) and any(isinstance(t, ast.Attribute) and R.an("curcommand") in t.attr for t in st.targets) and isinstance(st.value, ast.Name):
            v = st.value.id
            chk = [c for c in walk_no_nested(g.node) if isinstance(c, ast.Call) and call_name(c) == "check_next_arg" and len(c.args) >= 2
                   and const_value(ctx.program, g, c.args[0]) == "test" and isinstance(c.args[1], ast.Name) and c.args[1].id == v]
            nodes = [x for c in chk for x in cfgg.node_containing(c)]
            if nodes and all(cfgg.dominates(nodes, n, exc=False) for n in cfgg.nodes_for(st)):
                ctx.holds("P13", "%s: a test is handed to its parent (check_next_arg('test', ...)) before adoption" % g.qualname)
            else:
                ctx.violation("P13", g, "test-not-attached", "a test can become current without having been given to the command it belongs to",
                              node=st, witness="`if not exists \"a\" {...}`: the inner test is missing from the tree")


def p14(ctx, R):
    ctx.rule("P14", "string lists: fresh list on '[', every string appended, the list handed over on ']'")
    f = R.stringlist
    cfg = ctx.cfg(f)

    def tok(t):
        def pred(fc):
            e, pol = fact_atom(fc)
            cp = cmp_parts(e)
            return bool(cp and pol is True and cp[1] == "Eq" and const_value(ctx.program, f, cp[2]) == t)
        return pred
    apps = [st for st in walk_no_nested(f.node) if (isinstance(st, ast.AugAssign) and R.an("curstringlist") in norm(st.target)) or (
        isinstance(st, ast.Expr) and isinstance(st.value, ast.Call) and call_name(st.value) == "append" and R.an("curstringlist") in norm(st.value.func.value))]
    ok = len(apps) == 1 and all(cfg.guarded(n, tok("string")) for n in cfg.nodes_for(apps[0]))
    if ok:
        v = apps[0].value.elts[0] if isinstance(apps[0], ast.AugAssign) and isinstance(apps[0].value, ast.List) and apps[0].value.elts else (
            apps[0].value.args[0] if isinstance(apps[0], ast.Expr) and apps[0].value.args else None)
        ok = isinstance(v, ast.Call) and call_name(v) == "decode" and isinstance(v.func.value, ast.Name) and "value" in v.func.value.id
    if ok:
        # unconditionally within the `string` branch: every path from the token fact passes the append
        an = cfg.nodes_for(apps[0])
        for fc in cfg.facts(tok("string")):
            r = cfg.reach(fc, avoid=an, exc=False)
            if cfg.exit in r:
                ok = False
    if ok:
        ctx.holds("P14", "%s: each string token is appended (decoded, otherwise unmodified)" % f.qualname)
    else:
        ctx.violation("P14", f, "item-not-appended", "string tokens inside brackets are not each appended, verbatim, to the current list", node=f.node,
                      witness='`["a", "b"]` is accepted but an item is missing or altered in the tree')
    acc = R.an("curstringlist")

    def is_acc(e):
        """the accumulator itself, or a local that was bound to it (`strings = self.<acc>`, taken before the attribute gets a new list)"""
        if acc in norm(e):
            return True
        if isinstance(e, ast.Name):
            ds = [a for a in walk_no_nested(f.node) if isinstance(a, ast.Assign) and any(isinstance(t, ast.Name) and t.id == e.id for t in a.targets)]
            return bool(ds) and all(isinstance(a.value, ast.Attribute) and acc in norm(a.value) for a in ds)
        return False
    hand = [c for c in walk_no_nested(f.node) if isinstance(c, ast.Call) and call_name(c) == "check_next_arg" and len(c.args) >= 2
            and const_value(ctx.program, f, c.args[0]) == "stringlist" and is_acc(c.args[1])]
    if hand and all(cfg.guarded(n, tok("right_bracket")) for c in hand for n in cfg.node_containing(c)):
        ctx.holds("P14", "%s: the accumulated list is given to the command on `]`" % f.qualname)
    else:
        ctx.violation("P14", f, "list-not-handed-over", "on `]` the accumulated list is not given to the current command as a stringlist", node=f.node,
                      witness="bracketed lists are accepted and dropped")
    g = R.argument
    cfgg = ctx.cfg(g)
    inits = [st for st in walk_no_nested(g.node) if isinstance(st, ast.Assign) and any(R.an("curstringlist") in norm(t) for t in st.targets)]

    def lb(fc):
        e, pol = fact_atom(fc)
        cp = cmp_parts(e)
        return bool(cp and pol is True and cp[1] == "Eq" and const_value(ctx.program, g, cp[2]) == "left_bracket")
    uncond = True
    inodes = [n for st in inits for n in cfgg.nodes_for(st)]
    for fc in cfgg.facts(lb):
        if cfgg.exit in cfgg.reach(fc, avoid=inodes, exc=False):
            uncond = False
    # ... or the list is renewed where it is handed over (on every path through the `]` branch) and by the parser reset: then every
    # `[` finds an empty list as well
    renew = [st for st in walk_no_nested(f.node) if isinstance(st, ast.Assign) and any(acc in norm(t) and isinstance(t, ast.Attribute) for t in st.targets)
             and isinstance(st.value, ast.List) and not st.value.elts]
    rnodes = [n for st in renew for n in cfg.nodes_for(st)]
    renewed = bool(renew) and all(cfg.exit not in cfg.reach(fc, avoid=rnodes, exc=False) for fc in cfg.facts(tok("right_bracket"))) and any(
        isinstance(st, ast.Assign) and any(acc in norm(t) and isinstance(t, ast.Attribute) for t in st.targets) and isinstance(st.value, ast.List)
        and not st.value.elts for st in walk_no_nested(R.reset.node))
    if inits and uncond and all(isinstance(st.value, ast.List) and not st.value.elts for st in inits) and all(
            cfgg.guarded(n, lb) for st in inits for n in cfgg.nodes_for(st)):
        ctx.holds("P14", "%s: `[` starts a fresh, empty list" % g.qualname)
    elif not inits and renewed and bool(list(cfg.facts(tok("right_bracket")))):
        ctx.holds("P14", "%s: the list is replaced by a fresh one whenever it is handed over on `]`, and by %s: every `[` finds it empty"
                  % (f.qualname, R.reset.qualname))
    else:
        ctx.violation("P14", g, "list-not-fresh", "`[` does not start a fresh empty list", node=g.node,
                      witness="items of a previous list leak into the next one")
    sw = [st for st in walk_no_nested(g.node) if isinstance(st, ast.Assign) and any(R.an("cstate") in norm(t) for t in st.targets)]
    if sw and all(isinstance(st.value, ast.Attribute) and st.value.attr == R.stringlist.name for st in sw):
        ctx.holds("P14", "`[` switches the state function to the string-list handler")
    else:
        ctx.violation("P14", g, "state-switch", "`[` does not switch to the string-list state", node=g.node)


def p15(ctx, R):
    ctx.rule("P15", "token class -> argument type mapping (string/multiline -> string, number -> number, tag -> tag), value passed verbatim")
    g = R.argument
    cfg = ctx.cfg(g)
    want = {"string": "string", "multiline": "string", "number": "number", "tag": "tag"}
    got = {}
    for c in walk_no_nested(g.node):
        if not (isinstance(c, ast.Call) and call_name(c) == "check_next_arg" and len(c.args) >= 2):
            continue
        a0, a1 = c.args[0], c.args[1]
        toks = set()
        for fc in cfg.facts():
            e, pol = fact_atom(fc)
            cp = cmp_parts(e)
            if cp and pol is True and cp[1] in ("In", "Eq") and isinstance(cp[0], ast.Name) and "type" in cp[0].id:
                v = const_value(ctx.program, g, cp[2])
                if v is not TOP and all(cfg.guarded(n, lambda x, fc=fc: x is fc) for n in cfg.node_containing(c)):
                    toks |= set(v if isinstance(v, (list, tuple, set)) else [v])
        t0 = const_value(ctx.program, g, a0)
        for t in toks:
            got[t] = t if (t0 is TOP and isinstance(a0, ast.Name) and "type" in a0.id) else t0
        verb = isinstance(a1, ast.Call) and call_name(a1) == "decode" and isinstance(a1.func.value, ast.Name) and "value" in a1.func.value.id
        if not verb:
            ctx.violation("P15", g, "value-altered:%s" % norm(a1)[:40], "a token's text is not passed to the command verbatim: %s" % norm(a1), node=c,
                          witness="argument values in the tree differ from the source")
        else:
            # the codec must be able to decode every text the token classes of this branch can carry
            enc = const_value(ctx.program, g, a1.args[0]) if a1.args else "utf-8"
            for k_ in a1.keywords:
                if k_.arg == "encoding":
                    enc = const_value(ctx.program, g, k_.value)
            errs = const_value(ctx.program, g, a1.args[1]) if len(a1.args) > 1 else next(
                (const_value(ctx.program, g, k_.value) for k_ in a1.keywords if k_.arg == "errors"), "strict")
            wide = []
            for t in sorted(toks):
                try:
                    if rx.byteset(R.pattern(t)) >> 128:
                        wide.append(t)
                except (AnalysisError, rx.Undecidable):
                    wide.append(t)
            utf8 = isinstance(enc, str) and enc.lower().replace("_", "-") in ("utf-8", "utf8")
            if wide and not utf8:
                ctx.violation("P15", g, "value-codec:%s" % enc, "the text of %s tokens (any byte) is decoded as %r: non-ASCII text that is valid UTF-8 is "
                              "refused" % ("/".join(wide), enc), node=c, witness='`fileinto "Entw\u00fcrfe";` is rejected')
            elif wide and errs not in ("strict", TOP):
                ctx.violation("P15", g, "value-codec-errors:%s" % errs, "the text of %s tokens is decoded with errors=%r: bytes that are not valid "
                              "UTF-8 are silently replaced in the tree" % ("/".join(wide), errs), node=c,
                              witness="a script with a Latin-1 byte in a string is accepted with U+FFFD in the value")
            elif wide:
                ctx.holds("P15", "%s: %s tokens decoded as UTF-8 (strict)" % (g.qualname, "/".join(wide)))
    for t, w in want.items():
        if got.get(t) == w:
            ctx.holds("P15", "%s token -> %s argument" % (t, w))
        else:
            ctx.violation("P15", g, "type-mapping:%s" % t, "a %s token is given to the command as %r (expected %r)" % (t, got.get(t), w), node=g.node,
                          witness="`%s` arguments are rejected or accepted in the wrong slots" % t)
