"""Normalisation pass run once per check, right after the program model is built (see sa/inline.py).

Private helpers the rule set does not know (not listed in ref/known_functions.json and not discovered as a role) are inlined
into their callers; locals that only name an access path are replaced by the path.  The table of known names is data about
the rule set (which functions its rules address by role), not about the behaviour of the repository.
"""
import ast
import json
import os

from sa import inline
from sa.model import AnalysisError

HERE = os.path.dirname(os.path.dirname(os.path.abspath(__file__)))


class _Shim:
    def __init__(self, program):
        self.program = program


def _known():
    with open(os.path.join(HERE, "ref", "known_functions.json")) as fp:
        return json.load(fp)["names"]


def role_functions(program):
    """Functions the rules address by role even when their name is not a known one (renamed methods)."""
    roles = set()
    try:
        from .proles import discover_parser_methods
        P = program.module("parser").classes.get("Parser")
        if P is not None:
            pm = {n.lstrip("_"): f for n, f in P.methods.items()}
            discover_parser_methods(P, pm)
            for k in ("parse", "command", "arguments", "argument", "stringlist", "up", "check_command_completion", "reset_parser",
                      "set_expected", "push_expected_bracket", "pop_expected_bracket"):
                if k in pm:
                    roles.add(id(pm[k].node))
    except Exception:
        pass
    try:
        from .roles import ClientRoles
        R = ClientRoles(_Shim(program), "normalise")
        for f in (R.sender, R.block_reader, R.line_reader, R.assembler, R.error_parser, R.formatter, R.literal_builder):
            if f is not None:
                roles.add(id(f.node))
    except AnalysisError:
        pass
    except Exception:
        pass
    return roles


def normalise(program):
    known = _known()
    roles = role_functions(program)
    stats = {"inlined_call_sites": 0, "helpers": {}, "propagated_uses": 0}

    def single_expression(h):
        body = list(h.node.body)
        if body and isinstance(body[0], ast.Expr) and isinstance(body[0].value, ast.Constant) and isinstance(body[0].value.value, str):
            body = body[1:]
        return len(body) == 1 and isinstance(body[0], ast.Return) and body[0].value is not None

    def is_unknown_helper(h):
        if h is None:
            return False
        if id(h.node) in roles and not single_expression(h):
            return False
        nm = h.name
        if not nm.startswith("_") or (nm.startswith("__") and nm.endswith("__")):
            return False
        scope = h.cls.name if h.cls is not None else "<module>"
        if nm in known.get(h.module.name, {}).get(scope, []):
            return False
        if h.cls is not None and nm.endswith("_authentication"):
            return False  # SASL mechanisms are selected by name at run time
        return True

    def resolve(call, caller):
        fn = call.func
        h = None
        if isinstance(fn, ast.Attribute) and isinstance(fn.value, ast.Name) and caller.cls is not None:
            if caller.params and fn.value.id == caller.params[0] or fn.value.id == caller.cls.name:
                for c in program.mro(caller.cls):
                    if fn.attr in c.methods:
                        h = c.methods[fn.attr]
                        break
        elif isinstance(fn, ast.Name):
            h = caller.module.funcs.get(fn.id)
        return h if is_unknown_helper(h) else None

    inl = inline.Inliner(resolve)
    touched = []
    for m in program.modules.values():
        funcs = list(m.funcs.values()) + [f for c in m.classes.values() for f in c.methods.values()]
        for f in funcs:
            before = inl.count
            inl.run(f)
            if inl.count != before:
                touched.append(f)
    stats["inlined_call_sites"] = inl.count
    stats["helpers"] = dict(inl.inlined)
    for f in touched:
        inline.relink(f.node, getattr(f.node, "_parent", None))
        inline.renumber(f.node)
    # helpers whose every call site was inlined are no longer separate units of analysis
    if inl.inlined:
        for m in program.modules.values():
            remaining = set()
            for n in ast.walk(m.tree):
                if isinstance(n, ast.Attribute):
                    remaining.add(n.attr)
                elif isinstance(n, ast.Name):
                    remaining.add(n.id)
            for scope in [m] + list(m.classes.values()):
                table = scope.funcs if scope is m else scope.methods
                for nm in list(table):
                    h = table[nm]
                    if h.qualname in inl.inlined and is_unknown_helper(h):
                        # still referenced somewhere outside its own definition?
                        refs = 0
                        for n in ast.walk(m.tree):
                            if (isinstance(n, ast.Attribute) and n.attr == nm) or (isinstance(n, ast.Name) and n.id == nm):
                                p = n
                                inside = False
                                while p is not None:
                                    if p is h.node:
                                        inside = True
                                        break
                                    p = getattr(p, "_parent", None)
                                if not inside:
                                    refs += 1
                        if refs == 0:
                            del table[nm]
                            body = scope.tree.body if scope is m else scope.node.body
                            if h.node in body:
                                body.remove(h.node)
    program._allfuncs = None
    for f in program.all_funcs():
        try:
            stats["propagated_uses"] += inline.propagate_paths(f)
        except Exception:
            continue
    program.normalised = stats
    return stats
