"""Normalisation pass run once per check, right after the program model is built (see sa/inline.py).

Private helpers the rule set does not know (not listed in ref/known_functions.json and not discovered as a role) are inlined
into their callers; locals that only name an access path are replaced by the path.  The table of known names is data about
the rule set (which functions its rules address by role), not about the behaviour of the repository.
"""
import ast
import json
import os

from sa import inline
from sa.model import AnalysisError

HERE = os.path.dirname(os.path.dirname(os.path.abspath(__file__)))


class _Shim:
    def __init__(self, program):
        self.program = program


def _known():
    with open(os.path.join(HERE, "ref", "known_functions.json")) as fp:
        return json.load(fp)["names"]


def role_functions(program):
    """Functions the rules address by role even when their name is not a known one (renamed methods)."""
    roles = set()
    try:
        from .proles import discover_parser_methods
        P = program.module("parser").classes.get("Parser")
        if P is not None:
            pm = {n.lstrip("_"): f for n, f in P.methods.items()}
            discover_parser_methods(P, pm)
            for k in ("parse", "command", "arguments", "argument", "stringlist", "up", "check_command_completion", "reset_parser",
                      "set_expected", "push_expected_bracket", "pop_expected_bracket"):
                if k in pm:
                    roles.add(id(pm[k].node))
    except Exception:
        pass
    try:
        from .roles import ClientRoles
        R = ClientRoles(_Shim(program), "normalise")
        for f in (R.sender, R.block_reader, R.line_reader, R.assembler, R.error_parser, R.formatter, R.literal_builder):
            if f is not None:
                roles.add(id(f.node))
    except AnalysisError:
        pass
    except Exception:
        pass
    return roles


def canonical_parser_setters(program):
    """The rules address "install the expected-token set" and "remember the opened bracket" as two small methods of Parser.  When a
    tree has those two helpers written out at their call sites (`self.__expected = ("a", "b")`, `stack.append((t, v))`) the model
    is brought back to the helper form: the assignments become calls of a synthesised setter with the same effect."""
    P = program.module("parser").classes.get("Parser")
    if P is None or "parse" not in P.methods:
        return 0
    from .proles import discover_parser_methods
    pm = {n.lstrip("_"): f for n, f in P.methods.items()}
    discover_parser_methods(P, pm)
    parse = P.methods["parse"]
    sn = parse.params[0]
    n = 0
    src_mod = program.module("parser")
    if "set_expected" not in pm:
        # the attribute the current token type is tested against in parse()
        attr = None
        for c in ast.walk(parse.node):
            if isinstance(c, ast.Compare) and len(c.ops) == 1 and isinstance(c.ops[0], (ast.In, ast.NotIn)) and isinstance(c.comparators[0], ast.Attribute) \
                    and isinstance(c.comparators[0].value, ast.Name) and c.comparators[0].value.id == sn:
                attr = c.comparators[0].attr
        if attr is not None:
            name = "__set_expected"
            for f in P.methods.values():
                if f.name in ("__init__",) or f is pm.get("reset_parser"):
                    continue

                class T(ast.NodeTransformer):
                    def visit_FunctionDef(self, node):
                        if node is f.node:
                            self.generic_visit(node)
                        return node

                    def visit_Assign(self, a):
                        if len(a.targets) == 1 and isinstance(a.targets[0], ast.Attribute) and a.targets[0].attr == attr \
                                and isinstance(a.targets[0].value, ast.Name) and isinstance(a.value, ast.Tuple):
                            call = ast.Call(func=ast.Attribute(value=ast.Name(id=a.targets[0].value.id, ctx=ast.Load()), attr=name, ctx=ast.Load()),
                                            args=list(a.value.elts), keywords=[])
                            new = ast.Expr(value=call)
                            for x in ast.walk(new):
                                if isinstance(x, (ast.stmt, ast.expr)) and not hasattr(x, "lineno"):
                                    ast.copy_location(x, a)
                            nonlocal_count[0] += 1
                            return new
                        return a
                nonlocal_count = [0]
                T().visit(f.node)
                if nonlocal_count[0]:
                    n += nonlocal_count[0]
                    inline.relink(f.node, getattr(f.node, "_parent", None))
            if n:
                from sa.model import Func
                synth = ast.parse("def %s(self, *args):\n    self.%s = args\n" % (name, attr)).body[0]
                synth.lineno = P.node.lineno
                for x in ast.walk(synth):
                    if hasattr(x, "lineno"):
                        x.lineno = P.node.lineno
                P.node.body.append(synth)
                inline.relink(synth, P.node)
                P.methods[name] = Func(synth, src_mod, cls=P)
    if "push_expected_bracket" not in pm:
        pop = pm.get("pop_expected_bracket")
        stack = None
        if pop is not None:
            for c in ast.walk(pop.node):
                if isinstance(c, ast.Call) and isinstance(c.func, ast.Attribute) and c.func.attr == "pop" and isinstance(c.func.value, ast.Attribute):
                    stack = c.func.value.attr
        if stack is not None:
            name = "__push_expected_bracket"
            m = 0
            for f in P.methods.values():
                if f is pop:
                    continue
                cnt = [0]

                class U(ast.NodeTransformer):
                    def visit_FunctionDef(self, node):
                        if node is f.node:
                            self.generic_visit(node)
                        return node

                    def visit_Call(self, c):
                        self.generic_visit(c)
                        if isinstance(c.func, ast.Attribute) and c.func.attr == "append" and isinstance(c.func.value, ast.Attribute) \
                                and c.func.value.attr == stack and isinstance(c.func.value.value, ast.Name) and len(c.args) == 1 \
                                and isinstance(c.args[0], ast.Tuple) and len(c.args[0].elts) == 2:
                            new = ast.Call(func=ast.Attribute(value=ast.Name(id=c.func.value.value.id, ctx=ast.Load()), attr=name, ctx=ast.Load()),
                                           args=list(c.args[0].elts), keywords=[])
                            for x in ast.walk(new):
                                if isinstance(x, ast.expr) and not hasattr(x, "lineno"):
                                    ast.copy_location(x, c)
                            cnt[0] += 1
                            return new
                        return c
                U().visit(f.node)
                if cnt[0]:
                    m += cnt[0]
                    inline.relink(f.node, getattr(f.node, "_parent", None))
            if m:
                from sa.model import Func
                synth = ast.parse("def %s(self, ttype, tvalue):\n    self.%s.append((ttype, tvalue))\n" % (name, stack)).body[0]
                for x in ast.walk(synth):
                    if hasattr(x, "lineno"):
                        x.lineno = P.node.lineno
                P.node.body.append(synth)
                inline.relink(synth, P.node)
                P.methods[name] = Func(synth, src_mod, cls=P)
                n += m
    if n:
        program._allfuncs = None
    return n


def normalise(program):
    known = _known()
    skipped = []
    try:
        setters = canonical_parser_setters(program)
    except Exception as e:
        setters = 0
        skipped.append("setters: %s" % type(e).__name__)
    roles = role_functions(program)
    stats = {"inlined_call_sites": 0, "helpers": {}, "propagated_uses": 0, "constant_reads_inlined": 0}

    def single_expression(h):
        body = list(h.node.body)
        if body and isinstance(body[0], ast.Expr) and isinstance(body[0].value, ast.Constant) and isinstance(body[0].value.value, str):
            body = body[1:]
        return len(body) == 1 and isinstance(body[0], ast.Return) and body[0].value is not None

    def is_unknown_helper(h):
        if h is None:
            return False
        if id(h.node) in roles and not single_expression(h):
            return False
        nm = h.name
        if nm.startswith("__") and nm.endswith("__"):
            return False
        if h.cls is not None and not nm.startswith("_"):
            return False  # public methods are entry points of their own
        scope = h.cls.name if h.cls is not None else "<module>"
        if nm in known.get(h.module.name, {}).get(scope, []):
            return False
        # a known function that only changed its place or visibility (method <-> module function, __x <-> _x) keeps its role
        stripped = nm.lstrip("_")
        for sc, names in known.get(h.module.name, {}).items():
            if sc != "<assigned>" and any(k.lstrip("_") == stripped for k in names):
                return False
        if h.cls is not None and nm.endswith("_authentication"):
            return False  # SASL mechanisms are selected by name at run time
        return True

    def resolve(call, caller):
        fn = call.func
        h = None
        if caller is None or not hasattr(caller, "module"):
            # class-level / module-level expression: only plain function names of that module
            mod = caller
            if isinstance(fn, ast.Name) and mod is not None:
                h = mod.funcs.get(fn.id)
            return h if is_unknown_helper(h) else None
        if isinstance(fn, ast.Attribute) and isinstance(fn.value, ast.Name) and caller.cls is not None:
            if caller.params and fn.value.id == caller.params[0] or fn.value.id == caller.cls.name:
                for c in program.mro(caller.cls):
                    if fn.attr in c.methods:
                        h = c.methods[fn.attr]
                        break
        elif isinstance(fn, ast.Name):
            h = caller.module.funcs.get(fn.id)
        return h if is_unknown_helper(h) else None

    # module-level constants the rule set does not know (literals moved out of the code) are put back where they are read
    stats["constant_reads_inlined"] = 0
    for m in program.modules.values():
        kn = set(known.get(m.name, {}).get("<assigned>", []))
        try:
            stats["constant_reads_inlined"] += inline.inline_constants(m, kn)
        except Exception as e:
            skipped.append("constants %s: %s" % (m.name, type(e).__name__))
            continue
        # class-level bindings may have been rewritten: refresh the model's views of them
        for c in m.classes.values():
            for st in c.node.body:
                if isinstance(st, ast.Assign):
                    for t in st.targets:
                        if isinstance(t, ast.Name):
                            c.attrs[t.id] = st.value
                elif isinstance(st, ast.AnnAssign) and isinstance(st.target, ast.Name) and st.value is not None:
                    c.attrs[st.target.id] = st.value
        for st in m.tree.body:
            if isinstance(st, ast.Assign):
                for t in st.targets:
                    if isinstance(t, ast.Name):
                        m.assigns[t.id] = st.value

    stats["dispatch_tables_expanded"] = 0
    for m in program.modules.values():
        for f in list(m.funcs.values()) + [f for c in m.classes.values() for f in c.methods.values()]:
            try:
                stats["dispatch_tables_expanded"] += inline.devirtualise(f.node)
            except Exception as e:
                skipped.append("dispatch %s: %s" % (f.qualname, type(e).__name__))
                continue
    stats["walrus_hoisted"] = 0
    for m in program.modules.values():
        for f in list(m.funcs.values()) + [f for c in m.classes.values() for f in c.methods.values()]:
            try:
                stats["walrus_hoisted"] += inline.hoist_walrus(f.node)
            except Exception as e:
                skipped.append("walrus %s: %s" % (f.qualname, type(e).__name__))
                continue

    inl = inline.Inliner(resolve)
    touched = []
    for m in program.modules.values():
        funcs = list(m.funcs.values()) + [f for c in m.classes.values() for f in c.methods.values()]
        for f in funcs:
            before = inl.count
            inl.run(f)
            if inl.count != before:
                touched.append(f)
    for m in program.modules.values():
        for c in m.classes.values():
            for st in c.node.body:
                if isinstance(st, (ast.Assign, ast.AnnAssign)) and st.value is not None:
                    new = inl.expressions_in(st.value, None, m)
                    if new is not st.value:
                        st.value = new
                    inline.relink(st, c.node)
                    for t in (st.targets if isinstance(st, ast.Assign) else [st.target]):
                        if isinstance(t, ast.Name):
                            c.attrs[t.id] = st.value
        for st in m.tree.body:
            if isinstance(st, (ast.Assign, ast.AnnAssign)) and st.value is not None:
                new = inl.expressions_in(st.value, None, m)
                if new is not st.value:
                    st.value = new
                inline.relink(st, m.tree)
                for t in (st.targets if isinstance(st, ast.Assign) else [st.target]):
                    if isinstance(t, ast.Name):
                        m.assigns[t.id] = st.value
    stats["inlined_call_sites"] = inl.count
    stats["helpers"] = dict(inl.inlined)
    for f in touched:
        inline.relink(f.node, getattr(f.node, "_parent", None))
        inline.renumber(f.node)
    # helpers whose every call site was inlined are no longer separate units of analysis
    if inl.inlined:
        for m in program.modules.values():
            remaining = set()
            for n in ast.walk(m.tree):
                if isinstance(n, ast.Attribute):
                    remaining.add(n.attr)
                elif isinstance(n, ast.Name):
                    remaining.add(n.id)
            for scope in [m] + list(m.classes.values()):
                table = scope.funcs if scope is m else scope.methods
                for nm in list(table):
                    h = table[nm]
                    if h.qualname in inl.inlined and is_unknown_helper(h) and nm.startswith("_"):
                        # still referenced somewhere outside its own definition?
                        refs = 0
                        for n in ast.walk(m.tree):
                            if (isinstance(n, ast.Attribute) and n.attr == nm) or (isinstance(n, ast.Name) and n.id == nm):
                                p = n
                                inside = False
                                while p is not None:
                                    if p is h.node:
                                        inside = True
                                        break
                                    p = getattr(p, "_parent", None)
                                if not inside:
                                    refs += 1
                        if refs == 0:
                            del table[nm]
                            body = scope.tree.body if scope is m else scope.node.body
                            if h.node in body:
                                body.remove(h.node)
    program._allfuncs = None
    for f in program.all_funcs():
        try:
            stats["propagated_uses"] += inline.propagate_paths(f)
        except Exception as e:
            skipped.append("paths %s: %s" % (f.qualname, type(e).__name__))
            continue
    stats["setter_calls_restored"] = setters
    stats["passes_skipped_on_error"] = skipped
    program.normalised = stats
    return stats
