"""Normalisation pass run once per check, right after the program model is built (see sa/inline.py).

Private helpers the rule set does not know (not listed in ref/known_functions.json and not discovered as a role) are inlined
into their callers; locals that only name an access path are replaced by the path.  The table of known names is data about
the rule set (which functions its rules address by role), not about the behaviour of the repository.
"""
import ast
import json
import os

from sa import inline
from sa.model import AnalysisError, norm, call_name, walk_no_nested

HERE = os.path.dirname(os.path.dirname(os.path.abspath(__file__)))


class _Shim:
    def __init__(self, program):
        self.program = program


def _known():
    with open(os.path.join(HERE, "ref", "known_functions.json")) as fp:
        return json.load(fp)["names"]


def role_functions(program):
    """Functions the rules address by role even when their name is not a known one (renamed methods)."""
    roles = set()
    try:
        from .proles import discover_parser_methods
        P = program.module("parser").classes.get("Parser")
        if P is not None:
            pm = {n.lstrip("_"): f for n, f in P.methods.items()}
            discover_parser_methods(P, pm)
            for k in ("parse", "command", "arguments", "argument", "stringlist", "up", "check_command_completion", "reset_parser",
                      "set_expected", "push_expected_bracket", "pop_expected_bracket"):
                if k in pm:
                    roles.add(id(pm[k].node))
    except Exception:
        pass
    try:
        from .roles import ClientRoles
        R = ClientRoles(_Shim(program), "normalise")
        for f in (R.sender, R.block_reader, R.line_reader, R.assembler, R.error_parser, R.formatter, R.literal_builder):
            if f is not None:
                roles.add(id(f.node))
    except AnalysisError:
        pass
    except Exception:
        pass
    try:
        from .c12 import tag_derivation_helper
        fm = program.module("factory")
        fc = fm.classes.get("FiltersSet") if fm is not None else None
        if fc is not None:
            h = tag_derivation_helper(fc, fm)
            if h is not None:
                roles.add(id(h.node))
    except Exception:
        pass
    return roles


def canonical_parser_setters(program):
    """The rules address "install the expected-token set" and "remember the opened bracket" as two small methods of Parser.  When a
    tree has those two helpers written out at their call sites (`self.__expected = ("a", "b")`, `stack.append((t, v))`) the model
    is brought back to the helper form: the assignments become calls of a synthesised setter with the same effect."""
    P = program.module("parser").classes.get("Parser")
    if P is None or "parse" not in P.methods:
        return 0
    from .proles import discover_parser_methods
    pm = {n.lstrip("_"): f for n, f in P.methods.items()}
    discover_parser_methods(P, pm)
    parse = P.methods["parse"]
    sn = parse.params[0]
    n = 0
    src_mod = program.module("parser")
    if "set_expected" not in pm:
        # the attribute the current token type is tested against in parse()
        attr = None
        for c in ast.walk(parse.node):
            if isinstance(c, ast.Compare) and len(c.ops) == 1 and isinstance(c.ops[0], (ast.In, ast.NotIn)) and isinstance(c.comparators[0], ast.Attribute) \
                    and isinstance(c.comparators[0].value, ast.Name) and c.comparators[0].value.id == sn:
                attr = c.comparators[0].attr
        if attr is not None:
            name = "__set_expected"
            for f in P.methods.values():
                if f.name in ("__init__",) or f is pm.get("reset_parser"):
                    continue

                class T(ast.NodeTransformer):
                    def visit_FunctionDef(self, node):
                        if node is f.node:
                            self.generic_visit(node)
                        return node

                    def visit_Assign(self, a):
                        if len(a.targets) == 1 and isinstance(a.targets[0], ast.Attribute) and a.targets[0].attr == attr \
                                and isinstance(a.targets[0].value, ast.Name) and isinstance(a.value, ast.Tuple):
                            call = ast.Call(func=ast.Attribute(value=ast.Name(id=a.targets[0].value.id, ctx=ast.Load()), attr=name, ctx=ast.Load()),
                                            args=list(a.value.elts), keywords=[])
                            new = ast.Expr(value=call)
                            for x in ast.walk(new):
                                if isinstance(x, (ast.stmt, ast.expr)) and not hasattr(x, "lineno"):
                                    ast.copy_location(x, a)
                            nonlocal_count[0] += 1
                            return new
                        return a
                nonlocal_count = [0]
                T().visit(f.node)
                if nonlocal_count[0]:
                    n += nonlocal_count[0]
                    inline.relink(f.node, getattr(f.node, "_parent", None))
            if n:
                from sa.model import Func
                synth = ast.parse("def %s(self, *args):\n    self.%s = args\n" % (name, attr)).body[0]
                synth.lineno = P.node.lineno
                for x in ast.walk(synth):
                    if hasattr(x, "lineno"):
                        x.lineno = P.node.lineno
                P.node.body.append(synth)
                inline.relink(synth, P.node)
                P.methods[name] = Func(synth, src_mod, cls=P)
    if "push_expected_bracket" not in pm:
        pop = pm.get("pop_expected_bracket")
        stack = None
        if pop is not None:
            for c in ast.walk(pop.node):
                if isinstance(c, ast.Call) and isinstance(c.func, ast.Attribute) and c.func.attr == "pop" and isinstance(c.func.value, ast.Attribute):
                    stack = c.func.value.attr
        if stack is not None:
            name = "__push_expected_bracket"
            m = 0
            for f in P.methods.values():
                if f is pop:
                    continue
                cnt = [0]

                class U(ast.NodeTransformer):
                    def visit_FunctionDef(self, node):
                        if node is f.node:
                            self.generic_visit(node)
                        return node

                    def visit_Call(self, c):
                        self.generic_visit(c)
                        if isinstance(c.func, ast.Attribute) and c.func.attr == "append" and isinstance(c.func.value, ast.Attribute) \
                                and c.func.value.attr == stack and isinstance(c.func.value.value, ast.Name) and len(c.args) == 1 \
                                and isinstance(c.args[0], ast.Tuple) and len(c.args[0].elts) == 2:
                            new = ast.Call(func=ast.Attribute(value=ast.Name(id=c.func.value.value.id, ctx=ast.Load()), attr=name, ctx=ast.Load()),
                                           args=list(c.args[0].elts), keywords=[])
                            for x in ast.walk(new):
                                if isinstance(x, ast.expr) and not hasattr(x, "lineno"):
                                    ast.copy_location(x, c)
                            cnt[0] += 1
                            return new
                        return c
                U().visit(f.node)
                if cnt[0]:
                    m += cnt[0]
                    inline.relink(f.node, getattr(f.node, "_parent", None))
            if m:
                from sa.model import Func
                synth = ast.parse("def %s(self, ttype, tvalue):\n    self.%s.append((ttype, tvalue))\n" % (name, stack)).body[0]
                for x in ast.walk(synth):
                    if hasattr(x, "lineno"):
                        x.lineno = P.node.lineno
                P.node.body.append(synth)
                inline.relink(synth, P.node)
                P.methods[name] = Func(synth, src_mod, cls=P)
                n += m
    if n:
        program._allfuncs = None
    return n


def devirtualise_shared_tables(program):
    """`self.__handlers[key](self, x)` / `_HANDLERS[key](x)` where the table is a class-level / module-level dict literal with
    constant keys and plain function names as values, called at statement level, becomes the if/elif chain over the keys
    (KeyError when none matches).  Returns the number of rewritten call sites."""
    count = 0

    def table_of(expr, f):
        # self.T / Cls.T / T
        if isinstance(expr, ast.Attribute) and isinstance(expr.value, ast.Name) and f.cls is not None and (
                (f.params and expr.value.id == f.params[0]) or expr.value.id == f.cls.name):
            want = expr.attr
            for c in program.mro(f.cls):
                for nm, v in c.attrs.items():
                    if nm == want or inline_mangle(c.name, nm) == want or inline_mangle(c.name, nm) == inline_mangle(f.cls.name, want):
                        if isinstance(v, ast.Dict):
                            # the name must be bound once in the class body and never stored through self
                            return v, c
            return None, None
        if isinstance(expr, ast.Name):
            v = f.module.assigns.get(expr.id)
            if isinstance(v, ast.Dict):
                return v, None
        return None, None

    def usable(d):
        return d.keys and all(isinstance(k, ast.Constant) for k in d.keys) and all(isinstance(v, ast.Name) for v in d.values)

    def rewrite(st, f):
        nonlocal count
        call = st.value if isinstance(st, (ast.Expr, ast.Assign, ast.Return)) else None
        if not isinstance(call, ast.Call) or not isinstance(call.func, ast.Subscript):
            return None
        key = call.func.slice
        if not isinstance(key, (ast.Name, ast.Constant)):
            return None
        d, owner = table_of(call.func.value, f)
        if d is None or not usable(d):
            return None
        args = list(call.args)
        if owner is not None:
            # class-level table of plain functions: called with the object as first argument
            if not args or not isinstance(args[0], ast.Name) or not f.params or args[0].id != f.params[0]:
                return None
            if not all(v.id in owner.methods for v in d.values):
                return None
            args = args[1:]
        else:
            if not all(v.id in f.module.funcs for v in d.values):
                return None

        def variant(v):
            if owner is not None:
                fn = ast.Attribute(value=ast.Name(id=f.params[0], ctx=ast.Load()), attr=v.id, ctx=ast.Load())
            else:
                fn = ast.Name(id=v.id, ctx=ast.Load())
            c = ast.Call(func=fn, args=[inline.clone(a) for a in args], keywords=[inline.clone(k) for k in call.keywords])
            if isinstance(st, ast.Expr):
                new = ast.Expr(value=c)
            elif isinstance(st, ast.Return):
                new = ast.Return(value=c)
            else:
                new = ast.Assign(targets=[inline.clone(t) for t in st.targets], value=c)
            return new
        chain = [ast.Raise(exc=ast.Call(func=ast.Name(id="KeyError", ctx=ast.Load()), args=[inline.clone(key)], keywords=[]), cause=None)]
        for k, v in reversed(list(zip(d.keys, d.values))):
            chain = [ast.If(test=ast.Compare(left=inline.clone(key), ops=[ast.Eq()], comparators=[inline.clone(k)]), body=[variant(v)], orelse=chain)]
        for n in ast.walk(chain[0]):
            if isinstance(n, (ast.stmt, ast.expr)):
                n.lineno, n.col_offset = st.lineno, st.col_offset
                n.end_lineno, n.end_col_offset = getattr(st, "end_lineno", st.lineno), getattr(st, "end_col_offset", 0)
        count += 1
        return chain

    def block(stmts, f):
        out = []
        for st in stmts:
            if isinstance(st, (ast.FunctionDef, ast.AsyncFunctionDef, ast.ClassDef)):
                out.append(st)
                continue
            for owner, fld, lst in inline._stmt_lists(st):
                setattr(owner, fld, block(lst, f))
            rep = rewrite(st, f)
            out.extend(rep if rep is not None else [st])
        return out
    for m in program.modules.values():
        for f in list(m.funcs.values()) + [f for c in m.classes.values() for f in c.methods.values()]:
            before = count
            f.node.body = block(f.node.body, f)
            if count != before:
                inline.relink(f.node, getattr(f.node, "_parent", None))
    if count:
        # a table nothing reads any more is dropped (its values would otherwise keep the handlers alive as separate units)
        for m in program.modules.values():
            for c in m.classes.values():
                for st in list(c.node.body):
                    if isinstance(st, ast.Assign) and len(st.targets) == 1 and isinstance(st.targets[0], ast.Name) and isinstance(st.value, ast.Dict):
                        nm = st.targets[0].id
                        mg = inline_mangle(c.name, nm)
                        read = False
                        for n in ast.walk(m.tree):
                            if isinstance(n, ast.Attribute) and n.attr in (nm, mg):
                                read = True
                            elif isinstance(n, ast.Name) and n.id == nm and isinstance(n.ctx, ast.Load):
                                read = True
                        if not read and usable(st.value):
                            c.node.body.remove(st)
                            c.attrs.pop(nm, None)
    return count


def inline_mangle(cls, name):
    if name.startswith("__") and not name.endswith("__"):
        return "_%s%s" % (cls.lstrip("_"), name)
    return name


def _contradicted_declarations(program, f):
    """Parameters of f whose declared builtin type the package itself contradicts: some call of f passes a list / dict / tuple (a literal,
    a comprehension, or a name or attribute that is bound to one somewhere in the calling class or function).  The declaration of such a
    parameter says nothing about `isinstance` tests on it (Command.check_next_arg declares `avalue: str` and is handed string lists)."""
    cache = program.__dict__.setdefault("_contradicted", {})
    if id(f.node) in cache:
        return cache[id(f.node)]
    out = set()
    own = [a.arg for a in f.node.args.posonlyargs + f.node.args.args]
    params = own[1:] if f.cls is not None and own and "staticmethod" not in getattr(f, "decorators", ()) else own

    def listy(e, scope):
        if isinstance(e, (ast.List, ast.ListComp, ast.Dict, ast.Tuple, ast.Set, ast.DictComp)):
            return True
        key = e.attr if isinstance(e, ast.Attribute) else (e.id if isinstance(e, ast.Name) else None)
        if key is None:
            return False
        for n in ast.walk(scope):
            if isinstance(n, ast.Assign) and isinstance(n.value, (ast.List, ast.ListComp, ast.Dict)):
                for t in n.targets:
                    if (isinstance(t, ast.Attribute) and t.attr == key) or (isinstance(t, ast.Name) and t.id == key):
                        return True
        return False
    for g in program.all_funcs():
        scope = g.cls.node if g.cls is not None else g.node
        for c in ast.walk(g.node):
            if isinstance(c, ast.Call) and ((isinstance(c.func, ast.Attribute) and c.func.attr == f.name) or (
                    isinstance(c.func, ast.Name) and c.func.id == f.name)):
                for p_, a_ in zip(params, c.args):
                    if listy(a_, scope):
                        out.add(p_)
                for k_ in c.keywords:
                    if k_.arg in params and listy(k_.value, scope):
                        out.add(k_.arg)
    cache[id(f.node)] = out
    return out


def flatten_record_attrs(program):
    """Scalar replacement of a record-typed attribute: when an attribute S of a class is only ever bound to `D()` (D a dataclass of the
    same module whose fields all have defaults) and only ever used as `self.S.<field>` or `self.S.<method of D>()`, the fields become
    attributes `self.<S>_<field>` of the class itself, `self.S = D()` becomes the field initialisations and the (argument-less) methods
    of D are written out where they are called.  Grouping the state of an object in a dataclass changes nothing the rules care about;
    they go on seeing one attribute per piece of state.  Returns the number of flattened attributes."""
    done = 0
    for m in program.modules.values():
        records = {}
        for c in m.classes.values():
            decos = {norm(d).split(".")[-1].split("(")[0] for d in c.node.decorator_list}
            if "dataclass" not in decos:
                continue
            fields, ok = [], True
            for st in c.node.body:
                if isinstance(st, ast.AnnAssign) and isinstance(st.target, ast.Name):
                    v = st.value
                    if isinstance(v, ast.Constant):
                        fields.append((st.target.id, v))
                    elif isinstance(v, ast.Call) and call_name(v) == "field" and len(v.keywords) == 1 and v.keywords[0].arg == "default_factory" \
                            and isinstance(v.keywords[0].value, ast.Name) and v.keywords[0].value.id in ("list", "dict", "set"):
                        k = v.keywords[0].value.id
                        fields.append((st.target.id, ast.List(elts=[], ctx=ast.Load()) if k == "list" else ast.Dict(keys=[], values=[]) if k == "dict"
                                       else ast.Call(func=ast.Name(id="set", ctx=ast.Load()), args=[], keywords=[])))
                    else:
                        ok = False
                elif isinstance(st, (ast.FunctionDef, ast.Expr, ast.Pass)):
                    continue
                else:
                    ok = False
            if ok and fields:
                records[c.name] = (c, dict(fields), [f for f, _ in fields])
        if not records:
            continue
        for c in m.classes.values():
            if c.name in records:
                continue
            # candidate attributes: self.S = D()
            cand = {}
            for f in c.methods.values():
                sn = f.params[0] if f.params else None
                for n in walk_no_nested(f.node):
                    if isinstance(n, (ast.Assign, ast.AnnAssign)):
                        tgts = n.targets if isinstance(n, ast.Assign) else [n.target]
                        for t in tgts:
                            if isinstance(t, ast.Attribute) and isinstance(t.value, ast.Name) and t.value.id == sn:
                                v = n.value
                                if isinstance(v, ast.Call) and isinstance(v.func, ast.Name) and v.func.id in records and not v.args and not v.keywords:
                                    cand.setdefault(t.attr, set()).add(v.func.id)
                                else:
                                    cand.setdefault(t.attr, set()).add(None)
            for attr, kinds in list(cand.items()):
                if len(kinds) != 1 or None in kinds:
                    continue
                D, fdefs, order = records[next(iter(kinds))]
                dmeths = {n_: f_ for n_, f_ in D.methods.items()}
                # every use must be self.S.<field> / self.S.<method>() / the binding itself
                usable = True
                for f in c.methods.values():
                    sn = f.params[0] if f.params else None
                    for n in ast.walk(f.node):
                        if isinstance(n, ast.Attribute) and n.attr == attr and isinstance(n.value, ast.Name) and n.value.id == sn:
                            par = getattr(n, "_parent", None)
                            if isinstance(n.ctx, ast.Store):
                                continue
                            if isinstance(par, ast.Attribute) and par.value is n and (par.attr in fdefs or (
                                    par.attr in dmeths and isinstance(getattr(par, "_parent", None), ast.Call) and par._parent.func is par
                                    and not par._parent.args and not par._parent.keywords
                                    and isinstance(getattr(par._parent, "_parent", None), ast.Expr))):
                                continue
                            usable = False
                for dm in dmeths.values():
                    dsn = dm.params[0] if dm.params else None
                    if len(dm.params) != 1 or any(isinstance(x, (ast.Return, ast.Yield)) and getattr(x, "value", None) is not None for x in ast.walk(dm.node)) \
                            or any(isinstance(x, ast.Name) and x.id == dsn and not isinstance(getattr(x, "_parent", None), ast.Attribute) for x in ast.walk(dm.node)):
                        if any(isinstance(getattr(getattr(a_, "_parent", None), "_parent", None), ast.Call) for f in c.methods.values() for a_ in ast.walk(f.node)
                               if isinstance(a_, ast.Attribute) and a_.attr == attr and isinstance(getattr(a_, "_parent", None), ast.Attribute)
                               and a_._parent.attr == dm.name):
                            usable = False
                if not usable:
                    continue

                def flat(fname, attr=attr):
                    return "%s_%s" % (attr, fname)

                class RW(ast.NodeTransformer):
                    def __init__(self, sn):
                        self.sn = sn

                    def visit_Attribute(self, n):
                        self.generic_visit(n)
                        if isinstance(n.value, ast.Attribute) and n.value.attr == attr and isinstance(n.value.value, ast.Name) and n.value.value.id == self.sn \
                                and n.attr in fdefs:
                            return ast.copy_location(ast.Attribute(value=ast.Name(id=self.sn, ctx=ast.Load()), attr=flat(n.attr), ctx=n.ctx), n)
                        return n
                for f in c.methods.values():
                    sn = f.params[0] if f.params else None

                    def block(stmts, sn=sn):
                        out = []
                        for st in stmts:
                            if isinstance(st, (ast.FunctionDef, ast.AsyncFunctionDef, ast.ClassDef)):
                                out.append(st)
                                continue
                            for owner, fld, lst in inline._stmt_lists(st):
                                setattr(owner, fld, block(lst))
                            # self.S = D()  ->  field initialisations
                            if isinstance(st, (ast.Assign, ast.AnnAssign)):
                                tgts = st.targets if isinstance(st, ast.Assign) else [st.target]
                                if len(tgts) == 1 and isinstance(tgts[0], ast.Attribute) and tgts[0].attr == attr and isinstance(tgts[0].value, ast.Name) \
                                        and tgts[0].value.id == sn:
                                    for fn_ in order:
                                        a_ = ast.Assign(targets=[ast.Attribute(value=ast.Name(id=sn, ctx=ast.Load()), attr=flat(fn_), ctx=ast.Store())],
                                                        value=inline.clone(fdefs[fn_]))
                                        ast.copy_location(a_, st)
                                        ast.fix_missing_locations(a_)
                                        out.append(a_)
                                    continue
                            # self.S.method()  ->  the method's statements on the flattened attributes
                            if isinstance(st, ast.Expr) and isinstance(st.value, ast.Call) and isinstance(st.value.func, ast.Attribute) \
                                    and isinstance(st.value.func.value, ast.Attribute) and st.value.func.value.attr == attr \
                                    and isinstance(st.value.func.value.value, ast.Name) and st.value.func.value.value.id == sn \
                                    and st.value.func.attr in dmeths:
                                dm = dmeths[st.value.func.attr]
                                dsn = dm.params[0]
                                body = [inline.clone(x) for x in dm.node.body if not (isinstance(x, ast.Expr) and isinstance(x.value, ast.Constant))]

                                class RD(ast.NodeTransformer):
                                    def visit_Attribute(self, n):
                                        self.generic_visit(n)
                                        if isinstance(n.value, ast.Name) and n.value.id == dsn and n.attr in fdefs:
                                            return ast.copy_location(ast.Attribute(value=ast.Name(id=sn, ctx=ast.Load()), attr=flat(n.attr), ctx=n.ctx), n)
                                        return n
                                for x in body:
                                    x = RD().visit(x)
                                    for y in ast.walk(x):
                                        if hasattr(y, "lineno"):
                                            y.lineno = st.lineno
                                    ast.fix_missing_locations(x)
                                    out.append(x)
                                continue
                            out.append(RW(sn).visit(st))
                        return out
                    f.node.body = block(f.node.body)
                    inline.relink(f.node, getattr(f.node, "_parent", None))
                done += 1
    return done


def normalise(program):
    known = _known()
    skipped = []
    try:
        nrec = flatten_record_attrs(program)
    except Exception as e:
        nrec = 0
        skipped.append("records: %s" % type(e).__name__)
    try:
        setters = canonical_parser_setters(program)
    except Exception as e:
        setters = 0
        skipped.append("setters: %s" % type(e).__name__)
    roles = role_functions(program)
    stats = {"inlined_call_sites": 0, "helpers": {}, "propagated_uses": 0, "constant_reads_inlined": 0, "record_attributes_flattened": nrec}

    def single_expression(h):
        body = list(h.node.body)
        if body and isinstance(body[0], ast.Expr) and isinstance(body[0].value, ast.Constant) and isinstance(body[0].value.value, str):
            body = body[1:]
        return len(body) == 1 and isinstance(body[0], ast.Return) and body[0].value is not None

    def is_unknown_helper(h):
        if h is None:
            return False
        if id(h.node) in roles and not single_expression(h):
            return False
        nm = h.name
        if nm.startswith("__") and nm.endswith("__"):
            return False
        if h.cls is not None and not nm.startswith("_"):
            return False  # public methods are entry points of their own
        scope = h.cls.name if h.cls is not None else "<module>"
        if nm in known.get(h.module.name, {}).get(scope, []):
            return False
        # a known function that only changed its place or visibility (method <-> module function, __x <-> _x) keeps its role
        stripped = nm.lstrip("_")
        for sc, names in known.get(h.module.name, {}).items():
            if not sc.startswith("<") and any(k.lstrip("_") == stripped for k in names):
                return False
        if h.cls is not None and nm.endswith("_authentication"):
            return False  # SASL mechanisms are selected by name at run time
        return True

    nested_cache = {}

    def local_def(caller, name):
        """A function defined once, directly in the caller's body, and only ever called there (a named step): its free names
        are the caller's variables at the time of the call, which is what a copy of its body at the call site reads."""
        key = (id(caller.node), name)
        if key in nested_cache:
            return nested_cache[key]
        res = None
        defs = [st for st in caller.node.body if isinstance(st, ast.FunctionDef) and st.name == name]
        if len(defs) == 1 and not defs[0].decorator_list:
            d = defs[0]
            other = 0
            for n in ast.walk(caller.node):
                if isinstance(n, ast.Name) and n.id == name:
                    par = getattr(n, "_parent", None)
                    if not (isinstance(n.ctx, ast.Load) and isinstance(par, ast.Call) and par.func is n) or inline._inside(n, d):
                        other += 1
            if not other:
                from sa.model import Func
                res = Func(d, caller.module, cls=None, outer=caller)
        nested_cache[key] = res
        return res

    import builtins as _bi

    def portable(h, into, alias):
        """The helper's body can stand in a function of module `into`: every global it reads is a builtin, something `into` also
        imports under the same name, or a function / constant of its own module (then written `alias.name` in the copy)."""
        own = set(h.params)
        for n in ast.walk(h.node):
            if isinstance(n, ast.Name) and isinstance(n.ctx, ast.Store):
                own.add(n.id)
            elif isinstance(n, ast.arg):
                own.add(n.arg)
        notes = set()  # annotations are not evaluated by a copy of the body
        for n in ast.walk(h.node):
            if isinstance(n, ast.arg) and n.annotation is not None:
                notes |= {id(x) for x in ast.walk(n.annotation)}
            elif isinstance(n, ast.AnnAssign):
                notes |= {id(x) for x in ast.walk(n.annotation)}
            elif isinstance(n, (ast.FunctionDef, ast.AsyncFunctionDef)) and n.returns is not None:
                notes |= {id(x) for x in ast.walk(n.returns)}
        for n in ast.walk(h.node):
            if isinstance(n, ast.Name) and isinstance(n.ctx, ast.Load) and n.id not in own and id(n) not in notes:
                if hasattr(_bi, n.id):
                    continue
                if n.id in h.module.funcs or n.id in h.module.assigns or n.id in h.module.classes:
                    continue  # rewritten to alias.name by the inliner
                if n.id in h.module.imports and into.imports.get(n.id) == h.module.imports[n.id]:
                    continue
                return False
        h._foreign_alias = alias
        return True

    def resolve(call, caller):
        fn = call.func
        h = None
        if caller is None or not hasattr(caller, "module"):
            # class-level / module-level expression: only plain function names of that module
            mod = caller
            if isinstance(fn, ast.Name) and mod is not None:
                h = mod.funcs.get(fn.id)
            return h if is_unknown_helper(h) else None
        if isinstance(fn, ast.Attribute) and isinstance(fn.value, ast.Name) and caller.cls is not None and (
                caller.params and fn.value.id == caller.params[0] or fn.value.id == caller.cls.name):
            for c in program.mro(caller.cls):
                if fn.attr in c.methods:
                    h = c.methods[fn.attr]
                    break
        elif isinstance(fn, ast.Attribute) and isinstance(fn.value, ast.Name) and fn.value.id in caller.module.imports \
                and caller.module.imports[fn.value.id][0] in ("module", "name"):
            # a helper of another module of the package, called through the module (tools.quote(v))
            imp = caller.module.imports[fn.value.id]
            mn = (imp[1] if imp[0] == "module" else imp[1] + "." + imp[2]).split(".")[-1]
            om = program.modules.get(mn)
            if om is not None and om is not caller.module and fn.attr in om.funcs:
                h = om.funcs[fn.attr]
                if is_unknown_helper(h) and portable(h, caller.module, fn.value.id):
                    return h
                return None
        elif isinstance(fn, ast.Name):
            nested = local_def(caller, fn.id)
            if nested is not None:
                return nested
            h = caller.module.funcs.get(fn.id)
        return h if is_unknown_helper(h) else None

    # module-level constants the rule set does not know (literals moved out of the code) are put back where they are read
    stats["constant_reads_inlined"] = 0
    for m in program.modules.values():
        kn = set(known.get(m.name, {}).get("<assigned>", []))
        try:
            stats["constant_reads_inlined"] += inline.inline_constants(m, kn)
            stats["constant_reads_inlined"] += inline.inline_class_constants(m, known.get(m.name, {}).get("<class-assigned>", {}))
        except Exception as e:
            skipped.append("constants %s: %s" % (m.name, type(e).__name__))
            continue
        # class-level bindings may have been rewritten: refresh the model's views of them
        for c in m.classes.values():
            for st in c.node.body:
                if isinstance(st, ast.Assign):
                    for t in st.targets:
                        if isinstance(t, ast.Name):
                            c.attrs[t.id] = st.value
                elif isinstance(st, ast.AnnAssign) and isinstance(st.target, ast.Name) and st.value is not None:
                    c.attrs[st.target.id] = st.value
        for st in m.tree.body:
            if isinstance(st, ast.Assign):
                for t in st.targets:
                    if isinstance(t, ast.Name):
                        m.assigns[t.id] = st.value

    stats["dispatch_tables_expanded"] = 0
    for m in program.modules.values():
        for f in list(m.funcs.values()) + [f for c in m.classes.values() for f in c.methods.values()]:
            try:
                stats["dispatch_tables_expanded"] += inline.devirtualise(f.node)
            except Exception as e:
                skipped.append("dispatch %s: %s" % (f.qualname, type(e).__name__))
                continue
    try:
        stats["dispatch_tables_expanded"] += devirtualise_shared_tables(program)
    except Exception as e:
        skipped.append("shared tables: %s" % type(e).__name__)
    stats["walrus_hoisted"] = 0
    for m in program.modules.values():
        for f in list(m.funcs.values()) + [f for c in m.classes.values() for f in c.methods.values()]:
            try:
                stats["walrus_hoisted"] += inline.hoist_walrus(f.node)
            except Exception as e:
                skipped.append("walrus %s: %s" % (f.qualname, type(e).__name__))
                continue

    stats["named_groups_numbered"] = 0
    for m in program.modules.values():
        try:
            stats["named_groups_numbered"] += inline.numbered_groups(m)
        except Exception as e:
            skipped.append("groups %s: %s" % (m.name, type(e).__name__))
    stats["logging_calls_dropped"] = 0
    for m in program.modules.values():
        loggers = set()
        for st in m.tree.body:
            if isinstance(st, ast.Assign) and len(st.targets) == 1 and isinstance(st.targets[0], ast.Name) and isinstance(st.value, ast.Call) \
                    and isinstance(st.value.func, ast.Attribute) and st.value.func.attr == "getLogger" and isinstance(st.value.func.value, ast.Name) \
                    and st.value.func.value.id == "logging":
                loggers.add(st.targets[0].id)
        if not loggers:
            continue
        for f in list(m.funcs.values()) + [f for c in m.classes.values() for f in c.methods.values()]:
            try:
                stats["logging_calls_dropped"] += inline.drop_logging(f.node, loggers)
            except Exception as e:
                skipped.append("logging %s: %s" % (f.qualname, type(e).__name__))
    stats["annotations_stripped"] = 0
    for m in program.modules.values():
        for f in list(m.funcs.values()) + [f for c in m.classes.values() for f in c.methods.values()]:
            try:
                stats["annotations_stripped"] += inline.strip_annotations(f.node)
            except Exception as e:
                skipped.append("annotations %s: %s" % (f.qualname, type(e).__name__))
    stats["assignments_simplified"] = 0
    for m in program.modules.values():
        for f in list(m.funcs.values()) + [f for c in m.classes.values() for f in c.methods.values()]:
            try:
                stats["assignments_simplified"] += inline.simplify_assignments(f.node)
            except Exception as e:
                skipped.append("assignments %s: %s" % (f.qualname, type(e).__name__))
                continue
    stats["joins_threaded"] = 0
    for m in program.modules.values():
        for f in list(m.funcs.values()) + [f for c in m.classes.values() for f in c.methods.values()]:
            try:
                stats["joins_threaded"] += inline.thread_joins(f.node)
            except Exception as e:
                skipped.append("joins %s: %s" % (f.qualname, type(e).__name__))
    stats["conditionals_lifted"] = 0
    for m in program.modules.values():
        for f in list(m.funcs.values()) + [f for c in m.classes.values() for f in c.methods.values()]:
            try:
                stats["conditionals_lifted"] += inline.lift_conditionals(f.node)
            except Exception as e:
                skipped.append("conditionals %s: %s" % (f.qualname, type(e).__name__))
                continue
    stats["tables_unrolled"] = 0
    unrolled = []
    for m in program.modules.values():
        for f in list(m.funcs.values()) + [f for c in m.classes.values() for f in c.methods.values()]:
            try:
                k = inline.unroll_tables(f.node)
            except Exception as e:
                skipped.append("tables %s: %s" % (f.qualname, type(e).__name__))
                continue
            if k:
                stats["tables_unrolled"] += k
                unrolled.append(f)

    inl = inline.Inliner(resolve)
    touched = list(unrolled)
    for m in program.modules.values():
        funcs = list(m.funcs.values()) + [f for c in m.classes.values() for f in c.methods.values()]
        for f in funcs:
            before = inl.count
            inl.run(f)
            # callbacks handed to helpers: call them where the helper called them, then look at what that brought in
            for _ in range(2):
                if inl.count == before:
                    break
                try:
                    nb_ = inline._beta(f.node) + inline.unroll_tables(f.node)
                except Exception as e:
                    skipped.append("callbacks %s: %s" % (f.qualname, type(e).__name__))
                    break
                if not nb_:
                    break
                stats["tables_unrolled"] += nb_
                inl.run(f)
            if inl.count != before:
                if f not in touched:
                    touched.append(f)
                # named local steps that were copied to their call sites
                for st in list(f.node.body):
                    if isinstance(st, ast.FunctionDef) and (id(f.node), st.name) in nested_cache and nested_cache[(id(f.node), st.name)] is not None:
                        if not any(isinstance(n, ast.Name) and n.id == st.name for n in ast.walk(f.node) if not inline._inside(n, st)):
                            f.node.body.remove(st)
    for m in program.modules.values():
        for c in m.classes.values():
            for st in c.node.body:
                if isinstance(st, (ast.Assign, ast.AnnAssign)) and st.value is not None:
                    new = inl.expressions_in(st.value, None, m)
                    if new is not st.value:
                        st.value = new
                    inline.relink(st, c.node)
                    for t in (st.targets if isinstance(st, ast.Assign) else [st.target]):
                        if isinstance(t, ast.Name):
                            c.attrs[t.id] = st.value
        for st in m.tree.body:
            if isinstance(st, (ast.Assign, ast.AnnAssign)) and st.value is not None:
                new = inl.expressions_in(st.value, None, m)
                if new is not st.value:
                    st.value = new
                inline.relink(st, m.tree)
                for t in (st.targets if isinstance(st, ast.Assign) else [st.target]):
                    if isinstance(t, ast.Name):
                        m.assigns[t.id] = st.value
    stats["inlined_call_sites"] = inl.count
    stats["helpers"] = dict(inl.inlined)
    # what the copied bodies brought in is put into the same shapes as the rest
    for f in touched:
        try:
            stats["annotations_stripped"] += inline.strip_annotations(f.node)
            stats["declared_type_tests_decided"] = stats.get("declared_type_tests_decided", 0) + inline.fold_declared_types(
                f.node, _contradicted_declarations(program, f))
            if any(isinstance(n_, ast.If) and isinstance(n_.test, ast.Constant) and isinstance(n_.test.value, bool) for n_ in ast.walk(f.node)):
                inline.prune_decided(f.node)  # `if False:` left by a constant argument of an inlined helper
            stats["assignments_simplified"] += inline.simplify_assignments(f.node)
            stats["conditionals_lifted"] += inline.lift_conditionals(f.node)
            stats["joins_threaded"] += inline.thread_joins(f.node)
        except Exception as e:
            skipped.append("post-inline %s: %s" % (f.qualname, type(e).__name__))
    for f in touched:
        inline.relink(f.node, getattr(f.node, "_parent", None))
        inline.renumber(f.node)
    # helpers whose every call site was inlined are no longer separate units of analysis
    if inl.inlined:
        for m in program.modules.values():
            remaining = set()
            for n in ast.walk(m.tree):
                if isinstance(n, ast.Attribute):
                    remaining.add(n.attr)
                elif isinstance(n, ast.Name):
                    remaining.add(n.id)
            for scope in [m] + list(m.classes.values()):
                table = scope.funcs if scope is m else scope.methods
                for nm in list(table):
                    h = table[nm]
                    if h.qualname in inl.inlined and is_unknown_helper(h) and nm.startswith("_"):
                        # still referenced somewhere outside its own definition?
                        refs = 0
                        for n in ast.walk(m.tree):
                            if (isinstance(n, ast.Attribute) and n.attr == nm) or (isinstance(n, ast.Name) and n.id == nm):
                                p = n
                                inside = False
                                while p is not None:
                                    if p is h.node:
                                        inside = True
                                        break
                                    p = getattr(p, "_parent", None)
                                if not inside:
                                    refs += 1
                        if refs == 0:
                            del table[nm]
                            body = scope.tree.body if scope is m else scope.node.body
                            if h.node in body:
                                body.remove(h.node)
    program._allfuncs = None
    stats["constants_folded"] = 0
    for f in program.all_funcs():
        try:
            stats["constants_folded"] += inline.fold_constants(f.node)
        except Exception as e:
            skipped.append("folding %s: %s" % (f.qualname, type(e).__name__))
    for f in program.all_funcs():
        try:
            k_ = inline.propagate_paths(f)
            stats["propagated_uses"] += k_
            if k_:
                # what the propagation uncovered (`pos += n` with n = E - pos) is put into the plain form as well
                stats["assignments_simplified"] += inline.simplify_assignments(f.node)
        except Exception as e:
            skipped.append("paths %s: %s" % (f.qualname, type(e).__name__))
            continue
    for f in program.all_funcs():
        try:
            inline.order_lines(f.node)
        except Exception as e:
            skipped.append("lines %s: %s" % (f.qualname, type(e).__name__))
    stats["setter_calls_restored"] = setters
    stats["passes_skipped_on_error"] = skipped
    program.normalised = stats
    return stats
