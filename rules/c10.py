"""C10 - No script command before authentication; no credentials before TLS.

Decided (DESIGN 4/C10): A1 guarded reachability of every script verb, A2 guard
semantics, A3 writes of the authenticated flag (+ reset on reconnect),
A4 connect ordering, A5 STARTTLS success path, A6 post-TLS capability and
buffer reset, A7 credential sends only below the authenticator.
"""
import ast

from sa import fd
from sa.model import AnalysisError, walk_no_nested, norm, mangle, call_name, is_self_call
from sa.util import (contains, fact_call, module_resolver, ClassGraph, fact_atom, decorator_names, self_calls, attr_calls, eq_const_fact, raise_name,
                     const_value, bound_arg, attr_writes, single_def_value)
from sa.consteval import TOP
from .roles import ClientRoles

PREAUTH = {"AUTHENTICATE", "STARTTLS", "CAPABILITY", "LOGOUT", "NOOP", "UNAUTHENTICATE"}
SCRIPT = {"HAVESPACE", "LISTSCRIPTS", "GETSCRIPT", "PUTSCRIPT", "CHECKSCRIPT", "DELETESCRIPT", "RENAMESCRIPT",
          "SETACTIVE"}


def sender_sites(ctx, R):
    """[(method Func, call node, verb or None)] for every call of the sender."""
    out = []
    for name, f in R.methods.items():
        for c in self_calls(f, R.sender.name):
            a = bound_arg(c, R.sender, R.sender.params[1]) if len(R.sender.params) > 1 else None
            verb = None
            if a is not None:
                v = const_value(ctx.program, f, a)
                if isinstance(v, str):
                    verb = v
                elif isinstance(v, bytes):
                    verb = v.decode("latin-1")
            out.append((f, c, verb))
    return out


def guarded_methods(R):
    if R.guard is None:
        return set()
    return {n for n, f in R.methods.items() if R.guard.name in decorator_names(f)}


def authenticator(R, rule):
    """The method that dispatches to the mechanism functions."""
    for n, f in R.methods.items():
        for c in walk_no_nested(f.node):
            if isinstance(c, ast.Call) and isinstance(c.func, ast.Name) and c.func.id == "getattr" and len(c.args) >= 2 \
                    and "authentication" in norm(c.args[1]):
                return f
    # direct dispatch (if/elif on the mechanism name)
    for n, f in R.methods.items():
        mechs = [m for m in R.graph.edges[n] if m.endswith("_authentication")]
        if len(mechs) >= 2:
            return f
    raise AnalysisError(rule, "cannot identify the authenticator (mechanism dispatcher) in Client")


def selection_feeders(R, auth):
    """Methods whose result a caller of the authenticator hands to it (`m = self.usable(authmech); self.auth(l, p, a, m)`): part of the
    mechanism selection although outside the dispatcher.  -> [(caller Func, helper Func, helper call, position in the auth call)]"""
    out = []
    for n, f in R.methods.items():
        if f is auth:
            continue
        for c in self_calls(f, auth.name):
            for i, a in enumerate(list(c.args) + [k.value for k in c.keywords]):
                v = a
                if isinstance(a, ast.Name) and a.id not in f.params:
                    v = single_def_value(f, a.id)
                if isinstance(v, ast.Call) and isinstance(v.func, ast.Attribute) and isinstance(v.func.value, ast.Name) \
                        and v.func.value.id == "self":
                    h = R.methods.get(v.func.attr) or R.methods.get(mangle(R.cls.name, v.func.attr))
                    if h is not None:
                        out.append((f, h, v, i))
    return out


def selection_slice(R, auth):
    """The caller computes the authenticator's candidates in line (`wanted = ...; ms = [m for m in wanted if ...]; return
    self.auth(l, p, a, ms)`): the backward slice of that argument over the caller's top-level statements.
    -> (caller Func, [stmts], local name, position in the auth call, auth call) or None"""
    for n, f in R.methods.items():
        if f is auth:
            continue
        for c in self_calls(f, auth.name):
            st = c
            while getattr(st, "_parent", None) is not None and st._parent is not f.node:
                st = st._parent
            if st not in f.node.body:
                continue
            for i, a in enumerate(c.args):
                if not (isinstance(a, ast.Name) and a.id not in f.params):
                    continue
                need, out = {a.id}, []
                for prev in reversed(f.node.body[:f.node.body.index(st)]):
                    stores = {x.id for x in ast.walk(prev) if isinstance(x, ast.Name) and isinstance(x.ctx, ast.Store)}
                    if stores & need:
                        out.append(prev)
                        need |= {x.id for x in ast.walk(prev) if isinstance(x, ast.Name) and isinstance(x.ctx, ast.Load)}
                if out:
                    return f, list(reversed(out)), a.id, i, c
    return None


def selection_timing(R, auth, tls, cap_attr):
    """(the selection reads the live capability map, [(function, what, node)] where it does so BEFORE the TLS upgrade of its caller)"""
    G = R.graph
    early = []
    reads_live = any(isinstance(x, ast.Attribute) and x.attr == cap_attr for x in ast.walk(auth.node)) or any(
        any(isinstance(x, ast.Attribute) and x.attr == cap_attr for x in ast.walk(R.methods[m].node))
        for m in G.edges[auth.name] if m in R.methods)
    sl_ = selection_slice(R, auth)
    if sl_ is not None:
        reads = [x for st_ in sl_[1] for x in ast.walk(st_) if (isinstance(x, ast.Attribute) and x.attr == cap_attr) or (
            isinstance(x, ast.Call) and is_self_call(x) and x.func.attr in R.methods and any(
                isinstance(y, ast.Attribute) and y.attr == cap_attr for y in ast.walk(R.methods[x.func.attr].node)))]
        tcalls = self_calls(sl_[0], tls.name)
        if reads and all((t.lineno, t.col_offset) < (x.lineno, x.col_offset) for t in tcalls for x in reads):
            reads_live = True
        elif reads:
            early.append((sl_[0], sl_[0].qualname, reads[0]))
    for caller_, h_, hc_, _i in selection_feeders(R, auth):
        # a helper computing the candidates for the authenticator: it reads the map, and does so after the upgrade
        if any(isinstance(x, ast.Attribute) and x.attr == cap_attr for x in ast.walk(h_.node)) or any(
                any(isinstance(x, ast.Attribute) and x.attr == cap_attr for x in ast.walk(R.methods[m].node))
                for m in G.edges[h_.name] if m in R.methods):
            tcalls = self_calls(caller_, tls.name)
            if all((t.lineno, t.col_offset) < (hc_.lineno, hc_.col_offset) for t in tcalls):
                reads_live = True
            else:
                early.append((caller_, h_.qualname, hc_))
    return reads_live, early


def mechanisms(R):
    return sorted(n for n in R.methods if n.startswith("_") and n.endswith("_authentication") and not n.startswith("__"))


def tls_method(R, rule):
    for n, f in R.methods.items():
        if attr_calls(f.node, "wrap_socket"):
            return f
    raise AnalysisError(rule, "cannot identify the TLS upgrade method (caller of wrap_socket)")


def connect_method(R, rule):
    for n, f in R.methods.items():
        if attr_calls(f.node, "create_connection"):
            return f
    raise AnalysisError(rule, "cannot identify connect (caller of socket.create_connection)")


def run(ctx):
    R = ClientRoles(ctx, "A")
    ctx.explanation = (
        "Static call-graph and dominance facts over sievelib/managesieve.py: (A1) every call site of the command "
        "sender whose verb is a script-management verb is reachable from externally callable Client methods only "
        "through a method wrapped by the authentication guard; (A2) the guard calls the wrapped method only on the "
        "true edge of its test of `.authenticated` and raises on the other; (A3) `authenticated` becomes truthy only "
        "in the authenticator on the success edge of the selected mechanism, each mechanism returns True only when "
        "the final reply code is OK, and connect() resets the flag before the new socket is used; (A4) in connect "
        "the authenticator is reached only with starttls false or a successful TLS upgrade; (A5) the TLS upgrade "
        "returns True only after wrap_socket succeeded and the socket was replaced; (A6) after the upgrade the "
        "capabilities are cleared and re-read and the plaintext read buffer is discarded; (A7) credential-bearing "
        "sends are reachable only through the authenticator; (A8) connect() empties the capability table and the read buffer "
        "before the new connection is first read. These hold for every call history and server "
        "behaviour because they hold on every path of the code.")
    ctx.not_decided = "the behaviour of a real server and of the ssl module; histories are covered only through the flag/ordering facts."
    ctx.assumptions = ["Python name mangling keeps __private methods unreachable from outside the class",
                       "the decorator is applied with @ syntax (other wrappers are not recognised and count as unguarded)"]
    session_rules(ctx, R)
    # "unless an AUTHENTICATE exchange ... ended with OK": what the server answered is what the readers make of the bytes (M1-M7 of C05)
    from .c05 import reader_rules
    reader_rules(ctx, R)


def session_rules(ctx, R):
    """A1-A9 (shared with C16: the mechanism is chosen from what THIS server announced AFTER the handshake, credentials only then)."""
    G = R.graph
    guarded = guarded_methods(R)

    # ---- A2 guard semantics --------------------------------------------------
    ctx.rule("A2", "guard decorator: wrapped call dominated by the true edge of the `.authenticated` test; other edge raises")
    if R.guard is None:
        raise AnalysisError("A2", "no guard decorator (function wrapping a method and testing .authenticated) found")
    inner = [n for n in R.guard.node.body if isinstance(n, ast.FunctionDef)]
    wrapped_param = R.guard.params[0] if R.guard.params else None
    if not inner or wrapped_param is None:
        raise AnalysisError("A2", "guard decorator has no inner wrapper")
    from sa.cfg import CFG
    ok_any = False
    for fn in inner:
        cfg = CFG(fn, ctx.program)
        calls = [c for c in walk_no_nested(fn) if isinstance(c, ast.Call) and isinstance(c.func, ast.Name)
                 and c.func.id == wrapped_param]
        if not calls:
            continue

        def is_auth_true(fact):
            e, pol = fact_atom(fact)
            return pol is True and isinstance(e, ast.Attribute) and e.attr == "authenticated"

        # re-entrancy marker: an attribute of the client that the wrapper sets (to something else than None) only past the
        # authenticated test and sets back to None in a `finally` around the wrapped call.  "Marker set" then means "an enclosing
        # guarded operation passed the test and is still running", which is as good as the test itself.
        markers = set()
        selfp = fn.args.args[0].arg if fn.args.args else None
        for a in walk_no_nested(fn):
            if isinstance(a, ast.Assign) and len(a.targets) == 1 and isinstance(a.targets[0], ast.Attribute) and isinstance(a.targets[0].value, ast.Name) \
                    and a.targets[0].value.id == selfp and not (isinstance(a.value, ast.Constant) and a.value.value is None):
                attr = a.targets[0].attr
                set_ok = all(cfg.guarded(x, is_auth_true) for x in cfg.nodes_for(a))
                # cleared in the finally of a try that contains every wrapped call
                cleared = any(isinstance(tr_, ast.Try) and all(any(contains(b_, c_) for b_ in tr_.body) for c_ in calls) and any(
                    isinstance(x, ast.Assign) and any(isinstance(t_, ast.Attribute) and t_.attr == attr for t_ in x.targets)
                    and isinstance(x.value, ast.Constant) and x.value.value is None for x in ast.walk(ast.Module(body=tr_.finalbody, type_ignores=[])))
                    for tr_ in walk_no_nested(fn))
                # nobody else writes it, except to None
                foreign = [w for f_ in ctx.program.all_funcs() if f_.node is not R.guard.node and not contains(R.guard.node, f_.node)
                           for w in walk_no_nested(f_.node)
                           if isinstance(w, ast.Attribute) and w.attr == attr and isinstance(w.ctx, ast.Store)
                           and not (isinstance(getattr(w, "_parent", None), (ast.Assign, ast.AnnAssign)) and isinstance(w._parent.value, ast.Constant)
                                    and w._parent.value.value is None)]
                if set_ok and cleared and not foreign:
                    markers.add(attr)
                elif set_ok and not cleared:
                    ctx.violation("A2", R.guard.qualname, "marker-not-cleared:%s" % attr, "the guard skips the authenticated test while .%s is set, "
                                  "and does not clear it in a finally clause: an operation that raises leaves it set, and every later "
                                  "operation runs unchecked" % attr, node=a, file=R.guard.file,
                                  witness="getscript raises (timeout); connect() with bad credentials; listscripts() is sent unauthenticated")

        def marker_set(fact):
            from sa.util import presence_fact
            e, pol = presence_fact(fact)
            if isinstance(e, ast.Attribute) and e.attr in markers and pol is True:
                return True
            # through a local flag: outermost = client.marker is None
            if isinstance(e, ast.Name):
                for d in walk_no_nested(fn):
                    if isinstance(d, ast.Assign) and any(isinstance(t_, ast.Name) and t_.id == e.id for t_ in d.targets) \
                            and isinstance(d.value, ast.Compare) and len(d.value.ops) == 1 and isinstance(d.value.left, ast.Attribute) \
                            and d.value.left.attr in markers and isinstance(d.value.comparators[0], ast.Constant) and d.value.comparators[0].value is None:
                        is_none = isinstance(d.value.ops[0], (ast.Is, ast.Eq))
                        return (pol is False) if is_none else (pol is True)
            return False

        def is_auth_true_or_nested(fact):
            return is_auth_true(fact) or marker_set(fact)

        for c in calls:
            nodes = cfg.node_containing(c)
            if not nodes:
                raise AnalysisError("A2", "cannot locate the wrapped call in the CFG")
            for n in nodes:
                if cfg.guarded(n, is_auth_true_or_nested):
                    ok_any = True
                    ctx.holds("A2", "%s: %s" % (R.guard.qualname, norm(c)), "guarded by .authenticated")
                else:
                    ctx.violation("A2", R.guard.qualname, "unguarded-wrapped-call",
                                  "the guard calls the wrapped method on a path that did not test .authenticated",
                                  node=c, file=R.guard.file,
                                  witness="any decorated operation called before connect() writes its command")
        # the non-authenticated edge must not return normally
        tf = cfg.facts(is_auth_true_or_nested)
        if tf and not cfg.dominates(tf, cfg.exit):
            ctx.violation("A2", R.guard.qualname, "unauthenticated-edge-returns",
                          "the wrapper can return normally without the authenticated test being true",
                          node=fn, file=R.guard.file)
        else:
            ctx.holds("A2", "%s: unauthenticated edge raises" % R.guard.qualname)
        # what it raises
        rs = [raise_name(r) for r in walk_no_nested(fn) if isinstance(r, ast.Raise)]
        if not rs:
            ctx.violation("A2", R.guard.qualname, "no-raise", "the wrapper never raises", node=fn, file=R.guard.file)
    if not ok_any and not any(f.rule == "A2" for f in ctx.findings):
        raise AnalysisError("A2", "guard wrapper shape not recognised")

    # ---- A1 guarded reachability --------------------------------------------
    ctx.rule("A1", "every sender call site with a script verb is reachable from public methods only through a guarded method")
    sites = sender_sites(ctx, R)
    ctx.need("A1", "command-sender call sites", len(sites), 10)
    entry = [n for n in R.methods if not (n.startswith("__") and not n.endswith("__"))]
    unguarded_reach = G.reach_from([n for n in entry if n not in guarded], blocked=guarded)
    auth = authenticator(R, "A1")
    mech = mechanisms(R)
    below_auth = G.reach_from([auth.name]) - {auth.name}
    nscript = 0
    for f, c, verb in sites:
        label = "%s: %s" % (f.qualname, verb if verb else norm(c)[:60])
        if verb in PREAUTH:
            ctx.holds("A1", label, "pre-authentication verb")
            continue
        if verb not in SCRIPT:
            # non-constant or unknown verb: accepted only as a SASL continuation line inside a mechanism function
            if f.name in mech and any(v == "AUTHENTICATE" for (g, _, v) in sites if g is f):
                ctx.holds("A1", label, "SASL continuation inside mechanism function")
                continue
        else:
            nscript += 1
        if f.name in guarded:
            ctx.holds("A1", label, "method is wrapped by the guard")
        elif f.name not in unguarded_reach:
            ctx.holds("A1", label, "only reachable through guarded methods")
        else:
            # a path: entry -> ... -> f avoiding guarded methods
            ctx.violation("A1", f, "unguarded:%s" % (verb or "dynamic-verb"),
                          "command %s can be sent by %s without passing the authentication guard" % (
                              verb or norm(c)[:40], f.qualname),
                          node=c, witness="call %s() on a fresh, unauthenticated Client: the command is written to the socket"
                                          % f.name)
    ctx.need("A1", "script-verb sender sites", nscript, 6)
    # direct socket writes outside the sender bypass the verb analysis
    for name, cs in R.send_sites.items():
        if name != R.sender.name:
            for c in cs:
                ctx.violation("A1", R.methods[name], "direct-send", "socket write outside the command sender",
                              node=c)
    for f, c in R.foreign_send:
        ctx.violation("A1", f, "direct-send", "socket write outside the Client command sender", node=c)

    conn = a3(ctx, R)
    a8(ctx, R)
    a9(ctx, R)

    # ---- A4 connect ordering --------------------------------------------------
    ctx.rule("A4", "connect: the authenticator is reached only with starttls false or after the TLS upgrade returned True")
    tls = tls_method(R, "A4")
    params = conn.params[1:]
    tls_param = None
    for p in params:
        if "tls" in p.lower():
            tls_param = p
    if tls_param is None:
        raise AnalysisError("A4", "connect() has no starttls parameter")
    npaths = 0
    bad = None
    reaches_auth = G.reaches(auth.name)
    reaches_tls = G.reaches(tls.name)

    def oracle(interp, e, name, recv, args, kw, st):
        if name and name.startswith("self."):
            m = name[5:]
            if m == tls.name:
                return [(fd.Const(True), ("tls", True)), (fd.Const(False), ("tls", False)), fd.Exc("Error", e)]
            if m == auth.name:
                return [(fd.Const(True), ("auth", True)), (fd.Const(False), ("auth", False))]
            if m in R.methods and (m in reaches_auth or m in reaches_tls):
                return fd.Inline(R.methods[m])
            if m in R.methods:
                return [(fd.Const(True), None), (fd.Const(False), None)]
        return None

    for sv in (True, False):
        it = fd.Interp(conn.node, R.cls.name, oracle, resolve=module_resolver(ctx.program, R.module))
        for p in it.run({tls_param: fd.Const(sv)}):
            npaths += 1
            ev = [x for x in p.events if x[0] in ("tls", "auth")]
            for i, x in enumerate(ev):
                if x[0] == "auth" and sv:
                    before = [y for y in ev[:i] if y[0] == "tls"]
                    if not before or before[-1][1] is not True:
                        bad = (sv, ev)
            if sv and p.kind == "return" and fd.truth(p.value) is True and ("auth", True) not in ev:
                bad = bad or (sv, ev)
    if npaths < 4:
        raise AnalysisError("A4", "connect(): too few paths enumerated (%d)" % npaths)
    if bad:
        ctx.violation("A4", conn, "auth-before-tls",
                      "with starttls=%s the authenticator is reached by the event sequence %s" % (bad[0], bad[1]),
                      node=conn.node,
                      witness="server refuses STARTTLS (NO) or lacks it; connect(starttls=True) still sends AUTHENTICATE with the credentials in clear")
    else:
        ctx.holds("A4", "%s: %d paths, authenticator only after a successful TLS upgrade when starttls is set"
                  % (conn.qualname, npaths))

    # ---- A5 TLS upgrade --------------------------------------------------------
    ctx.rule("A5", "TLS upgrade: True only after wrap_socket and socket replacement; non-OK reply returns False before wrapping; "
                   "missing capability raises; SSLError becomes Error")
    cfgt = ctx.cfg(tls)
    wraps = attr_calls(tls.node, "wrap_socket")
    wrap_nodes = [n for c in wraps for n in cfgt.node_containing(c)]
    sock_stores = []
    for n in walk_no_nested(tls.node):
        if isinstance(n, ast.Assign):
            for t in n.targets:
                if isinstance(t, ast.Attribute) and t.attr == R.sock_attr:
                    sock_stores.extend(cfgt.nodes_for(n))
    true_returns = []
    for r in walk_no_nested(tls.node):
        if isinstance(r, ast.Return) and r.value is not None:
            v = const_value(ctx.program, tls, r.value)
            if v is TOP or v:
                true_returns.extend(cfgt.nodes_for(r))
    if not wrap_nodes or not true_returns:
        raise AnalysisError("A5", "TLS upgrade method shape not recognised")
    # "already secured": an attribute set True only past the handshake of THIS method and reset by connect() before the new
    # connection is used tells that this connection went through the upgrade; reporting success again on that edge is sound
    secured_flags = set()
    selfp = tls.params[0]
    for a in walk_no_nested(tls.node):
        if isinstance(a, ast.Assign) and len(a.targets) == 1 and isinstance(a.targets[0], ast.Attribute) and isinstance(a.targets[0].value, ast.Name) \
                and a.targets[0].value.id == selfp and const_value(ctx.program, tls, a.value) is True:
            attr = a.targets[0].attr
            after_wrap = all(cfgt.dominates(wrap_nodes, x, exc=False) for x in cfgt.nodes_for(a))
            others = [f_ for f_ in R.methods.values() if f_ is not tls for w in walk_no_nested(f_.node) if isinstance(w, ast.Assign) and any(
                isinstance(t_, ast.Attribute) and t_.attr == attr for t_ in w.targets) and const_value(ctx.program, f_, w.value) is not False]
            conn_ = connect_method(R, "A5")
            cfgc_ = ctx.cfg(conn_)
            resets = [x for w in walk_no_nested(conn_.node) if isinstance(w, ast.Assign) and any(
                isinstance(t_, ast.Attribute) and t_.attr == attr for t_ in w.targets) and const_value(ctx.program, conn_, w.value) is False
                for x in cfgc_.nodes_for(w)]
            uses = [x for c_ in self_calls(conn_) if c_.func.attr in G.methods and (
                R.sender.name in G.reach_from([c_.func.attr]) or R.assembler.name in G.reach_from([c_.func.attr])) for x in cfgc_.node_containing(c_)]
            fresh = bool(resets) and bool(uses) and all(cfgc_.dominates(resets, u, exc=False) for u in uses)
            if after_wrap and not [o for o in others if o.name != "__init__"] and fresh:
                secured_flags.add(attr)
            elif after_wrap and not fresh and any(
                    isinstance(fact_atom(fc)[0], ast.Attribute) and fact_atom(fc)[0].attr == attr for fc in cfgt.facts()):
                ctx.violation("A5", tls, "secured-flag-stale:%s" % attr, "the TLS upgrade is skipped while .%s is set, and connect() does not reset "
                              "it for a new connection: the flag of a previous connection makes the upgrade report success on a plain socket"
                              % attr, node=a,
                              witness="connect(starttls=True); connection lost; connect(starttls=True): AUTHENTICATE PLAIN goes out in clear")

    def already_secured(fc):
        e, pol = fact_atom(fc)
        return isinstance(e, ast.Attribute) and e.attr in secured_flags and pol is True
    again = [tr for tr in true_returns if secured_flags and cfgt.guarded(tr, already_secured)]
    for tr in again:
        ctx.holds("A5", "%s: success reported again for a connection that already went through the upgrade (%s)" % (tls.qualname, sorted(secured_flags)))
    true_returns = [tr for tr in true_returns if tr not in again]
    for tr in true_returns:
        if cfgt.dominates(wrap_nodes, tr, exc=False) and sock_stores and cfgt.dominates(sock_stores, tr, exc=False):
            ctx.holds("A5", "%s: return True dominated by wrap_socket and socket replacement" % tls.qualname)
        else:
            ctx.violation("A5", tls, "true-without-wrap",
                          "the TLS upgrade can report success without having wrapped and replaced the socket",
                          node=tr.ast, witness="connect(starttls=True) proceeds to AUTHENTICATE on the plaintext socket")
    # the STARTTLS command's reply: wrap only on OK
    tls_sends = [c for c in self_calls(tls, R.sender.name)]
    if not tls_sends:
        raise AnalysisError("A5", "TLS upgrade sends no command")

    def ok_fact(fact):
        r = eq_const_fact(fact, lambda c: c in ("OK", b"OK"))
        return bool(r and r[2])

    for w in wrap_nodes:
        if cfgt.guarded(w, ok_fact):
            ctx.holds("A5", "%s: wrap_socket only after reply OK" % tls.qualname)
        else:
            ctx.violation("A5", tls, "wrap-without-OK", "wrap_socket is reachable although STARTTLS was not answered OK",
                          node=w.ast)
    # capability test raises
    first_send = [n for c in tls_sends for n in cfgt.node_containing(c)]

    def has_tls_fact(fact):
        e, pol = fact_atom(fact)
        t = norm(e)
        return pol is True and ("tls" in t.lower())

    if all(cfgt.guarded(n, has_tls_fact) for n in first_send):
        ctx.holds("A5", "%s: STARTTLS sent only when the server announced it" % tls.qualname)
    else:
        ctx.violation("A5", tls, "starttls-without-capability", "STARTTLS is sent without the capability test",
                      node=first_send[0].ast)
    # SSLError -> Error
    conv = False
    for h in ast.walk(tls.node):
        if isinstance(h, ast.ExceptHandler) and h.type is not None and "SSLError" in norm(h.type):
            if any(isinstance(x, ast.Raise) and raise_name(x) == "Error" for x in ast.walk(h)):
                conv = True
    if conv:
        ctx.holds("A5", "%s: ssl.SSLError converted to Error" % tls.qualname)
    else:
        ctx.violation("A5", tls, "sslerror-not-converted", "a failed handshake is not converted to Error", node=tls.node)

    # ---- A6 after the upgrade --------------------------------------------------
    ctx.rule("A6", "after wrap_socket and before success: capabilities cleared and re-read, plaintext read buffer discarded; "
                   "mechanism selection reads the live capability map")
    capreader, cap_attr = capability_reader(R, conn)
    if capreader is None:
        raise AnalysisError("A6", "capability reader not identified")
    clear_nodes, reread_nodes, bufreset_nodes = [], [], []
    for n in walk_no_nested(tls.node):
        if isinstance(n, ast.Assign):
            for t in n.targets:
                if isinstance(t, ast.Attribute) and t.attr == cap_attr:
                    v = const_value(ctx.program, tls, n.value)
                    if v is not TOP and not v:
                        clear_nodes.extend(cfgt.nodes_for(n))
                if isinstance(t, ast.Attribute) and mangle(R.cls.name, t.attr) == R.buffer_attr:
                    v = const_value(ctx.program, tls, n.value)
                    if v is not TOP and not v:
                        bufreset_nodes.extend(cfgt.nodes_for(n))
        if isinstance(n, ast.Call) and isinstance(n.func, ast.Attribute) and n.func.attr == "clear" \
                and isinstance(n.func.value, ast.Attribute) and n.func.value.attr == cap_attr:
            clear_nodes.extend(cfgt.node_containing(n))
    from .c05 import is_buffer_reset
    for n in walk_no_nested(tls.node):
        if isinstance(n, (ast.Delete, ast.Expr, ast.Assign)) and is_buffer_reset(ctx, R, tls, n):
            bufreset_nodes.extend(cfgt.nodes_for(n))
    for c in self_calls(tls, capreader.name):
        reread_nodes.extend(cfgt.node_containing(c))
    # a reader that REPLACES the table by a dictionary it built from the listing alone leaves nothing of the old one: the re-read is
    # the clearing (a reader that stores item by item, or merges with update(), adds to what is there)
    selfp_ = capreader.params[0]
    replaces = any(isinstance(a, ast.Assign) and any(isinstance(t, ast.Attribute) and t.attr == cap_attr and isinstance(t.value, ast.Name)
                                                      and t.value.id == selfp_ for t in a.targets) for a in walk_no_nested(capreader.node)) \
        and not any(isinstance(x, ast.Subscript) and isinstance(x.ctx, ast.Store) and isinstance(x.value, ast.Attribute) and x.value.attr == cap_attr
                    for x in ast.walk(capreader.node)) \
        and not any(isinstance(c_, ast.Call) and isinstance(c_.func, ast.Attribute) and c_.func.attr in ("update", "setdefault")
                    and isinstance(c_.func.value, ast.Attribute) and c_.func.value.attr == cap_attr for c_ in ast.walk(capreader.node))
    if replaces:
        clear_nodes.extend(reread_nodes)
    for tr in true_returns:
        def after_wrap(nodes):
            return [x for x in nodes if any(cfgt.path_exists(w, x, exc=False) for w in wrap_nodes)]
        for what, nodes, key, wit in (
                ("capabilities cleared", clear_nodes, "caps-not-cleared",
                 "pre-TLS capabilities (possibly injected by a man in the middle) survive the handshake"),
                ("capabilities re-read", reread_nodes, "caps-not-reread",
                 "the SASL mechanism is chosen from the capabilities announced before the handshake"),
                ("read buffer discarded", bufreset_nodes, "buffer-not-discarded",
                 "plaintext bytes received before the handshake (e.g. `OK\\r\\n\"SASL\" \"PLAIN\"\\r\\nOK\\r\\n` in one "
                 "segment) are parsed as the post-TLS capability list")):
            aw = after_wrap(nodes)
            if aw and cfgt.dominates(aw, tr, exc=False):
                ctx.holds("A6", "%s: %s after the handshake" % (tls.qualname, what))
            else:
                ctx.violation("A6", tls, key, "after the TLS handshake the %s obligation is not met on every path to success"
                              % what, node=tr.ast, witness=wit)
    # nothing but the re-read fills the map after the handshake, and a failed re-read is not passed over
    for n in walk_no_nested(tls.node):
        if isinstance(n, ast.Assign) and any(isinstance(t, ast.Attribute) and t.attr == cap_attr for t in n.targets):
            v = const_value(ctx.program, tls, n.value)
            if (v is TOP or v) and any(cfgt.path_exists(w, x, exc=True) for w in wrap_nodes for x in cfgt.nodes_for(n)):
                ctx.violation("A6", tls, "caps-restored:%s" % norm(n.value)[:30], "after the TLS handshake the capability map is set to %s: "
                              "what the server announced before the handshake is used afterwards" % norm(n.value)[:40], node=n,
                              witness="the SASL mechanism is chosen from the capabilities announced before the handshake")
    for c in self_calls(tls, capreader.name):
        p_ = getattr(c, "_parent", None)
        while p_ is not None and p_ is not tls.node:
            if isinstance(p_, ast.Try) and any(contains(b_, c) for b_ in p_.body):
                for h_ in p_.handlers:
                    last = h_.body[-1] if h_.body else None
                    leaves = isinstance(last, ast.Raise) or (isinstance(last, ast.Return) and const_value(ctx.program, tls, last.value) in (False, None)
                                                               and last.value is not None)
                    if not leaves:
                        ctx.violation("A6", tls, "reread-failure-swallowed", "a failure of the capability re-read after the TLS handshake is "
                                      "caught and the upgrade goes on to report success", node=h_,
                                      witness="the session continues with an empty or pre-TLS capability map")
            p_ = getattr(p_, "_parent", None)
    # mechanism selection reads the live map
    reads_live, early = selection_timing(R, auth, tls, cap_attr)
    for fn_, what_, node_ in early:
        ctx.violation("A6", fn_, "selection-before-upgrade", "%s computes the usable mechanisms before the TLS upgrade" % what_,
                      node=node_, witness="the SASL mechanism is chosen from the capabilities announced before the handshake")
    try:
        from .c16 import selection_twice
        twice = selection_twice(ctx, R, auth)
    except RecursionError:
        twice = None
    if twice:
        ctx.violation("A6", auth, "selection-reuses-pre-tls-choice", twice, node=auth.node,
                      witness="connect(starttls=True, debug=True) against a server whose SASL list differs before and after STARTTLS")
    if reads_live:
        ctx.holds("A6", "%s reads the capability map at selection time" % auth.qualname)
    else:
        ctx.violation("A6", auth, "selection-from-copy", "mechanism selection does not read the live capability map",
                      node=auth.node)

    # ---- A7 credential sends only through the authenticator ------------------
    ctx.rule("A7", "mechanism functions (credential-bearing sends) are called only from the authenticator")
    for mname in mech:
        callers = G.callers(mname) - {mname}
        extra = callers - {auth.name}
        if extra:
            for c in sorted(extra):
                ctx.violation("A7", R.methods[c], "mechanism-called-outside-authenticator:%s" % mname,
                              "%s is called from %s, bypassing connect's TLS ordering" % (mname, c),
                              node=R.methods[c].node)
        else:
            ctx.holds("A7", "%s called only from %s" % (mname, auth.name))
    callers = G.callers(auth.name) - {auth.name}
    if callers - {conn.name}:
        for c in sorted(callers - {conn.name}):
            ctx.violation("A7", R.methods[c], "authenticator-called-outside-connect",
                          "the authenticator is called from %s, bypassing connect's TLS ordering" % c,
                          node=R.methods[c].node)
    else:
        ctx.holds("A7", "%s called only from %s" % (auth.name, conn.name))
    ctx.extra["guarded_methods"] = sorted(guarded)
    ctx.extra["sender_sites"] = len(sites)


def a3(ctx, R):
    """A3 (shared with C16: `connect returns True iff the server accepted them`)."""
    auth = authenticator(R, "A3")
    mech = mechanisms(R)
    G = R.graph
    # ---- A3 writes of the flag ------------------------------------------------
    ctx.rule("A3", "authenticated is set truthy only in the authenticator under the mechanism's success; "
                   "mechanisms return True only on OK; connect resets the flag")
    writes = [w for w in attr_writes(ctx.program, "authenticated", modules=["managesieve"])]
    ctx.need("A3", "writes of .authenticated", len(writes), 2)
    for f, node, kind, text in writes:
        st = node._parent
        val = st.value if isinstance(st, (ast.Assign, ast.AnnAssign)) else None
        cv = const_value(ctx.program, f, val) if val is not None else TOP
        falsy = cv is not TOP and not cv
        if falsy:
            ctx.holds("A3", "%s: %s" % (f.qualname, norm(st)), "falsy store")
            continue
        if f.name != auth.name or f.cls is not R.cls:
            ctx.violation("A3", f, "truthy-store-outside-authenticator",
                          "`authenticated` may become true outside the authenticator: %s" % norm(st), node=node,
                          witness="script commands become possible without an AUTHENTICATE ... OK exchange")
            continue
        cfg = ctx.cfg(f)

        def mech_success(fact):
            e, pol = fact_call(fact)
            if pol is not True or not isinstance(e, ast.Call):
                return False
            fn = e.func
            if isinstance(fn, ast.Name):
                # local bound to the getattr dispatch
                for n in walk_no_nested(f.node):
                    if isinstance(n, ast.Assign) and any(isinstance(t, ast.Name) and t.id == fn.id for t in n.targets):
                        if isinstance(n.value, ast.Call) and call_name(n.value) == "getattr":
                            return True
                return False
            if isinstance(fn, ast.Attribute) and fn.attr in mech:
                return True
            return False

        nodes = cfg.nodes_for(st)
        if not nodes:
            raise AnalysisError("A3", "store not found in CFG")

        class _F:  # the stored value seen as a fact "this call was truthy"
            kind = "fact"
            pol = True
            info = None
        val_ = val
        if isinstance(val_, ast.Name) and val_.id not in f.params:
            # the verdict held in a local first: `ok = auth_method(...)` ... `self.authenticated = ok`
            dv_ = single_def_value(f, val_.id)
            if isinstance(dv_, ast.Call):
                val_ = dv_
            elif isinstance(dv_, ast.Call) is False and dv_ is not None and isinstance(dv_, ast.Compare) is False:
                pass
        while isinstance(val_, ast.Call) and isinstance(val_.func, ast.Name) and val_.func.id == "bool" and len(val_.args) == 1:
            val_ = val_.args[0]  # bool(x) says what `if x` would
        if isinstance(val_, ast.Call):
            _F.expr = val_
            if mech_success(_F):
                ctx.holds("A3", "%s: %s" % (f.qualname, norm(st)[:70]), "the flag takes the mechanism's own verdict")
                continue
        if all(cfg.guarded(n, mech_success) for n in nodes):
            ctx.holds("A3", "%s: %s" % (f.qualname, norm(st)), "on the success edge of the mechanism call")
        else:
            p = cfg.unguarded_path(nodes[0], mech_success)
            ctx.violation("A3", f, "truthy-store-not-under-success",
                          "`authenticated = %s` is reachable without the selected mechanism having succeeded" % norm(val),
                          node=node, path=cfg.describe_path(p) if p else None,
                          witness="server answers NO to AUTHENTICATE; a later listscripts() is sent anyway")
    # mechanisms: True only on OK
    ctx.need("A3", "mechanism functions", len(mech), 3)
    for mname in mech:
        f = R.methods[mname]
        res = status_paths(ctx, R, f)
        bad = [p for p in res if p["truthy"] is not False and p["last_code"] != "OK"]
        if bad:
            ctx.violation("A3", f, "mechanism-true-without-OK",
                          "%s can return a truthy value although the final reply code is %s" % (
                              f.qualname, bad[0]["last_code"]), node=bad[0]["node"] or f.node,
                          witness="server answers NO to the last step of the exchange; connect() still reports success")
        else:
            ctx.holds("A3", "%s returns True only on OK" % f.qualname, "%d paths" % len(res))
    # reset on reconnect
    conn = connect_method(R, "A3")
    cfgc = ctx.cfg(conn)
    resets = []
    for f, node, kind, text in writes:
        if f is conn:
            st = node._parent
            cv = const_value(ctx.program, f, st.value) if isinstance(st, ast.Assign) else TOP
            if cv is not TOP and not cv:
                resets.extend(cfgc.nodes_for(st))
    first_use = []
    for c in self_calls(conn):
        if c.func.attr in G.methods and (R.sender.name in G.reach_from([c.func.attr]) or
                                         R.assembler.name in G.reach_from([c.func.attr])):
            first_use.extend(cfgc.node_containing(c))
    if not first_use:
        raise AnalysisError("A3", "connect() does not call anything that talks to the server")
    if resets and all(cfgc.dominates(resets, u) for u in first_use):
        ctx.holds("A3", "%s resets authenticated before using the new connection" % conn.qualname)
    else:
        ctx.violation("A3", conn, "no-reset-on-connect",
                      "connect() opens a new connection without resetting `authenticated`: the flag of a previous "
                      "connection survives", node=conn.node,
                      witness="connect() OK; connect() again, refused by the server (returns False); listscripts() "
                              "writes LISTSCRIPTS on the unauthenticated connection")
    return conn


def capability_reader(R, conn):
    """(method, attribute): the method called by connect() that reads the capability listing through the assembler, and the attribute
    of the client it records the capabilities in - filled item by item, or assigned a dictionary built from the listing."""
    G = R.graph
    for n in G.edges[conn.name]:
        f = R.methods[n]
        if R.assembler.name not in G.edges[n]:
            continue
        selfp = f.params[0]
        for x in ast.walk(f.node):
            if isinstance(x, ast.Subscript) and isinstance(x.ctx, ast.Store) and isinstance(x.value, ast.Attribute) \
                    and isinstance(x.value.value, ast.Name) and x.value.value.id == selfp:
                return f, x.value.attr
        # a dictionary filled in a local, then stored / merged as a whole
        local_dicts = {a.targets[0].id for a in walk_no_nested(f.node) if isinstance(a, ast.Assign) and len(a.targets) == 1
                       and isinstance(a.targets[0], ast.Name) and (isinstance(a.value, (ast.Dict, ast.DictComp)) or (
                           isinstance(a.value, ast.Call) and call_name(a.value) == "dict"))}
        grew = True
        while grew:
            grew = False
            for a in walk_no_nested(f.node):
                if isinstance(a, ast.Assign) and len(a.targets) == 1 and isinstance(a.targets[0], ast.Name) and isinstance(a.value, ast.Name) \
                        and a.value.id in local_dicts and a.targets[0].id not in local_dicts:
                    local_dicts.add(a.targets[0].id)
                    grew = True
        for a in walk_no_nested(f.node):
            if isinstance(a, ast.Assign) and len(a.targets) == 1 and isinstance(a.targets[0], ast.Attribute) and isinstance(a.targets[0].value, ast.Name) \
                    and a.targets[0].value.id == selfp and (isinstance(a.value, (ast.Dict, ast.DictComp)) or (
                        isinstance(a.value, ast.Name) and a.value.id in local_dicts)):
                return f, a.targets[0].attr
            if isinstance(a, ast.Expr) and isinstance(a.value, ast.Call) and isinstance(a.value.func, ast.Attribute) and a.value.func.attr == "update" \
                    and isinstance(a.value.func.value, ast.Attribute) and isinstance(a.value.func.value.value, ast.Name) \
                    and a.value.func.value.value.id == selfp and a.value.args and isinstance(a.value.args[0], ast.Name) and a.value.args[0].id in local_dicts:
                return f, a.value.func.value.attr
    return None, None


def a8(ctx, R):
    """Per-connection state (shared with C05, C14, C15, C16): what was recorded for a previous connection - the capability table
    and the unread bytes - does not apply to a new one."""
    ctx.rule("A8", "connect() empties the capability table and the read buffer before the new connection is first read")
    G = R.graph
    conn = connect_method(R, "A8")
    cfgc = ctx.cfg(conn)
    _, cap_attr = capability_reader(R, conn)
    if cap_attr is None:
        raise AnalysisError("A8", "capability table not identified")
    first_use = []
    for c in self_calls(conn):
        if c.func.attr in G.methods and (R.sender.name in G.reach_from([c.func.attr]) or R.assembler.name in G.reach_from([c.func.attr])):
            first_use.extend(cfgc.node_containing(c))
    if not first_use:
        raise AnalysisError("A8", "connect() does not call anything that talks to the server")
    caps, bufs = [], []
    for n in walk_no_nested(conn.node):
        if isinstance(n, ast.Assign):
            for t in n.targets:
                if isinstance(t, ast.Attribute) and isinstance(t.value, ast.Name) and t.value.id == conn.params[0]:
                    v = const_value(ctx.program, conn, n.value)
                    empty = v is not TOP and not v and v is not None
                    if t.attr == cap_attr and (empty or (isinstance(n.value, ast.Call) and call_name(n.value) == "dict" and not n.value.args)):
                        caps.extend(cfgc.nodes_for(n))
                    if mangle(R.cls.name, t.attr) == R.buffer_attr and empty:
                        bufs.extend(cfgc.nodes_for(n))
        from .c05 import is_buffer_reset
        if isinstance(n, (ast.Delete, ast.Expr, ast.Assign)) and is_buffer_reset(ctx, R, conn, n):
            bufs.extend(cfgc.nodes_for(n))
        if isinstance(n, ast.Call) and isinstance(n.func, ast.Attribute) and n.func.attr == "clear" and isinstance(n.func.value, ast.Attribute) \
                and n.func.value.attr == cap_attr:
            caps.extend(cfgc.node_containing(n))
    for what, nodes, key, wit in (
            ("capability table", caps, "stale-capabilities",
             "connect() to a server that announces SASL, then connect() to one that does not: AUTHENTICATE with the credentials is sent anyway "
             "(and a stale VERSION line makes renamescript send RENAMESCRIPT)"),
            ("read buffer", bufs, "stale-read-buffer",
             "a BYE left unread by the previous connection is taken for the greeting of the new one")):
        if nodes and all(cfgc.dominates(nodes, u, exc=False) for u in first_use):
            ctx.holds("A8", "%s: the %s is emptied before the new connection is read" % (conn.qualname, what))
        else:
            ctx.violation("A8", conn, key, "connect() reads the new connection without having emptied the %s: what the previous "
                          "connection left there is attributed to this one" % what, node=conn.node, witness=wit)


def a9(ctx, R):
    """What a Client remembers about its session (flag, capabilities, buffer) is that object's own: nothing of it lives in a mutable
    object shared by every Client (class-level dict / list, mutable default argument)."""
    ctx.rule("A9", "session state is per Client object (no class-level or default-argument container is written)")
    MUT = {"append", "extend", "insert", "remove", "pop", "clear", "update", "setdefault", "add", "discard", "popitem", "sort"}
    shared = {}
    for nm, v in R.cls.attrs.items():
        if isinstance(v, (ast.Dict, ast.List, ast.Set)) or (isinstance(v, ast.Call) and call_name(v) in ("dict", "list", "set", "defaultdict", "OrderedDict")):
            shared[nm] = "class attribute %s.%s" % (R.cls.name, nm)
    bad = []
    for f in R.methods.values():
        defaults = {p: d for p, d in f.defaults().items() if isinstance(d, (ast.Dict, ast.List, ast.Set))}
        for n in walk_no_nested(f.node):
            tgt = None
            if isinstance(n, ast.Subscript) and isinstance(n.ctx, (ast.Store, ast.Del)):
                tgt = n.value
            elif isinstance(n, ast.Call) and isinstance(n.func, ast.Attribute) and n.func.attr in MUT:
                tgt = n.func.value
            elif isinstance(n, ast.AugAssign):
                tgt = n.target
            if tgt is None:
                continue
            if isinstance(tgt, ast.Attribute) and tgt.attr in shared and isinstance(tgt.value, ast.Name):
                # self.x where x is never bound on the instance refers to the class-level object
                inst_bound = any(isinstance(a, ast.Attribute) and a.attr == tgt.attr and isinstance(a.ctx, ast.Store) and isinstance(a._parent, (ast.Assign, ast.AnnAssign))
                                 for g in R.methods.values() for a in walk_no_nested(g.node))
                if not inst_bound:
                    bad.append((f, n, shared[tgt.attr]))
            if isinstance(tgt, ast.Name) and tgt.id in defaults:
                bad.append((f, n, "mutable default of parameter %s" % tgt.id))
    for f, n, what in bad:
        ctx.violation("A9", f, "shared-session-state:%s" % what, "%s modifies the %s, which every Client object (and every call) shares" % (
            f.qualname, what), node=n, witness="client B's login is refused, client A logs in: B.listscripts() is written on B's unauthenticated connection")
    if not bad:
        ctx.holds("A9", "no method of %s writes a class-level container or a mutable default (%d class-level containers)" % (R.cls.name, len(shared)))


def _content_never_none(R):
    """The payload the sender hands back (third element of its result) is the assembler's accumulator: bound to a bytes constant
    and only ever extended - never None."""
    asm = R.assembler
    names = set()
    for r in walk_no_nested(asm.node):
        if isinstance(r, ast.Return) and isinstance(r.value, ast.Tuple) and len(r.value.elts) == 3:
            if not isinstance(r.value.elts[2], ast.Name):
                return False
            names.add(r.value.elts[2].id)
        elif isinstance(r, ast.Return):
            return False
    if len(names) != 1:
        return False
    acc = next(iter(names))
    for a in walk_no_nested(asm.node):
        if isinstance(a, ast.Assign) and any(isinstance(t, ast.Name) and t.id == acc for t in a.targets):
            if not (isinstance(a.value, ast.Constant) and isinstance(a.value.value, bytes)):
                # the result of a helper that extends and returns the accumulator is fine too
                if not (isinstance(a.value, ast.BinOp) and isinstance(a.value.op, ast.Add)):
                    return False
        if isinstance(a, ast.Assign) and any(isinstance(t, (ast.Tuple, ast.List)) and any(isinstance(x, ast.Name) and x.id == acc for x in t.elts)
                                             for t in a.targets):
            return False
    snd = R.sender
    for r in walk_no_nested(snd.node):
        if isinstance(r, ast.Return) and isinstance(r.value, ast.Tuple) and len(r.value.elts) == 3:
            el = r.value.elts[2]
            if not isinstance(el, ast.Name):
                return False
            defs = [a for a in walk_no_nested(snd.node) if isinstance(a, ast.Assign) and any(
                (isinstance(t, ast.Name) and t.id == el.id) or (isinstance(t, (ast.Tuple, ast.List)) and any(isinstance(x, ast.Name) and x.id == el.id for x in t.elts))
                for t in a.targets)]
            if not defs or not all(isinstance(a.value, ast.Call) and call_name(a.value) == asm.name for a in defs):
                return False
    return True


def status_paths(ctx, R, f, extra_oracle=None):
    """Finite-domain enumeration of f over the reply code of every sender
    call (OK / NO): list of dicts {truthy, last_code, value, node, events}."""
    sender = R.sender
    content_cls = fd.Obj if _content_never_none(R) else fd.Unknown

    def oracle(interp, e, name, recv, args, kw, st):
        if extra_oracle is not None:
            r = extra_oracle(interp, e, name, recv, args, kw, st)
            if r is not None:
                return r
        if name == "self." + sender.name:
            wc = kw.get("withcontent")
            if wc is None:
                # positional?
                idx = sender.params.index("withcontent") - 1 if "withcontent" in sender.params else None
                if idx is not None and idx < len(args):
                    wc = args[idx]
            three = wc is not None and fd.truth(wc) is True
            outs = []
            for code in ("OK", "NO"):
                items = [fd.Const(code), fd.Unknown("data")] + ([content_cls("content")] if three else [])
                outs.append((fd.Tup(items), ("reply", code)))
            return outs
        return None

    it = fd.Interp(f.node, R.cls.name, oracle, resolve=module_resolver(ctx.program, R.module))
    res = []
    for p in it.run({}):
        codes = [x[1] for x in p.events if x[0] == "reply"]
        res.append({"truthy": fd.truth(p.value) if p.kind == "return" else "raise:%s" % p.value,
                    "last_code": codes[-1] if codes else None, "codes": codes, "value": p.value, "node": p.node,
                    "kind": p.kind, "events": p.events})
    return res
