"""Role discovery for the parser / commands side."""
import ast
import re

from sa import rx
from sa.model import AnalysisError, walk_no_nested, norm, mangle, call_name
from sa.consteval import Evaluator, TOP, command_table
from .roles import regex_flags


def _strip(name):
    return name.lstrip("_")


class ParserRoles:
    def __init__(self, ctx, rule="P"):
        p = ctx.program
        self.program = p
        self.pmod = p.module("parser")
        self.cmod = p.module("commands")
        self.Parser = self.pmod.classes.get("Parser")
        self.Lexer = self.pmod.classes.get("Lexer")
        if self.Parser is None or self.Lexer is None:
            raise AnalysisError(rule, "classes Parser/Lexer not found in parser.py")
        self.Command = self.cmod.classes.get("Command")
        if self.Command is None:
            raise AnalysisError(rule, "class Command not found in commands.py")
        self._rule = rule
        pm = {_strip(n): f for n, f in self.Parser.methods.items()}
        self.pm = pm
        need = ["parse", "command", "arguments", "argument", "stringlist", "up", "check_command_completion",
                "reset_parser", "set_expected", "push_expected_bracket", "pop_expected_bracket"]
        if any(n not in pm for n in need):
            self._discover_methods(pm)
        for n in need:
            if n not in pm:
                raise AnalysisError(rule, "Parser method %s not found (neither by name nor by role)" % n)
        self.parse = pm["parse"]
        self.command = pm["command"]
        self.arguments = pm["arguments"]
        self.argument = pm["argument"]
        self.stringlist = pm["stringlist"]
        self.up = pm["up"]
        self.completion = pm["check_command_completion"]
        self.reset = pm["reset_parser"]
        self.set_expected = pm["set_expected"]
        self.push_bracket = pm["push_expected_bracket"]
        self.pop_bracket = pm["pop_expected_bracket"]
        self.state_funcs = [self.command, self.arguments, self.argument, self.stringlist]
        self.scan = self.Lexer.methods.get("scan")
        if self.scan is None:
            raise AnalysisError(rule, "Lexer.scan not found")
        cm = self.Command.methods
        for n in ("check_next_arg", "iscomplete", "tosieve", "addchild", "complete_cb", "reassign_arguments",
                  "get_type", "has_arguments"):
            if n not in cm:
                raise AnalysisError(rule, "Command.%s not found" % n)
        self.check_next_arg = cm["check_next_arg"]
        self.iscomplete = cm["iscomplete"]
        self.tosieve = cm["tosieve"]
        self.addchild = cm["addchild"]
        self.lookup = self.cmod.funcs.get("get_command_instance")
        self.add_commands = self.cmod.funcs.get("add_commands")
        if self.lookup is None or self.add_commands is None:
            raise AnalysisError(rule, "get_command_instance/add_commands not found")
        self.valid_value = None
        self.valid_type = None
        for n, f in cm.items():
            if "valid_value" in n:
                self.valid_value = f
            if "valid_type" in n:
                self.valid_type = f
        self.Require = self.cmod.classes.get("RequireCommand")
        # token table
        ev = Evaluator(p, self.pmod, self.Parser)
        lr = ev.lookup("lrules")
        if lr is TOP or not isinstance(lr, list) or not all(isinstance(x, tuple) and len(x) == 2 for x in lr):
            raise AnalysisError(rule, "Parser.lrules is not a statically evaluable list of (name, pattern)")
        self.lrules = [(n.decode() if isinstance(n, bytes) else n, pat) for n, pat in lr]
        # compile flags of the master regexp and the whitespace pattern (in Lexer.__init__)
        self.master_flags = None
        self.ws_pattern = None
        self.ws_flags = 0
        init = self.Lexer.methods.get("__init__")
        if init is None:
            raise AnalysisError(rule, "Lexer.__init__ not found")
        for n in walk_no_nested(init.node):
            if isinstance(n, ast.Assign) and isinstance(n.value, ast.Call) and call_name(n.value) == "compile":
                def flags_of(e, depth=0):
                    # a flag combination kept in a class attribute / module constant (FLAGS = re.MULTILINE | re.DOTALL)
                    if depth < 4 and isinstance(e, ast.Attribute) and isinstance(e.value, ast.Name) and e.value.id in (init.params[0], self.Lexer.name) \
                            and e.attr in self.Lexer.attrs:
                        return flags_of(self.Lexer.attrs[e.attr], depth + 1)
                    if depth < 4 and isinstance(e, ast.Name) and e.id in self.pmod.assigns:
                        return flags_of(self.pmod.assigns[e.id], depth + 1)
                    if isinstance(e, ast.BinOp) and isinstance(e.op, ast.BitOr):
                        return flags_of(e.left, depth + 1) | flags_of(e.right, depth + 1)
                    return regex_flags(e)
                fl = 0
                for a in n.value.args[1:]:
                    fl |= flags_of(a)
                for k in n.value.keywords:
                    if k.arg == "flags":
                        fl |= flags_of(k.value)
                pat = Evaluator(p, self.pmod, self.Lexer).eval(n.value.args[0]) if n.value.args else TOP
                tgt = n.targets[0].attr if isinstance(n.targets[0], ast.Attribute) else None
                if isinstance(pat, bytes):
                    self.ws_pattern, self.ws_flags, self.ws_attr = pat, fl, tgt
                else:
                    self.master_flags, self.master_attr, self.master_node = fl, tgt, n
        if self.master_flags is None or self.ws_pattern is None:
            raise AnalysisError(rule, "Lexer.__init__: master / whitespace regex compilation not recognised")
        self._patterns = {}
        self._table = None
        self._reach = None
        self._attr_roles = self._discover_attr_roles()

    def _discover_methods(self, pm):
        discover_parser_methods(self.Parser, pm)

    def _discover_attr_roles(self):
        """Private attribute names of Parser by role (robust against renaming)."""
        out = {"curcommand": "curcommand", "cstate": "cstate", "expected": "expected", "expected_brackets": "expected_brackets",
               "curstringlist": "curstringlist"}
        sn = self.command.params[0]
        looked = {t.id for a in walk_no_nested(self.command.node) if isinstance(a, ast.Assign) and isinstance(a.value, ast.Call)
                  and call_name(a.value) == self.lookup.name for t in a.targets if isinstance(t, ast.Name)}
        for a in walk_no_nested(self.command.node):
            if isinstance(a, ast.Assign) and isinstance(a.value, ast.Name) and a.value.id in looked:
                for t in a.targets:
                    if isinstance(t, ast.Attribute) and isinstance(t.value, ast.Name) and t.value.id == sn:
                        out["curcommand"] = t.attr.lstrip("_")
            if isinstance(a, ast.Assign) and isinstance(a.value, ast.Attribute) and isinstance(a.value.value, ast.Name) and a.value.value.id == sn \
                    and a.value.attr in self.Parser.methods:
                for t in a.targets:
                    if isinstance(t, ast.Attribute):
                        out["cstate"] = t.attr.lstrip("_")
        for a in walk_no_nested(self.set_expected.node):
            if isinstance(a, ast.Assign):
                for t in a.targets:
                    if isinstance(t, ast.Attribute):
                        out["expected"] = t.attr.lstrip("_")
        for c in walk_no_nested(self.push_bracket.node):
            if isinstance(c, ast.Call) and call_name(c) == "append" and isinstance(c.func.value, ast.Attribute):
                out["expected_brackets"] = c.func.value.attr.lstrip("_")
            if isinstance(c, ast.AugAssign) and isinstance(c.target, ast.Attribute):
                out["expected_brackets"] = c.target.attr.lstrip("_")
        for c in walk_no_nested(self.stringlist.node):
            if isinstance(c, ast.AugAssign) and isinstance(c.target, ast.Attribute):
                out["curstringlist"] = c.target.attr.lstrip("_")
            if isinstance(c, ast.Call) and call_name(c) == "append" and isinstance(c.func.value, ast.Attribute):
                out["curstringlist"] = c.func.value.attr.lstrip("_")
        return out

    def command_namespace(self):
        """Where commands are registered and looked up: ("globals", None) - the module namespace of commands.py, as in the pinned
        tree - or ("registry", <name>) - a module-level dict of commands.py that the lookup reads with .get() / [...] / `in`."""
        lk = self.lookup
        if any(isinstance(c, ast.Call) and call_name(c) == "globals" for c in walk_no_nested(lk.node)):
            return ("globals", None)
        for n in walk_no_nested(lk.node):
            if isinstance(n, ast.Name) and isinstance(n.ctx, ast.Load) and n.id in self.cmod.assigns:
                v = self.cmod.assigns[n.id]
                if isinstance(v, ast.Dict) or (isinstance(v, ast.Call) and call_name(v) == "dict"):
                    par = getattr(n, "_parent", None)
                    if isinstance(par, ast.Subscript) or (isinstance(par, ast.Attribute) and par.attr == "get") or isinstance(par, ast.Compare):
                        return ("registry", n.id)
        return (None, None)

    def fresh_start_value(self, value):
        """The value the reset gives the extension registry is the same for every parse of this parser: an empty list, or a NEW list
        copied from an attribute that only the constructor writes (extensions the caller declared available up front).  Returns a
        description, or None when the value is neither."""
        from sa.util import const_value as _cv
        v = _cv(self.program, self.reset, value)
        if v is not TOP and v in ([], ()):
            return "empty"
        src = None
        if isinstance(value, ast.Call) and isinstance(value.func, ast.Name) and value.func.id == "list" and len(value.args) == 1 and not value.keywords:
            src = value.args[0]
        elif isinstance(value, ast.Call) and isinstance(value.func, ast.Attribute) and value.func.attr == "copy" and not value.args:
            src = value.func.value
        elif isinstance(value, ast.Subscript) and isinstance(value.slice, ast.Slice) and value.slice.lower is None and value.slice.upper is None:
            src = value.value
        elif isinstance(value, ast.List) and len(value.elts) == 1 and isinstance(value.elts[0], ast.Starred):
            src = value.elts[0].value
        if isinstance(src, ast.Attribute) and isinstance(src.value, ast.Name) and src.value.id == self.reset.params[0]:
            writers = set()
            for f in self.Parser.methods.values():
                for n in walk_no_nested(f.node):
                    if isinstance(n, ast.Attribute) and n.attr == src.attr and isinstance(n.value, ast.Name) and n.value.id == f.params[0]:
                        par = getattr(n, "_parent", None)
                        if isinstance(n.ctx, (ast.Store, ast.Del)) or (isinstance(par, ast.Attribute) and par.attr in (
                                "append", "extend", "insert", "remove", "pop", "clear", "sort")) or (
                                isinstance(par, ast.AugAssign) and par.target is n) or (isinstance(par, ast.Subscript) and isinstance(par.ctx, (ast.Store, ast.Del))):
                            writers.add(f.name)
            running = {g.name for g in self.reachable() if g.cls is self.Parser}
            config = {w for w in writers if w == "__init__" or (not w.startswith("_") and w not in running)}
            if writers <= config:
                return "a copy of self.%s, which only the constructor%s writes" % (
                    src.attr, "" if writers <= {"__init__"} else " and the configuration method(s) %s (never run by parse)" % sorted(writers - {"__init__"}))
        return None

    def an(self, role):
        return self._attr_roles[role]

    def role_of(self, func):
        """canonical role name of a Parser method (independent of how it is spelled in the source)"""
        for role, f in (("parse", self.parse), ("command", self.command), ("arguments", self.arguments), ("argument", self.argument),
                        ("stringlist", self.stringlist), ("up", self.up), ("check_command_completion", self.completion),
                        ("reset_parser", self.reset), ("set_expected", self.set_expected), ("push_expected_bracket", self.push_bracket),
                        ("pop_expected_bracket", self.pop_bracket)):
            if f is func:
                return role
        return func.name.lstrip("_")

    def pattern(self, name):
        if name not in self._patterns:
            pat = dict(self.lrules).get(name)
            if pat is None:
                raise AnalysisError(self._rule, "lexer rule %s not found" % name)
            self._patterns[name] = rx.Pattern(pat, self.master_flags, name=name)
        return self._patterns[name]

    def table(self):
        if self._table is None:
            self._table = command_table(self.program, self._rule)
        return self._table

    def concrete(self):
        return {k: v for k, v in self.table().items() if not v["abstract"]}

    # ---- functions reachable from Parser.parse -----------------------------------
    def reachable(self):
        """Over-approximate set of functions that can run during parse()."""
        if self._reach is not None:
            return self._reach
        prog = self.program
        by_name = {}
        for f in prog.all_funcs():
            if f.module.name in ("parser", "commands", "tools"):
                by_name.setdefault(_strip(f.name), []).append(f)
        start = [self.parse, self.command, self.arguments, self.argument, self.stringlist, self.up, self.completion, self.reset,
                 self.set_expected, self.push_bracket, self.pop_bracket, self.scan]
        seen = {}
        todo = list(start)
        virtual = {"complete_cb", "reassign_arguments", "get_expected_first"}
        while todo:
            f = todo.pop()
            if id(f.node) in seen:
                continue
            seen[id(f.node)] = f
            for n in walk_no_nested(f.node):
                names = []
                if isinstance(n, ast.Call):
                    cn = call_name(n)
                    if cn:
                        names.append(_strip(cn))
                    # exception construction -> __init__, later str(e) -> __str__
                    c = prog.cls(cn) if cn else None
                    if c is not None:
                        for m in ("__init__", "__str__"):
                            g = prog.method(c, m)
                            if g is not None:
                                todo.append(g)
                elif isinstance(n, ast.Attribute) and isinstance(n.ctx, ast.Load) and _strip(n.attr) in (
                        "arguments", "stringlist"):
                    names.append(_strip(n.attr))  # state-function slot assignments
                for nm in names:
                    for g in by_name.get(nm, []):
                        if g.name in ("tosieve", "dump", "walk", "args_as_tuple", "parse_file", "add_commands"):
                            continue
                        if g.cls is not None and g.cls.name in ("Parser", "Lexer") and f.cls is not None \
                                and f.cls.name not in ("Parser", "Lexer") and g.name != "scan":
                            continue
                        todo.append(g)
        self._reach = list(seen.values())
        return self._reach


def discover_parser_methods(Parser, pm):
    """Fill missing private-method roles of the Parser class from the shape of the code (used when methods were renamed)."""
    M = Parser.methods
    parse = pm.get("parse")
    if parse is None:
        return
    sn = parse.params[0]

    def self_calls_in(node):
        return [c for c in walk_no_nested(node) if isinstance(c, ast.Call) and isinstance(c.func, ast.Attribute)
                and isinstance(c.func.value, ast.Name) and c.func.value.id in (sn, "self") and c.func.attr in M]
    if "reset_parser" not in pm:
        for st in parse.node.body:
            if isinstance(st, ast.Expr) and isinstance(st.value, ast.Call) and st.value in self_calls_in(st):
                pm["reset_parser"] = M[st.value.func.attr]
                break
    if "command" not in pm:
        for lp in ast.walk(parse.node):
            if isinstance(lp, ast.For) and isinstance(lp.target, ast.Tuple):
                names = [t.id for t in lp.target.elts if isinstance(t, ast.Name)]
                for c in self_calls_in(lp):
                    if [a.id for a in c.args if isinstance(a, ast.Name)] == names:
                        pm["command"] = M[c.func.attr]
    cmd = pm.get("command")
    if cmd is not None:
        slot_targets = [a.value.attr for a in walk_no_nested(cmd.node) if isinstance(a, ast.Assign) and isinstance(a.value, ast.Attribute)
                        and isinstance(a.value.value, ast.Name) and a.value.attr in M]
        if "arguments" not in pm and slot_targets:
            pm["arguments"] = M[slot_targets[0]]
        if "up" not in pm:
            for c in self_calls_in(cmd.node):
                g = M[c.func.attr]
                if any(isinstance(x, ast.Attribute) and x.attr == "result" and isinstance(x.ctx, ast.Store) for x in ast.walk(g.node)) and len(g.params) <= 2:
                    pm["up"] = g
    args = pm.get("arguments")
    if args is not None:
        for c in self_calls_in(args.node):
            g = M[c.func.attr]
            if len(g.params) == 3 and len(c.args) == 2 and "argument" not in pm and g is not args:
                if any(isinstance(a, ast.Assign) and isinstance(a.value, ast.Attribute) and a.value.attr in M for a in walk_no_nested(g.node)):
                    pm["argument"] = g
        for st in walk_no_nested(args.node):
            if isinstance(st, ast.Return) and isinstance(st.value, ast.Call) and st.value in self_calls_in(st) and "check_command_completion" not in pm:
                g = M[st.value.func.attr]
                if g is not pm.get("argument"):
                    pm["check_command_completion"] = g
    arg = pm.get("argument")
    if arg is not None and "stringlist" not in pm:
        for a in walk_no_nested(arg.node):
            if isinstance(a, ast.Assign) and isinstance(a.value, ast.Attribute) and a.value.attr in M:
                pm["stringlist"] = M[a.value.attr]
    for n, g in M.items():
        va = g.node.args.vararg
        if va is not None and "set_expected" not in pm and any(
                isinstance(a, ast.Assign) and isinstance(a.value, ast.Name) and a.value.id == va.arg
                and any(isinstance(t, ast.Attribute) for t in a.targets) for a in walk_no_nested(g.node)):
            pm["set_expected"] = g
        taken = {id(pm[k]) for k in ("command", "arguments", "argument", "stringlist", "up", "check_command_completion", "reset_parser",
                                       "set_expected", "push_expected_bracket", "pop_expected_bracket") if k in pm}
        if len(g.params) == 3 and id(g) not in taken:
            calls = {call_name(c) for c in walk_no_nested(g.node) if isinstance(c, ast.Call)}
            if "append" in calls and "push_expected_bracket" not in pm and len(g.node.body) <= 3:
                pm["push_expected_bracket"] = g
            elif "pop" in calls and "pop_expected_bracket" not in pm and any(isinstance(x, ast.Raise) for x in ast.walk(g.node)):
                pm["pop_expected_bracket"] = g

