"""C16 - SASL: the right mechanism, carrying exactly the caller's credentials.

U1 supported list, U2 dispatch exhaustiveness, U3 selection logic (finite
domain), U4 payload templates, U5 gs2 header hygiene, U7 sender bytes by evaluation, U6 resolvable names and
no bytes/str mixing below the mechanism functions.
"""
import ast
import builtins
import copy
import itertools

from sa import fd
from sa.model import AnalysisError, walk_no_nested, norm, call_name, mangle, Func
from sa.util import module_resolver, self_calls, const_value, bound_arg, single_def_value
from sa.consteval import TOP, Evaluator
from .roles import ClientRoles
from .c10 import (authenticator, mechanisms, sender_sites, selection_feeders, selection_slice, selection_timing, tls_method,
                  connect_method, capability_reader)
from ref import ms_spec


def run(ctx):
    R = ClientRoles(ctx, "U")
    ctx.explanation = (
        "(U1) the supported-mechanism list evaluates to [DIGEST-MD5, PLAIN, LOGIN, OAUTHBEARER] in that order; (U2) for "
        "every entry the method name the dispatcher constructs exists with the (login, password, authz_id) signature; "
        "(U3) path-sensitive constant propagation of the authenticator over every preferred-mechanism argument x every "
        "subset of announced mechanisms: a named implemented mechanism is the only candidate, otherwise the first "
        "supported one the server announces; at most one attempt; no attempt and False when none qualifies; the flag "
        "is set exactly when the attempt succeeded; (U4) the payloads are, as byte templates over the parameters, "
        "PLAIN = b64(authzid NUL login NUL password), LOGIN = quoted b64(login) then quoted b64(password), "
        "OAUTHBEARER = b64('n,a=' saslname(login) ',' ^A 'auth=Bearer ' token ^A^A), and the credentials reach the "
        "mechanism functions only as .encode('utf-8') of connect's parameters in the right positions; (U5) the value "
        "after 'a=' passes the saslname escaper ('=' before ','); (U6) no unresolvable global name, Python-2-only "
        "method or bytes/str mix in code reachable from a mechanism function; (U7) the command sender writes verb + "
        "formatted arguments + CRLF (+ continuation lines) for every setting of its flags (evaluation over sample argument lists).")
    ctx.not_decided = "the RFC 2831 DIGEST-MD5 response arithmetic; server verdicts."
    auth = authenticator(R, "U")
    mech = mechanisms(R)
    mod = R.module

    # ---- U1 ----------------------------------------------------------------------
    ctx.rule("U1", "SUPPORTED_AUTH_MECHS == [DIGEST-MD5, PLAIN, LOGIN, OAUTHBEARER] in that order")
    supp = Evaluator(ctx.program, mod).lookup("SUPPORTED_AUTH_MECHS")
    if supp is TOP:
        raise AnalysisError("U1", "SUPPORTED_AUTH_MECHS not evaluable")
    if list(supp) == ms_spec.SUPPORTED_MECHS:
        ctx.holds("U1", "SUPPORTED_AUTH_MECHS = %s" % (supp,))
    else:
        ctx.violation("U1", "managesieve.SUPPORTED_AUTH_MECHS", "list-differs", "supported mechanisms are %s, the property fixes %s"
                      % (supp, ms_spec.SUPPORTED_MECHS), file=mod.relpath, line=mod.assign_nodes["SUPPORTED_AUTH_MECHS"][0].lineno,
                      witness="a server announcing several mechanisms gets another one than the documented preference")

    # ---- U3 (+U2) selection ------------------------------------------------------
    ctx.rule("U2", "dispatch: constructed method name exists with (login, password, authz_id)")
    ctx.rule("U3", "selection logic by finite-domain evaluation of the authenticator")
    params = auth.params[1:]
    mech_param = [p for p in params if "mech" in p.lower()]
    if not mech_param:
        raise AnalysisError("U3", "authenticator has no mechanism parameter")
    mech_param = mech_param[0]
    # the caller may compute the candidates first (`m = self.usable(authmech); self.auth(l, p, a, m)`)
    feeder = next((x for x in selection_feeders(R, auth) if x[3] < len(params) and params[x[3]] == mech_param), None)
    feeder_param = None
    sl = selection_slice(R, auth) if feeder is None else None
    if sl is not None and sl[3] < len(params) and params[sl[3]] == mech_param:
        cm = [p for p in sl[0].params if "mech" in p.lower()]
        if len(cm) != 1:
            raise AnalysisError("U3", "in-line candidate computation in %s: no mechanism parameter" % sl[0].qualname)
        synth = ast.FunctionDef(name="__selection__", args=copy.deepcopy(sl[0].node.args), decorator_list=[], returns=None, type_comment=None,
                                body=list(sl[1]) + [ast.copy_location(ast.Return(value=ast.copy_location(ast.Name(id=sl[2], ctx=ast.Load()), sl[4])),
                                                                      sl[4])], type_params=[])
        ast.copy_location(synth, sl[0].node)
        synth.args.defaults, synth.args.kw_defaults = [], [None] * len(synth.args.kwonlyargs)
        feeder = (sl[0], Func(synth, R.module, R.cls), sl[4], sl[3])
        feeder_param = cm[0]
        ctx.holds("U3", "the candidates handed to %s are computed in line by %s (%d statements)" % (auth.qualname, sl[0].qualname, len(sl[1])))
    elif feeder is not None:
        hp = feeder[1].params[1:]
        if len(hp) != 1 or len(feeder[2].args) + len(feeder[2].keywords) != 1:
            raise AnalysisError("U3", "candidate helper %s: unexpected signature" % feeder[1].qualname)
        feeder_param = hp[0]
        ctx.holds("U3", "the candidates handed to %s are computed by %s(%s)" % (auth.qualname, feeder[1].qualname, feeder_param))
    # ... and it computes them from what the server announces NOW: after the TLS upgrade, when there is one
    try:
        tls_ = tls_method(R, "U3")
        conn_ = connect_method(R, "U3")
        _cr, cap_attr_ = capability_reader(R, conn_)
        _live, early_ = selection_timing(R, auth, tls_, cap_attr_)
    except AnalysisError:
        early_ = []
    for fn_, what_, node_ in early_:
        ctx.violation("U3", fn_, "selection-before-upgrade", "%s computes the usable mechanisms before the TLS upgrade: the mechanism is chosen "
                      "among those announced in clear, not among those the server announces on the secured connection" % what_, node=node_,
                      witness="pre-TLS announcement LOGIN, post-TLS announcement PLAIN: the client tries LOGIN")
    universe = list(ms_spec.SUPPORTED_MECHS) + ["CRAM-MD5"]
    server_sets = []
    for r in range(len(universe) + 1):
        for comb in itertools.combinations(universe, r):
            server_sets.append(list(comb))
    # also a server ordering different from the client's preference
    server_sets.append(["OAUTHBEARER", "LOGIN", "PLAIN", "DIGEST-MD5"])
    # names that only CONTAIN an implemented mechanism's name are other mechanisms
    server_sets += [["PLAIN-CLIENTTOKEN"], ["X-LOGIN", "CRAM-MD5"], ["X-OAUTHBEARER", "PLAIN-CLIENTTOKEN", "LOGIN"], ["SCRAM-SHA-1", "X-PLAIN"]]
    prefs = [None] + list(ms_spec.SUPPORTED_MECHS) + ["CRAM-MD5", "plain"]
    # what the client takes the announcement for: its own reading of the SASL capability, when the interpreter can follow it
    gsm = R.methods.get("get_sasl_mechanisms")
    try:
        _cr0, cap_attr0 = capability_reader(R, connect_method(R, "U3"))
    except AnalysisError:
        cap_attr0 = None

    def announced(srv):
        if gsm is None or cap_attr0 is None:
            return list(srv)
        short = cap_attr0[len("_" + R.cls.name):] if cap_attr0.startswith("_" + R.cls.name + "__") else cap_attr0
        env_ = dict(R.const_env(gsm.params[0]))
        env_["%s.%s" % (gsm.params[0], short)] = fd.Const({"SASL": " ".join(srv), "IMPLEMENTATION": "x"})

        def orc(interp, e, name, recv, args, kw, st):
            fn = e.func
            if isinstance(fn, ast.Name) and fn.id in R.module.funcs:
                return fd.Inline(R.module.funcs[fn.id])
            if name and name.startswith("self.") and name[5:] in R.methods and R.methods[name[5:]].node is not interp.f:
                return fd.Inline(R.methods[name[5:]])
            return None
        try:
            ps = fd.Interp(gsm.node, R.cls.name, orc, resolve=module_resolver(ctx.program, R.module), loop_unroll=20).run(env_)
        except (fd.TooManyPaths, RecursionError):
            return list(srv)
        if len(ps) == 1 and ps[0].kind == "return" and isinstance(ps[0].value, fd.Const) and isinstance(ps[0].value.v, list) \
                and all(isinstance(x, str) for x in ps[0].value.v):
            return list(ps[0].value.v)
        return list(srv)
    seen_by_client = {tuple(s_): announced(s_) for s_ in server_sets}
    base_env_ = R.const_env(auth.params[0])

    def fresh_env(srv):
        """a client that has just read the capabilities: constant attributes as __init__ leaves them (memo slots empty), the capability
        table holding the announcement"""
        env_ = dict(base_env_)
        env_.pop("%s.authenticated" % auth.params[0], None)
        if cap_attr0 is not None:
            short = cap_attr0[len("_" + R.cls.name):] if cap_attr0.startswith("_" + R.cls.name + "__") else cap_attr0
            env_["%s.%s" % (auth.params[0], short)] = fd.Const({"SASL": " ".join(srv), "IMPLEMENTATION": "x"})
        return env_
    nruns = 0
    bad = None
    dispatched = set()
    for pref in prefs:
        for srv in server_sets:
            def oracle(interp, e, name, recv, args, kw, st, srv=srv):
                if name == "self.get_sasl_mechanisms":
                    return [(fd.Const(list(seen_by_client[tuple(srv)])), None)]
                if name and name.startswith("self.") and name[5:] in R.methods and name[5:].endswith("_authentication"):
                    return [(fd.Const(True), ("try", name[5:], True)), (fd.Const(False), ("try", name[5:], False))]
                if name and name.startswith("self.") and name[5:] not in R.methods and name[5:].endswith("_authentication"):
                    return [fd.Exc("AttributeError", e)]
                return None
            try:
                if feeder is None:
                    it = fd.Interp(auth.node, R.cls.name, oracle, resolve=module_resolver(ctx.program, R.module))
                    paths = it.run(dict(fresh_env(srv), **{mech_param: fd.Const(pref)}))
                else:
                    # the candidates are computed by a helper of the caller: evaluate helper, then authenticator on each result
                    paths = []
                    it0 = fd.Interp(feeder[1].node, R.cls.name, oracle, resolve=module_resolver(ctx.program, R.module))
                    for p0 in it0.run(dict(fresh_env(srv), **{feeder_param: fd.Const(pref)})):
                        if p0.kind != "return":
                            paths.append(p0)
                            continue
                        it = fd.Interp(auth.node, R.cls.name, oracle, resolve=module_resolver(ctx.program, R.module))
                        for p1 in it.run(dict(fresh_env(srv), **{mech_param: p0.value})):
                            p1.events = list(p0.events) + list(p1.events)
                            paths.append(p1)
            except fd.TooManyPaths:
                raise AnalysisError("U3", "path explosion")
            cands = [pref] if pref in supp else list(supp)
            expect = next((m for m in cands if m in srv), None)
            for p in paths:
                if p.kind == "raise" and p.value == "Error" and not [x for x in p.events if x[0] == "try"]:
                    continue  # "SASL not supported" branch (capability absent)
                nruns += 1
                tries = [x for x in p.events if x[0] == "try"]
                stores = [x for x in p.events if x[0] == "store" and x[1].endswith(".authenticated")]
                desc = "authmech=%r, server announces %s" % (pref, srv)
                if p.kind == "raise":
                    bad = bad or ("raises %s (%s)" % (p.value, desc), p)
                    continue
                if len(tries) > 1:
                    bad = bad or ("tries %d mechanisms %s (%s)" % (len(tries), [t[1] for t in tries], desc), p)
                    continue
                if expect is None:
                    if tries:
                        bad = bad or ("tries %s although no mechanism qualifies (%s)" % (tries[0][1], desc), p)
                    elif fd.truth(p.value) is not False:
                        bad = bad or ("returns %r although no mechanism qualifies (%s)" % (p.value, desc), p)
                    continue
                want = "_%s_authentication" % expect.lower().replace("-", "_")
                if not tries:
                    bad = bad or ("tries nothing although %s qualifies (%s)" % (expect, desc), p)
                    continue
                dispatched.add(tries[0][1])
                if tries[0][1] != want:
                    bad = bad or ("tries %s instead of %s (%s)" % (tries[0][1], want, desc), p)
                    continue
                ok = tries[0][2]
                if fd.truth(p.value) is not ok:
                    bad = bad or ("returns %r although the attempt %s (%s)" % (p.value, "succeeded" if ok else "failed", desc), p)
                truthy_store = any(fd.truth(x[2]) is not False for x in stores)
                if truthy_store != ok:
                    bad = bad or ("%s `authenticated` although the attempt %s (%s)" % (
                        "sets" if truthy_store else "does not set", "succeeded" if ok else "failed", desc), p)
    # the announcement may change between two selections on one client (before and after STARTTLS): the second one follows the
    # second announcement, whatever the first one left on the object
    if bad is None and feeder is None and cap_attr0 is not None:
        short0 = cap_attr0[len("_" + R.cls.name):] if cap_attr0.startswith("_" + R.cls.name + "__") else cap_attr0
        capkey = "%s.%s" % (auth.params[0], short0)
        for srv1, srv2 in ((["LOGIN"], ["PLAIN"]), (["DIGEST-MD5", "PLAIN"], ["PLAIN"]), (["PLAIN"], ["OAUTHBEARER", "LOGIN"])):
            for s_ in (srv1, srv2):
                seen_by_client.setdefault(tuple(s_), announced(s_))

            def mk_oracle(srv):
                def oracle(interp, e, name, recv, args, kw, st, srv=srv):
                    if name == "self.get_sasl_mechanisms":
                        return [(fd.Const(list(seen_by_client[tuple(srv)])), None)]
                    if name and name.startswith("self.") and name[5:] in R.methods and name[5:].endswith("_authentication"):
                        return [(fd.Const(False), ("try", name[5:], False))]
                    return None
                return oracle
            try:
                p1s = fd.Interp(auth.node, R.cls.name, mk_oracle(srv1), resolve=module_resolver(ctx.program, R.module)).run(
                    dict(fresh_env(srv1), **{mech_param: fd.Const(None)}))
                if len(p1s) != 1:
                    continue
                env2 = {k: v for k, v in p1s[0].env.items() if k.startswith(auth.params[0] + ".")}
                env2[capkey] = fd.Const({"SASL": " ".join(srv2), "IMPLEMENTATION": "x"})
                p2s = fd.Interp(auth.node, R.cls.name, mk_oracle(srv2), resolve=module_resolver(ctx.program, R.module)).run(
                    dict(env2, **{mech_param: fd.Const(None)}))
            except fd.TooManyPaths:
                continue
            if len(p2s) != 1:
                continue
            tries2 = [x for x in p2s[0].events if x[0] == "try"]
            expect2 = next((m for m in supp if m in srv2), None)
            want2 = "_%s_authentication" % expect2.lower().replace("-", "_") if expect2 else None
            got2 = tries2[0][1] if tries2 else None
            nruns += 1
            if got2 != want2:
                bad = ("tries %s instead of %s when the server announced %s first and %s afterwards (e.g. before and after STARTTLS): the first "
                       "choice is reused" % (got2, want2, srv1, srv2), p2s[0])
                break
    if nruns < 100:
        raise AnalysisError("U3", "only %d selection paths enumerated" % nruns)
    if bad:
        ctx.violation("U3", auth, "selection", "the authenticator %s" % bad[0], node=bad[1].node or auth.node, witness=bad[0])
    else:
        ctx.holds("U3", "%s: %d (preference, announced set, outcome) paths agree with the reference selection" % (auth.qualname, nruns))
    for m in supp:
        want = "_%s_authentication" % m.lower().replace("-", "_")
        f = R.methods.get(want)
        if f is None:
            ctx.violation("U2", auth, "no-method:%s" % m, "no method %s for supported mechanism %s" % (want, m), node=auth.node,
                          witness="a server announcing %s makes connect() raise AttributeError" % m)
        elif len(f.params) != 4:
            ctx.violation("U2", f, "signature:%s" % m, "%s does not take (login, password, authz_id)" % f.qualname, node=f.node)
        elif want not in dispatched:
            ctx.violation("U2", auth, "never-dispatched:%s" % m, "%s is never selected by the dispatcher" % want, node=auth.node)
        else:
            ctx.holds("U2", "%s -> %s(login, password, authz_id)" % (m, want))
    # credentials reach the mechanism as encode('utf-8') of the authenticator's parameters, in order
    disp_calls = [c for c in walk_no_nested(auth.node) if isinstance(c, ast.Call) and isinstance(c.func, ast.Name)
                  and len(c.args) == 3]
    okc = False
    for c in disp_calls:
        names = []
        for a in c.args:
            if isinstance(a, ast.Name) and a.id not in auth.params:
                a = single_def_value(auth, a.id) or a  # the encoded value held in a local first
            if isinstance(a, ast.Call) and isinstance(a.func, ast.Attribute) and a.func.attr == "encode" \
                    and isinstance(a.func.value, ast.Name) and a.args and const_value(ctx.program, auth, a.args[0]) in ("utf-8", "utf8"):
                names.append(a.func.value.id)
        if names == params[:3]:
            okc = True
    conn = R.methods.get("connect")
    if okc:
        ctx.holds("U4", "%s passes (login, password, authz_id).encode('utf-8') in order" % auth.qualname)
    else:
        ctx.violation("U4", auth, "credential-plumbing", "the mechanism is not called with the utf-8 encodings of (login, password, authz_id) "
                      "in that order", node=auth.node, witness="login and password swapped or re-encoded")
    if conn is not None:
        cc = self_calls(conn, auth.name)
        cmech = [p for p in conn.params if "mech" in p.lower()][:1]
        passed = [norm(a) for a in cc[0].args[:4]] if cc else []
        if sl is not None and feeder is not None and feeder[0] is conn and len(passed) == 4:
            passed[3] = feeder_param  # computed in line from the mechanism parameter (evaluated by U3)
        elif feeder is not None and feeder[0] is conn and len(passed) == 4:
            a_ = feeder[2].args[0] if feeder[2].args else feeder[2].keywords[0].value
            passed[3] = norm(a_)
        if cc and passed == conn.params[1:4] + cmech:
            ctx.holds("U4", "connect passes its credentials to the authenticator unchanged")
        else:
            ctx.violation("U4", conn, "credential-plumbing-connect", "connect does not pass (login, password, authz_id, authmech) unchanged: %s"
                          % (norm(cc[0]) if cc else "no call"), node=conn.node)

    # ---- U4 payload templates -----------------------------------------------------
    ctx.rule("U4", "payload byte templates over the parameters equal the RFC formats")
    sites = sender_sites(ctx, R)
    tpl = {}
    for name in mech:
        f = R.methods[name]
        tpl[name] = [(c, v) for (g, c, v) in sites if g is f]
    LOGIN, PASS, AUTHZ = ("sym", 1), ("sym", 2), ("sym", 3)

    def check(name, got, want, what, node):
        f = R.methods[name]
        if got == want:
            ctx.holds("U4", "%s: %s == %s" % (f.qualname, what, show_tpl(want)))
        else:
            ctx.violation("U4", f, "payload:%s" % what, "%s is %s, the mechanism's format is %s" % (what, show_tpl(got), show_tpl(want)),
                          node=node, witness="the server decodes other credentials than the caller gave")

    if "_plain_authentication" in R.methods:
        f = R.methods["_plain_authentication"]
        ss = tpl.get("_plain_authentication", [])
        if len(ss) != 1:
            raise AnalysisError("U4", "PLAIN: expected one sender call")
        c = ss[0][0]
        a = bound_arg(c, R.sender, R.sender.params[2])
        if not (isinstance(a, ast.List) and len(a.elts) == 2):
            raise AnalysisError("U4", "PLAIN argument list shape")
        check("_plain_authentication", template(ctx, f, a.elts[0]), [("const", b"PLAIN")], "mechanism name", c)
        check("_plain_authentication", template(ctx, f, a.elts[1]),
              [("b64", [AUTHZ, ("const", b"\0"), LOGIN, ("const", b"\0"), PASS])], "initial response", c)
    if "_login_authentication" in R.methods:
        f = R.methods["_login_authentication"]
        ss = tpl.get("_login_authentication", [])
        stepwise = None
        if len(ss) == 3:
            # the exchange written step by step: AUTHENTICATE "LOGIN", then one quoted base64 line per challenge
            ordered = sorted(ss, key=lambda x: x[0].lineno)
            first, conts = ordered[0], ordered[1:]
            from .c08 import is_quoted_b64
            got = []
            for c_, v_ in conts:
                na = bound_arg(c_, R.sender, R.sender.params[1])
                if isinstance(na, ast.Name):
                    ds = sorted((d for d in walk_no_nested(f.node) if isinstance(d, ast.Assign) and len(d.targets) == 1
                                 and isinstance(d.targets[0], ast.Name) and d.targets[0].id == na.id and d.lineno < c_.lineno),
                                key=lambda d: d.lineno)
                    na = ds[-1].value if ds else na
                arg = None
                if na is not None and is_quoted_b64(na):
                    for x in ast.walk(na):
                        if isinstance(x, ast.Call) and call_name(x) == "b64encode" and x.args and isinstance(x.args[0], ast.Name):
                            arg = x.args[0].id
                got.append(arg)
            stepwise = (first, got)
            ss = [first]
        if len(ss) != 1:
            raise AnalysisError("U4", "LOGIN: expected one sender call")
        c = ss[0][0]
        a = bound_arg(c, R.sender, R.sender.params[2])
        check("_login_authentication", template(ctx, f, a.elts[0]) if isinstance(a, ast.List) and a.elts else None,
              [("const", b"LOGIN")], "mechanism name", c)
        ex = bound_arg(c, R.sender, "extralines")
        if isinstance(ex, ast.Name):
            ds = [d.value for d in walk_no_nested(f.node) if isinstance(d, ast.Assign) and any(
                isinstance(t, ast.Name) and t.id == ex.id for t in d.targets)]
            ex = ds[-1] if ds else None
        if stepwise is not None:
            want_ = [f.params[1], f.params[2]]
            if stepwise[1] == want_:
                ctx.holds("U4", "%s: the two responses are the quoted base64 of <login>, then of <password> (one per challenge)" % f.qualname)
            else:
                ctx.violation("U4", f, "payload:responses", "LOGIN answers the challenges with the quoted base64 of %s; the mechanism's format is "
                              "<login> then <password>" % (stepwise[1],), node=c,
                              witness="the server decodes other credentials than the caller gave")
        elif not isinstance(ex, ast.List) or len(ex.elts) != 2:
            ctx.violation("U4", f, "payload:extra lines", "LOGIN does not send exactly two continuation lines", node=c)
        else:
            check("_login_authentication", template(ctx, f, ex.elts[0]), [("const", b'"'), ("b64", [LOGIN]), ("const", b'"')], "first line", c)
            check("_login_authentication", template(ctx, f, ex.elts[1]), [("const", b'"'), ("b64", [PASS]), ("const", b'"')], "second line", c)
    if "_oauthbearer_authentication" in R.methods:
        f = R.methods["_oauthbearer_authentication"]
        ss = tpl.get("_oauthbearer_authentication", [])
        if len(ss) != 1:
            raise AnalysisError("U4", "OAUTHBEARER: expected one sender call")
        c = ss[0][0]
        a = bound_arg(c, R.sender, R.sender.params[2])
        check("_oauthbearer_authentication", template(ctx, f, a.elts[0]) if isinstance(a, ast.List) and a.elts else None,
              [("const", b"OAUTHBEARER")], "mechanism name", c)
        got = template(ctx, f, a.elts[1], at=c) if isinstance(a, ast.List) and len(a.elts) == 2 else None
        want_esc = [("b64", [("const", b"n,a="), ("saslname", [LOGIN]), ("const", b",\x01auth=Bearer "), PASS, ("const", b"\x01\x01")])]
        want_raw = [("b64", [("const", b"n,a="), LOGIN, ("const", b",\x01auth=Bearer "), PASS, ("const", b"\x01\x01")])]
        ctx.rule("U5", "gs2 header: the value after a= passes the saslname escaper ('=' -> =3D before ',' -> =2C)")
        if got == want_esc:
            ctx.holds("U4", "%s: initial response == %s" % (f.qualname, show_tpl(want_esc)))
            ctx.holds("U5", "%s: login passes the saslname escaper" % f.qualname)
        elif got == want_raw:
            ctx.holds("U4", "%s: initial response == %s" % (f.qualname, show_tpl(want_raw)))
            ctx.violation("U5", f, "saslname-unescaped", "the login is placed after `a=` without escaping ',' and '='", node=c,
                          witness="login 'o=acme,cn=joe' yields the malformed gs2 header n,a=o=acme,cn=joe,")
        else:
            check("_oauthbearer_authentication", got, want_esc, "initial response", c)

    # ---- U7: the payload handed to the sender is what goes out ------------------------
    from .c08 import w9
    w9(ctx, R, rule="U7")

    # ---- U6 ------------------------------------------------------------------------
    ctx.rule("U6", "no unresolved global, Python-2-only method or bytes/str mix in code reachable from a mechanism function")
    funcs = [R.methods[n] for n in mech]
    dm = ctx.program.modules.get("digest_md5")
    reach_digest = any(isinstance(n, ast.Name) and n.id == "DigestMD5" for f in funcs for n in ast.walk(f.node))
    if dm is not None and reach_digest:
        funcs += dm.all_funcs()
    nchk = 0
    for f in funcs:
        nchk += 1
        issues = py3_issues(ctx, f)
        if not issues:
            ctx.holds("U6", "%s: names resolve, no bytes/str mix found" % f.qualname)
        for key, msg, node in issues:
            ctx.violation("U6", f, key, msg, node=node, file=f.file,
                          witness="server announces DIGEST-MD5 (first in the client's preference order): connect() raises instead of authenticating")
    ctx.need("U6", "functions below the mechanisms", nchk, 4)
    # "connect returns True iff the server accepted them": the flag discipline of C10 (A3) - truthy only under the mechanism's success,
    # mechanisms True only on OK, and a fresh connection starts unauthenticated
    from .c10 import a3, a8
    conn = a3(ctx, R)
    # "announced by the server" means by THIS connection's server: the capability table starts empty (A8 of C10)
    a8(ctx, R)
    # ... and, with STARTTLS, announced after the handshake: the whole ordering of connect (A1-A7 of C10)
    from .c10 import session_rules
    session_rules(ctx, R)
    # "returns True iff the server accepted them": the verdict is what the readers make of the server's bytes (M1-M7 of C05)
    from .c05 import reader_rules
    reader_rules(ctx, R)
    # "the client's preference order" is the same for every connection of the process: the list of implemented mechanisms (and the
    # list of known capabilities) has no writer (H1 of C13)
    from .proles import ParserRoles
    from .c13 import h1
    h1(ctx, ParserRoles(ctx, "C16"), only={"SUPPORTED_AUTH_MECHS", "KNOWN_CAPABILITIES"})
    ctx.rule("U7", "connect's verdict is the authenticator's verdict for THIS connection")
    acalls = [c for c in self_calls(conn, auth.name)]
    rets = [r for r in walk_no_nested(conn.node) if isinstance(r, ast.Return) and r.value is not None]
    good = bad = None
    from sa.util import fact_call
    cfgc = ctx.cfg(conn)

    def accepted(fc):
        e, pol = fact_call(fc)
        return pol is True and e is not None and any(e is c for c in acalls)
    for r in rets:
        v = r.value
        cv = const_value(ctx.program, conn, v)
        under = all(cfgc.guarded(x, accepted) for x in cfgc.nodes_for(r))
        if isinstance(v, ast.Call) and any(v is c for c in acalls):
            good = r
        elif isinstance(v, ast.Name) and any(isinstance(a, ast.Assign) and any(a.value is c for c in acalls) and any(
                isinstance(t, ast.Name) and t.id == v.id for t in a.targets) for a in walk_no_nested(conn.node)):
            good = r
        elif isinstance(v, ast.Attribute) and v.attr == "authenticated":
            good = r  # the flag: reset on connect and set only under success (A3 above)
        elif cv is True and under:
            good = r
        elif cv in (False, None) and cv is not TOP and not under:
            continue
        else:
            bad = bad or r
    if good is not None and bad is None:
        ctx.holds("U7", "%s returns the authenticator's result (other exits are falsy constants)" % conn.qualname)
    else:
        ctx.violation("U7", conn, "verdict-not-from-authenticator", "connect() returns %s, which is not the authenticator's result" % (
            norm(bad.value) if bad is not None else "nothing"), node=bad or conn.node,
            witness="connect() reports success although the server refused the credentials (or the reverse)")


def show_tpl(t):
    if t is None:
        return "<not a recognised template>"
    out = []
    for p in t:
        if p[0] == "const":
            out.append(repr(p[1])[1:])
        elif p[0] == "sym":
            out.append(["?", "<login>", "<password>", "<authzid>"][p[1]] if isinstance(p[1], int) and p[1] < 4 else "<%s>" % (p[1],))
        elif p[0] in ("b64", "saslname"):
            out.append("%s(%s)" % (p[0], show_tpl(p[1])))
        else:
            out.append(str(p))
    return " ".join(out)


def _merge(parts):
    out = []
    for p in parts:
        if p[0] == "const" and out and out[-1][0] == "const":
            out[-1] = ("const", out[-1][1] + p[1])
        elif p[0] == "const" and p[1] == b"":
            continue
        else:
            out.append(p)
    return out


def template(ctx, f, e, at=None, depth=0):
    """Symbolic byte template of expression e in mechanism function f:
    list of ('const', bytes) | ('sym', param index) | ('b64', [...]) |
    ('saslname', [...]);  None if not recognised."""
    if depth > 40:
        return None
    params = f.params
    if isinstance(e, ast.Constant) and isinstance(e.value, bytes):
        return [("const", e.value)]
    if isinstance(e, ast.Name):
        # local definitions reaching this use (straight-line code): take the last one before `at`/e
        line = (at or e).lineno
        defs = sorted((d for d in walk_no_nested(f.node) if isinstance(d, ast.Assign) and d.lineno < line and any(
            isinstance(t, ast.Name) and t.id == e.id for t in d.targets)), key=lambda d: d.lineno)
        cur = [("sym", params.index(e.id))] if e.id in params else None
        for d in defs:
            v = d.value
            # x = x.encode(...) under an isinstance(str) test: identity on the byte level
            if isinstance(v, ast.Call) and isinstance(v.func, ast.Attribute) and v.func.attr == "encode" \
                    and isinstance(v.func.value, ast.Name) and v.func.value.id == e.id:
                continue
            cur = template_with(ctx, f, v, e.id, cur, d, depth + 1)
            if cur is None:
                return None
        return cur
    if isinstance(e, ast.BinOp) and isinstance(e.op, ast.Add):
        l, r = template(ctx, f, e.left, at, depth + 1), template(ctx, f, e.right, at, depth + 1)
        if l is None or r is None:
            return None
        return _merge(l + r)
    if isinstance(e, ast.BinOp) and isinstance(e.op, ast.Mod) and isinstance(e.left, ast.Constant) and isinstance(e.left.value, bytes) \
            and e.left.value.count(b"%s") == 1 and e.left.value.count(b"%") == 1:
        inner = template(ctx, f, e.right, at, depth + 1)
        if inner is None:
            return None
        pre, suf = e.left.value.split(b"%s")
        return _merge([("const", pre)] + inner + [("const", suf)])
    if isinstance(e, ast.Call):
        cn = call_name(e)
        if cn == "b64encode" and e.args:
            inner = template(ctx, f, e.args[0], at, depth + 1)
            return None if inner is None else [("b64", inner)]
        if cn == "join" and isinstance(e.func, ast.Attribute) and e.args and isinstance(e.args[0], (ast.List, ast.Tuple)):
            sep = template(ctx, f, e.func.value, at, depth + 1)
            if sep is None:
                return None
            out = []
            for i, x in enumerate(e.args[0].elts):
                t = template(ctx, f, x, at, depth + 1)
                if t is None:
                    return None
                if i:
                    out += sep
                out += t
            return _merge(out)
        if cn == "join" and isinstance(e.func, ast.Attribute) and len(e.args) == 1 and isinstance(e.args[0], (ast.GeneratorExp, ast.ListComp)):
            # sep.join(E for T in <literal sequence>): the items are E with T replaced by each element in turn
            items = _unrolled(f, e.args[0], at or e)
            if items is None:
                return None
            return template(ctx, f, ast.copy_location(ast.Call(func=e.func, args=[ast.copy_location(ast.List(elts=items, ctx=ast.Load()), e)],
                                                               keywords=[]), e), at or e, depth + 1)
        if cn == "replace" and isinstance(e.func, ast.Attribute) and len(e.args) == 2:
            base = template(ctx, f, e.func.value, at, depth + 1)
            if base is None:
                return None
            return _fold_repl(const_value(ctx.program, f, e.args[0]), const_value(ctx.program, f, e.args[1]), base)
        if len(e.args) == 1 and not e.keywords and _is_coercion(ctx, f, e):
            return template(ctx, f, e.args[0], at, depth + 1)
    return None


def _is_coercion(ctx, f, call):
    """helper(x) every return of which is x itself or x.encode(...): the identity on the byte level (the same reading as the
    in-place `x = x.encode(...)` under a type test)."""
    callee = None
    if isinstance(call.func, ast.Name):
        callee = f.module.funcs.get(call.func.id)
        npar = 0
    elif isinstance(call.func, ast.Attribute) and isinstance(call.func.value, ast.Name) and call.func.value.id == "self" and f.cls is not None:
        callee = ctx.program.method(f.cls, call.func.attr) or ctx.program.method(f.cls, mangle(f.cls.name, call.func.attr))
        npar = 1
    if callee is None or len(callee.params) != npar + 1:
        return False
    p = callee.params[npar]
    rets = [r for r in walk_no_nested(callee.node) if isinstance(r, ast.Return)]
    if not rets or any(isinstance(n, (ast.Assign, ast.AugAssign, ast.AnnAssign, ast.Delete, ast.Global)) for n in walk_no_nested(callee.node)):
        return False
    for r in rets:
        v = r.value
        if isinstance(v, ast.Name) and v.id == p:
            continue
        if isinstance(v, ast.Call) and isinstance(v.func, ast.Attribute) and v.func.attr == "encode" and isinstance(v.func.value, ast.Name) \
                and v.func.value.id == p:
            continue
        return False
    return True


def _unrolled(f, comp, at):
    if len(comp.generators) != 1 or comp.generators[0].ifs or comp.generators[0].is_async:
        return None
    g = comp.generators[0]
    seq = g.iter
    if isinstance(seq, ast.Name):
        line = at.lineno
        defs = sorted((d for d in walk_no_nested(f.node) if isinstance(d, ast.Assign) and any(
            isinstance(t, ast.Name) and t.id == seq.id for t in d.targets)), key=lambda d: d.lineno)
        if len(defs) != 1 or defs[0].lineno >= line:
            return None
        seq = defs[0].value
    if not isinstance(seq, (ast.List, ast.Tuple)) or any(isinstance(x, ast.Starred) for x in seq.elts):
        return None
    out = []
    for el in seq.elts:
        if isinstance(g.target, ast.Name):
            env = {g.target.id: el}
        elif isinstance(g.target, ast.Tuple) and isinstance(el, (ast.Tuple, ast.List)) and len(el.elts) == len(g.target.elts) \
                and all(isinstance(t, ast.Name) for t in g.target.elts):
            env = {t.id: x for t, x in zip(g.target.elts, el.elts)}
        else:
            return None

        class Sub(ast.NodeTransformer):
            def visit_Name(self, n):
                return copy.deepcopy(env[n.id]) if n.id in env else n
        item = Sub().visit(copy.deepcopy(comp.elt))
        for n in ast.walk(item):
            n.lineno = getattr(n, "lineno", at.lineno)
            if not hasattr(n, "col_offset"):
                n.col_offset = 0
        out.append(item)
    return out


def _fold_repl(a, b, base):
    """x.replace(a, b) over template `base`: the saslname escaper is '=' -> '=3D' FIRST, then ',' -> '=2C' (in one expression or in
    successive statements); any other replacement is not part of a recognised format."""
    if not isinstance(a, bytes) or not isinstance(b, bytes):
        return None
    if (a, b) == (b"=", b"=3D"):
        return [("repl=", base)]
    if (a, b) == (b",", b"=2C") and len(base) == 1 and base[0][0] == "repl=":
        return [("saslname", base[0][1])]
    return None


def template_with(ctx, f, v, name, cur, d, depth):
    """template of v where occurrences of `name` denote the previous value cur."""
    if isinstance(v, ast.Name) and v.id == name:
        return cur
    # substitute by evaluating with a temporary marker: handle the shapes Add / Call(b64encode) / replace-chain on name
    if isinstance(v, ast.BinOp) and isinstance(v.op, ast.Add):
        l = template_with(ctx, f, v.left, name, cur, d, depth + 1)
        r = template_with(ctx, f, v.right, name, cur, d, depth + 1)
        return None if l is None or r is None else _merge(l + r)
    if isinstance(v, ast.Call) and call_name(v) == "b64encode" and v.args:
        inner = template_with(ctx, f, v.args[0], name, cur, d, depth + 1)
        return None if inner is None else [("b64", inner)]
    if isinstance(v, ast.Call) and call_name(v) == "replace" and isinstance(v.func, ast.Attribute) and len(v.args) == 2:
        base = template_with(ctx, f, v.func.value, name, cur, d, depth + 1)
        if base is None:
            return None
        return _fold_repl(const_value(ctx.program, f, v.args[0]), const_value(ctx.program, f, v.args[1]), base)
    return template(ctx, f, v, at=d, depth=depth)


PY2_ONLY_ATTRS = {"has_key", "iteritems", "itervalues", "iterkeys"}


def py3_issues(ctx, f):
    issues = []
    mod = f.module
    known = set(dir(builtins)) | set(mod.assigns) | set(mod.funcs) | set(mod.classes) | set(mod.imports)
    local = set(f.params)
    for n in walk_no_nested(f.node):
        if isinstance(n, ast.Name) and isinstance(n.ctx, ast.Store):
            local.add(n.id)
        elif isinstance(n, ast.ExceptHandler) and n.name:
            local.add(n.name)
    o = f.outer
    while o is not None:
        local |= set(o.params)
        o = o.outer
    for n in walk_no_nested(f.node):
        if isinstance(n, ast.Name) and isinstance(n.ctx, ast.Load) and n.id not in known and n.id not in local:
            issues.append(("unresolved-name:%s" % n.id, "name %s is not defined (Python 2 builtin)" % n.id, n))
        if isinstance(n, ast.Attribute) and n.attr in PY2_ONLY_ATTRS:
            issues.append(("py2-method:%s" % n.attr, "dict.%s does not exist in Python 3" % n.attr, n))
        if isinstance(n, ast.Call):
            # bytes-producing call with a str argument / method on bytes with str constant
            if isinstance(n.func, ast.Attribute) and isinstance(n.func.value, ast.Call) and call_name(n.func.value) in (
                    "b64decode", "b64encode", "hexlify", "digest") and n.func.attr not in ("decode",) and any(
                    isinstance(a, ast.Constant) and isinstance(a.value, str) for a in n.args):
                issues.append(("bytes-method-str-arg:%s" % n.func.attr, "bytes.%s() is called with a str argument: %s" % (n.func.attr, norm(n)[:60]), n))
            if call_name(n) in ("md5", "sha1", "b64encode", "hexlify") and n.args and is_str_expr(n.args[0], f):
                issues.append(("str-to-bytes-api:%s" % call_name(n), "%s() receives text (str), it needs bytes: %s" % (call_name(n), norm(n)[:70]), n))
    # de-duplicate by key
    seen = set()
    out = []
    for k, m, n in issues:
        if k not in seen:
            seen.add(k)
            out.append((k, m, n))
    return out


def is_str_expr(e, f, depth=0):
    if isinstance(e, ast.Constant):
        return isinstance(e.value, str)
    if isinstance(e, ast.BinOp) and isinstance(e.op, ast.Mod):
        return is_str_expr(e.left, f, depth + 1)
    if isinstance(e, ast.BinOp) and isinstance(e.op, ast.Add):
        return is_str_expr(e.left, f, depth + 1) or is_str_expr(e.right, f, depth + 1)
    if isinstance(e, ast.JoinedStr):
        return True
    if isinstance(e, ast.Name) and depth < 3:
        defs = [d for d in walk_no_nested(f.node) if isinstance(d, (ast.Assign, ast.AugAssign)) and any(
            isinstance(t, ast.Name) and t.id == e.id for t in (d.targets if isinstance(d, ast.Assign) else [d.target]))]
        return bool(defs) and any(is_str_expr(d.value, f, depth + 1) for d in defs)
    return False


def selection_twice(ctx, R, auth):
    """The authenticator interpreted twice on one client, the capability table holding another SASL announcement the second time
    (what STARTTLS does): the mechanism tried the second time must be the reference choice for the SECOND announcement.
    -> None (fine or not evaluable) | message"""
    supp = Evaluator(ctx.program, R.module).lookup("SUPPORTED_AUTH_MECHS")
    if supp is TOP:
        return None
    params = auth.params[1:]
    mech_param = [p for p in params if "mech" in p.lower()]
    if not mech_param or selection_feeders(R, auth) or selection_slice(R, auth) is not None:
        return None
    mech_param = mech_param[0]
    try:
        _cr0, cap_attr0 = capability_reader(R, connect_method(R, "U3"))
    except AnalysisError:
        return None
    short0 = cap_attr0[len("_" + R.cls.name):] if cap_attr0.startswith("_" + R.cls.name + "__") else cap_attr0
    capkey = "%s.%s" % (auth.params[0], short0)
    base = R.const_env(auth.params[0])
    for srv1, srv2 in ((["LOGIN"], ["PLAIN"]), (["DIGEST-MD5", "PLAIN"], ["PLAIN"]), (["PLAIN"], ["OAUTHBEARER", "LOGIN"])):
        def mk(srv):
            def oracle(interp, e, name, recv, args, kw, st, srv=srv):
                if name == "self.get_sasl_mechanisms":
                    return [(fd.Const(list(srv)), None)]
                if name and name.startswith("self.") and name[5:] in R.methods and name[5:].endswith("_authentication"):
                    return [(fd.Const(False), ("try", name[5:], False))]
                return None
            return oracle
        try:
            env1 = dict(base)
            env1[capkey] = fd.Const({"SASL": " ".join(srv1), "IMPLEMENTATION": "x"})
            env1[mech_param] = fd.Const(None)
            p1 = fd.Interp(auth.node, R.cls.name, mk(srv1), resolve=module_resolver(ctx.program, R.module)).run(env1)
            if len(p1) != 1:
                continue
            env2 = {k: v for k, v in p1[0].env.items() if k.startswith(auth.params[0] + ".")}
            env2[capkey] = fd.Const({"SASL": " ".join(srv2), "IMPLEMENTATION": "x"})
            env2[mech_param] = fd.Const(None)
            p2 = fd.Interp(auth.node, R.cls.name, mk(srv2), resolve=module_resolver(ctx.program, R.module)).run(env2)
        except fd.TooManyPaths:
            continue
        if len(p2) != 1:
            continue
        tries2 = [x for x in p2[0].events if x[0] == "try"]
        expect2 = next((m for m in supp if m in srv2), None)
        want2 = "_%s_authentication" % expect2.lower().replace("-", "_") if expect2 else None
        got2 = tries2[0][1] if tries2 else None
        if got2 != want2:
            return ("the authenticator tries %s instead of %s when the server announced %s before the TLS handshake and %s after it: the choice "
                    "made from the clear-text announcement is reused" % (got2, want2, srv1, srv2))
    return None
